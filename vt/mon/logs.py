"""Capture of logging records emitted by ttconv loggers (C04, C05)."""
import contextlib
import logging


class _Collector(logging.Handler):
  def __init__(self):
    super().__init__(level=logging.DEBUG)
    self.records = []

  def emit(self, record):
    self.records.append(record)


@contextlib.contextmanager
def capture(prefix="ttconv", level=logging.WARNING):
  """Yields a list that receives (logger name, level name, formatted message) for records >= level."""
  root = logging.getLogger(prefix)
  h = _Collector()
  old_level = root.level
  old_disabled = logging.root.manager.disable
  logging.disable(logging.NOTSET)
  root.setLevel(level)
  root.addHandler(h)
  out = []
  try:
    yield out
  finally:
    root.removeHandler(h)
    root.setLevel(old_level)
    logging.disable(old_disabled)
    for r in h.records:
      if r.levelno >= level:
        try:
          msg = r.getMessage()
        except Exception:  # pylint: disable=broad-except
          msg = str(r.msg)
        out.append((r.name, r.levelname, msg))
