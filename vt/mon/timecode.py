"""C12 monitors: postconditions on SmpteTimeCode.from_frames / to_frames / to_temporal_offset / from_seconds /
add_frames / parse and ClockTime.from_seconds, evaluated on every call in whatever workload runs (collect mode:
they record into the Ctx and never raise)."""
from fractions import Fraction
import math

from vt.mon.install import wrap
from vt.ref import timecode as R


def lab(tc):
  return (tc.get_hours(), tc.get_minutes(), tc.get_seconds(), tc.get_frames())


def install(ctx, light=False):
  from ttconv.time_code import SmpteTimeCode, ClockTime

  def known_rate(rate):
    return isinstance(rate, Fraction) and rate in R.ALL_RATES

  # --- from_frames --------------------------------------------------------------------
  def post_from_frames(_s, args, kwargs, res, exc):
    n = args[0] if args else kwargs.get("nb_frames")
    rate = args[1] if len(args) > 1 else kwargs.get("frame_rate")
    if not (isinstance(n, int) and not isinstance(n, bool) and n >= 0 and known_rate(rate)):
      return
    ctx.count("mon:from_frames")
    if exc is not None:
      ctx.violation("from_frames-raises", f"from_frames({n}, {rate}) raised {type(exc).__name__}: {exc}",
                    {"kind": "frame", "n": n, "rate": str(rate)})
      return
    got = lab(res)
    if rate == R.R2398:
      if not R.label_valid(got, rate):
        ctx.violation("from_frames-range-2398", f"from_frames({n}, {rate}) = {got}: field out of range",
                      {"kind": "frame", "n": n, "rate": str(rate)})
      return
    exp = R.label(n, rate)
    if got != exp:
      what = "skipped-df-label" if (R.is_df(rate) and not R.label_valid(got, rate)) else "label"
      ctx.violation(f"from_frames-{what}:{rate}", f"from_frames({n}, {rate}) = {got}, SMPTE 12M label is {exp}",
                    {"kind": "frame", "n": n, "rate": str(rate)})
  wrap(SmpteTimeCode, "from_frames", post_from_frames)

  # --- to_frames ------------------------------------------------------------------------
  def post_to_frames(_s, args, _k, res, exc):
    tc = args[0]
    rate = tc.get_frame_rate()
    if not known_rate(rate) or rate == R.R2398:
      return
    l = lab(tc)
    if not all(isinstance(x, int) for x in l) or not R.label_valid(l, rate):
      return
    ctx.count("mon:to_frames")
    if exc is not None or res != R.count(l, rate):
      ctx.violation(f"to_frames:{rate}", f"{l} at {rate}: to_frames() = {res!r} ({exc!r}), SMPTE 12M count is {R.count(l, rate)}",
                    {"kind": "label", "label": list(l), "rate": str(rate)})
  wrap(SmpteTimeCode, "to_frames", post_to_frames)

  # --- to_temporal_offset ------------------------------------------------------------
  def post_tto(_s, args, _k, res, exc):
    tc = args[0]
    rate = tc.get_frame_rate()
    if not known_rate(rate) or exc is not None:
      return
    l = lab(tc)
    if not R.label_valid(l, rate):
      return
    ctx.count("mon:to_temporal_offset")
    n = tc.to_frames()
    if not isinstance(res, Fraction) or res != Fraction(n) / rate:
      ctx.violation(f"to_temporal_offset:{rate}", f"{l} at {rate}: to_temporal_offset() = {res!r}, expected frames/rate = {Fraction(n) / rate}",
                    {"kind": "label", "label": list(l), "rate": str(rate)})
  wrap(SmpteTimeCode, "to_temporal_offset", post_tto)

  # --- from_seconds -----------------------------------------------------------------
  def post_from_seconds(_s, args, kwargs, res, exc):
    x = args[0] if args else kwargs.get("seconds")
    rate = args[1] if len(args) > 1 else kwargs.get("frame_rate")
    if not known_rate(rate) or rate == R.R2398 or isinstance(x, bool) or not isinstance(x, (int, float, Fraction)):
      return
    if isinstance(x, float) and not math.isfinite(x):
      return
    if x < 0:
      return
    ctx.count("mon:from_seconds")
    exact = Fraction(x) * rate
    rp = {"kind": "seconds", "x": [str(Fraction(x)), type(x).__name__], "rate": str(rate)}
    if exc is not None:
      ctx.violation("from_seconds-raises", f"from_seconds({x!r}, {rate}) raised {type(exc).__name__}: {exc}", rp)
      return
    got = lab(res)
    if not R.label_valid(got, rate):
      ctx.violation(f"from_seconds-invalid-label:{rate}", f"from_seconds({x!r}, {rate}) = {got}: not a valid label", rp)
      return
    gn = R.count(got, rate)
    if exact.denominator == 1:
      ctx.count("mon:from_seconds:boundary")
      if gn != exact.numerator:
        ctx.violation(f"from_seconds-boundary:{type(x).__name__}",
                      f"from_seconds({x!r}, {rate}) = {got} = frame {gn}; the time is exactly frame {exact.numerator} = {R.label(exact.numerator, rate)}", rp)
    elif not (exact - 1 < gn < exact + 1):
      ctx.violation(f"from_seconds-far:{type(x).__name__}", f"from_seconds({x!r}, {rate}) = frame {gn}, exact position {float(exact)}", rp)
  wrap(SmpteTimeCode, "from_seconds", post_from_seconds)

  # --- add_frames ---------------------------------------------------------------------
  def pre_add(args, kwargs):
    tc = args[0]
    rate = tc.get_frame_rate()
    l = lab(tc)
    if not known_rate(rate) or rate == R.R2398 or not R.label_valid(l, rate):
      return None
    k = args[1] if len(args) > 1 else kwargs.get("nb_frames", 1)
    return (l, rate, k)

  def post_add(state, args, _k, _res, exc):
    if state is None:
      return
    l, rate, k = state
    if not isinstance(k, int) or R.count(l, rate) + k < 0:
      return
    ctx.count("mon:add_frames")
    exp = R.label(R.count(l, rate) + k, rate)
    got = lab(args[0])
    if exc is not None or got != exp:
      ctx.violation(f"add_frames:{rate}", f"{l} at {rate} add_frames({k}) -> {got} ({exc!r}), expected {exp}",
                    {"kind": "add", "label": list(l), "rate": str(rate), "k": k})
  wrap(SmpteTimeCode, "add_frames", post_add, pre_add)

  # --- ClockTime.from_seconds ------------------------------------------------------------
  def post_clock(_s, args, kwargs, res, exc):
    x = args[0] if args else kwargs.get("seconds")
    if isinstance(x, bool) or not isinstance(x, (int, float, Fraction)):
      return
    if isinstance(x, float) and not math.isfinite(x):
      return
    if x < 0:
      return
    ctx.count("mon:clock_from_seconds")
    rp = {"kind": "clock", "x": [str(Fraction(x)), type(x).__name__]}
    if exc is not None:
      ctx.violation("clock-raises", f"ClockTime.from_seconds({x!r}) raised {type(exc).__name__}: {exc}", rp)
      return
    h, m, s, ms = res.get_hours(), res.get_minutes(), res.get_seconds(), res.get_milliseconds()
    if not (all(isinstance(v, int) for v in (h, m, s, ms)) and h >= 0 and 0 <= m < 60 and 0 <= s < 60 and 0 <= ms < 1000):
      ctx.violation("clock-field-range", f"ClockTime.from_seconds({x!r}) = {h}:{m}:{s}.{ms}: field out of range or not int", rp)
      return
    total = ((h * 60 + m) * 60 + s) * 1000 + ms
    if total not in R.nearest_ms(x):
      ctx.violation(f"clock-not-nearest:{type(x).__name__}",
                    f"ClockTime.from_seconds({x!r}) = {res} = {total} ms; nearest millisecond is {R.nearest_ms(x)}", rp)
  wrap(ClockTime, "from_seconds", post_clock)
