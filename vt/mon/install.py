"""Installing monitors by re-binding public attributes of ttconv classes (no source hooks)."""
import functools
import inspect

_installed = []


def wrap(owner, name, post=None, pre=None):
  """Re-binds owner.name with a wrapper calling pre(args, kwargs) -> state and post(state, args, kwargs, result, exc).
  Works for plain functions, staticmethods and classmethods found in owner.__dict__. Returns the original."""
  raw = owner.__dict__[name] if inspect.isclass(owner) else getattr(owner, name)
  kind = "static" if isinstance(raw, staticmethod) else "class" if isinstance(raw, classmethod) else "plain"
  fn = raw.__func__ if kind != "plain" else raw

  @functools.wraps(fn)
  def wrapper(*args, **kwargs):
    state = pre(args, kwargs) if pre is not None else None
    try:
      result = fn(*args, **kwargs)
    except BaseException as e:
      if post is not None:
        post(state, args, kwargs, None, e)
      raise
    if post is not None:
      post(state, args, kwargs, result, None)
    return result

  wrapper.__vt_original__ = raw
  new = staticmethod(wrapper) if kind == "static" else classmethod(wrapper) if kind == "class" else wrapper
  setattr(owner, name, new)
  _installed.append((owner, name, raw))
  return fn


def uninstall_all():
  while _installed:
    owner, name, raw = _installed.pop()
    setattr(owner, name, raw)
