"""Oracles over one snapshot: C01 (structure/text vs reference ISD), C03 (computed styles vs reference),
C13 (documented ISD shape).  All work on plain snapshots (vt.ref.absdoc) of the observed ISD."""
from __future__ import annotations

import math
import numbers
from fractions import Fraction

from vt.ref import absdoc
from vt.ref import isd as refisd

RTOL = 1e-9
ATOL = 1e-9


# ---------------------------------------------------------------------------------------------------------
# value comparison
# ---------------------------------------------------------------------------------------------------------
def num_eq(a, b, rtol=RTOL) -> bool:
  if isinstance(a, bool) or isinstance(b, bool):
    return a is b
  try:
    fa, fb = float(a), float(b)
  except (TypeError, ValueError, OverflowError):
    return a == b
  if math.isnan(fa) or math.isnan(fb):
    return False
  return abs(fa - fb) <= ATOL + rtol * max(abs(fa), abs(fb))


def pequal(a, b, rtol=RTOL) -> bool:
  if isinstance(a, numbers.Number) and isinstance(b, numbers.Number) and not isinstance(a, bool) and not isinstance(b, bool):
    return num_eq(a, b, rtol)
  if isinstance(a, tuple) and isinstance(b, tuple) and a and b and a[0] == b[0]:
    tag = a[0]
    if tag == "L":
      return a[2] == b[2] and num_eq(a[1], b[1], rtol)
    if tag == "D":
      if a[1] != b[1]:
        return False
      da, db = dict(a[2]), dict(b[2])
      return da.keys() == db.keys() and all(pequal(da[k], db[k], rtol) for k in da)
    if tag == "T":
      return len(a[1]) == len(b[1]) and all(pequal(x, y, rtol) for x, y in zip(a[1], b[1]))
    if tag == "C":
      return tuple(a[1]) == tuple(b[1])
    return a == b
  return a == b


def show(p):
  """Compact rendering of a plain value for messages."""
  if isinstance(p, tuple) and p:
    if p[0] == "L":
      v = p[1]
      return f"{float(v):g}{ {'pct': '%'}.get(p[2], p[2]) }"
    if p[0] == "E":
      return p[2]
    if p[0] == "C":
      return "#%02x%02x%02x%02x" % tuple(p[1])
    if p[0] == "D":
      return p[1].replace("Type", "") + "(" + ", ".join(f"{k}={show(v)}" for k, v in p[2]) + ")"
    if p[0] == "T":
      return "[" + ", ".join(show(x) for x in p[1]) + "]"
  return repr(p)


# ---------------------------------------------------------------------------------------------------------
# uniform light tree over RefNode / AbsEl
# ---------------------------------------------------------------------------------------------------------
class LN:
  __slots__ = ("kind", "id", "text", "children", "src", "src_had_children")

  def __init__(self, kind, id_, text, children, src):
    self.kind, self.id, self.text, self.children, self.src = kind, id_, text, children, src


def light(n) -> LN:
  return LN(n.kind, n.id, n.text, [light(c) for c in n.children], n)


def normalise(n: LN):
  """Childless Rb / Rbc (and a Ruby left childless by that) are not judged: drop them on both sides."""
  for c in n.children:
    had = bool(c.children)
    normalise(c)
    c.src_had_children = had
  n.children = [c for c in n.children
                if not ((c.kind in ("Rb", "Rbc", "Ruby") and not c.children) or
                        (c.kind not in ("Text", "Br") and not c.children and getattr(c, "src_had_children", False)))]


def label(n: LN):
  return f"{n.kind}#{n.id}" if n.kind != "Text" else f"Text{n.text!r}"


def compare_structure(ref: LN, obs: LN, path, diffs, pairs):
  """Appends (mech, message) to diffs and matched (ref.src, obs.src) pairs to pairs."""
  pairs.append((ref.src, obs.src))
  rk = [(c.kind, c.id) if c.kind != "Text" else ("Text", tuple((c.text or "").split())) for c in ref.children]
  ok = [(c.kind, c.id) if c.kind != "Text" else ("Text", tuple((c.text or "").split())) for c in obs.children]
  if rk != ok:
    rset, oset = list(rk), list(ok)
    missing = [x for x in rk if x not in oset]
    extra = [x for x in ok if x not in rset]
    where = "/".join(path + [label(ref)])
    if missing and not extra:
      mech = "missing-" + missing[0][0].lower()
    elif extra and not missing:
      mech = "unexpected-" + extra[0][0].lower()
    elif not missing and not extra:
      mech = "order-or-duplicate"
    else:
      mech = "content-differs"
    diffs.append((mech, f"under {where}: expected children {rk}, snapshot has {ok}"))
    return
  for rc, oc in zip(ref.children, obs.children):
    if rc.kind == "Text":
      pairs.append((rc.src, oc.src))
    else:
      compare_structure(rc, oc, path + [label(ref)], diffs, pairs)


def check_c01(ref: refisd.RefISD, obs: absdoc.AbsDoc):
  """Returns (diffs, pairs). diffs: list of (mech, message)."""
  diffs, pairs = [], []
  rregs = [light(r) for r in ref.regions]
  oregs = [light(r) for r in obs.regions]
  for x in rregs + oregs:
    normalise(x)
  # a region without content is C13/C14's business: compare only regions that have content on either side
  rwith = [r for r in rregs if r.children]
  owith = [r for r in oregs if r.children]
  rids, oids = [r.id for r in rwith], [r.id for r in owith]
  if rids != oids:
    missing = [i for i in rids if i not in oids]
    extra = [i for i in oids if i not in rids]
    mech = "region-missing" if missing and not extra else "region-unexpected" if extra and not missing else "region-order"
    diffs.append((mech, f"regions with content: expected {rids}, snapshot has {oids}"))
    return diffs, pairs
  for r, o in zip(rwith, owith):
    compare_structure(r, o, [], diffs, pairs)
  # tokens once each over the whole snapshot
  seen = {}
  for o in oregs:
    for n in o.src.walk():
      if n.kind == "Text":
        for tok in (n.text or "").split():
          seen[tok] = seen.get(tok, 0) + 1
  return diffs, pairs


# ---------------------------------------------------------------------------------------------------------
# C03: computed styles
# ---------------------------------------------------------------------------------------------------------
def check_c03(pairs, counters=None):
  diffs = []
  for r, o in pairs:
    if r.kind in ("Text", "Br"):
      continue
    must, _may = refisd.APPLICABLE[r.kind]
    for prop in must:
      val, certain = r.styles[prop]
      src = r.sources.get(prop, "?")
      if not certain or val is None:
        if counters is not None:
          counters[f"abstain:{prop}"] += 1
        continue
      if counters is not None:
        counters[f"cmp:{r.kind}:{prop}:{src}"] += 1
      if prop not in o.styles:
        continue   # absence of an applicable property is C13's clause
      if not pequal(val, o.styles[prop]):
        diffs.append((f"{prop}:{src}", f"{r.kind}#{r.id} {prop} ({src}): expected {show(val)}, snapshot has {show(o.styles[prop])}"))
  return diffs


# ---------------------------------------------------------------------------------------------------------
# C13: ISD shape
# ---------------------------------------------------------------------------------------------------------
CONTENT_MODEL = {
  "Region": {"Body"}, "Body": {"Div"}, "Div": {"Div", "P"}, "P": {"Span", "Br", "Ruby"}, "Span": {"Span", "Br", "Text"},
  "Br": set(), "Text": set(), "Rb": {"Span"}, "Rt": {"Span"}, "Rp": {"Span"}, "Rbc": {"Rb"}, "Rtc": {"Rt", "Rp"},
  "Ruby": {"Rb", "Rt", "Rp", "Rbc", "Rtc"},
}
_RUBY_FULL = [["Rb", "Rt"], ["Rb", "Rp", "Rt", "Rp"], ["Rbc", "Rtc"], ["Rbc", "Rtc", "Rtc"]]


def _subseq(xs, ys):
  it = iter(ys)
  return all(x in it for x in xs)


def ruby_ok(kinds):
  """Children of an ISD ruby container: any sub-sequence of a documented pattern (children may be pruned)."""
  return any(_subseq(kinds, full) for full in _RUBY_FULL)


def rtc_ok(kinds):
  core = [k for k in kinds if k != "Rp"]
  rps = [i for i, k in enumerate(kinds) if k == "Rp"]
  return all(k == "Rt" for k in core) and len(rps) <= 2 and all(i in (0, len(kinds) - 1) for i in rps)


def lengths_in(p, out):
  if isinstance(p, tuple) and p:
    if p[0] == "L":
      out.append(p)
    elif p[0] == "D":
      for _k, v in p[2]:
        lengths_in(v, out)
    elif p[0] == "T":
      for v in p[1]:
        lengths_in(v, out)


def check_c13(obs: absdoc.AbsDoc, src: absdoc.AbsDoc, ref, isd_live=None, source_ids=None):
  """Shape clauses on the observed snapshot. `ref` (RefISD) is used for the white-space clause only (may be None)."""
  diffs = []
  if obs.params() != src.params():
    diffs.append(("doc-params", f"document parameters differ: source {src.params()}, snapshot {obs.params()}"))
  for reg in obs.regions:
    if reg.kind != "Region":
      diffs.append(("content-model", f"top-level {reg.kind}"))
      continue
    if len(reg.children) > 1:
      diffs.append(("region-bodies", f"region {reg.id} has {len(reg.children)} children"))
    for n in reg.walk():
      where = f"{n.kind}#{n.id}"
      if n.begin is not None or n.end is not None:
        diffs.append(("has-timing", f"{where} has begin/end {n.begin}/{n.end}"))
      if n.anims:
        diffs.append(("has-animation", f"{where} has {len(n.anims)} animation steps"))
      if n.region_id is not None:
        diffs.append(("has-region-ref", f"{where} references region {n.region_id}"))
      allowed = CONTENT_MODEL.get(n.kind)
      if allowed is None:
        diffs.append(("content-model", f"unknown kind {n.kind}"))
        continue
      bad = [c.kind for c in n.children if c.kind not in allowed]
      if bad:
        diffs.append(("content-model", f"{where} has children of kind {bad}"))
      if n.kind == "Ruby" and not ruby_ok([c.kind for c in n.children]):
        diffs.append(("content-model-ruby", f"{where} children {[c.kind for c in n.children]}"))
      if n.kind == "Rtc" and not rtc_ok([c.kind for c in n.children]):
        diffs.append(("content-model-rtc", f"{where} children {[c.kind for c in n.children]}"))
      if n.kind == "Text":
        if not n.text:
          diffs.append(("empty-text", "empty text node"))
        continue
      if n.kind == "Span" and not n.children:
        diffs.append(("childless-span", f"{where} has no children"))
      must, may = refisd.APPLICABLE[n.kind]
      for prop in n.styles:
        if prop not in must and prop not in may:
          diffs.append((f"inapplicable:{n.kind}:{prop}", f"{where} carries inapplicable style {prop}"))
      if n.kind != "Br":
        for prop in must:
          if prop not in n.styles:
            diffs.append((f"absent:{n.kind}:{prop}", f"{where} lacks applicable style {prop}"))
      for prop, v in n.styles.items():
        ls = []
        lengths_in(v, ls)
        for ln in ls:
          if ln[2] not in ("rh", "rw"):
            diffs.append((f"length-unit:{prop}:{ln[2]}", f"{where} {prop} = {show(v)} has a length in {ln[2]}"))
            break
      if n.styles.get("Display") == ("E", "DisplayType", "none"):
        diffs.append(("display-none", f"{where} computes to display none"))
      if n.kind == "Region":
        o, p = n.styles.get("Origin"), n.styles.get("Position")
        if o is not None and p is not None:
          pd = dict(p[2])
          od = dict(o[2])
          if not (pequal(od["x"], pd["h_offset"]) and pequal(od["y"], pd["v_offset"]) and pd["h_edge"][2] == "left" and pd["v_edge"][2] == "top"):
            diffs.append(("origin-position", f"{where} origin {show(o)} != position {show(p)}"))
        if not n.children and n.styles.get("ShowBackground") != ("E", "ShowBackgroundType", "always"):
          diffs.append(("empty-region-kept", f"{where} has no content and showBackground {show(n.styles.get('ShowBackground'))}"))
        elif n.children and n.styles.get("ShowBackground") != ("E", "ShowBackgroundType", "always") \
            and not any(d.kind in ("Text", "Br", "Rb", "Rbc") for d in n.walk()):
          # containers only (body / div / p / span left childless): nothing to present; ruby bases, which ttconv keeps when
          # empty, are not judged
          diffs.append(("empty-region-kept:containers-only", f"{where} holds containers without any text or line break and showBackground "
                        f"{show(n.styles.get('ShowBackground'))}"))
  if isd_live is not None:
    diffs.extend(_check_ownership(isd_live, source_ids))
  return diffs


def _check_ownership(isd, source_ids):
  diffs = []
  seen = set()
  n_nodes = 0
  for reg in isd.iter_regions():
    for n in reg.dfs_iterator():
      n_nodes += 1
      if n.get_doc() is not isd:
        diffs.append(("foreign-doc", f"{type(n).__name__}#{n.get_id()} get_doc() is not the snapshot"))
        break
      if id(n) in seen:
        diffs.append(("shared-node", f"{type(n).__name__}#{n.get_id()} occurs twice in the snapshot"))
      seen.add(id(n))
      if source_ids is not None and id(n) in source_ids:
        diffs.append(("node-of-source", f"{type(n).__name__}#{n.get_id()} is an object of the source document"))
    if isd.get_region(reg.get_id()) is not reg:
      diffs.append(("region-registry", f"region {reg.get_id()} not registered under its id"))
  return diffs


def check_ws(pairs):
  """C13 white-space clause: exact text of matched text nodes where the reference is certain."""
  diffs = []
  for r, o in pairs:
    if r.kind != "Text" or not r.ws_certain:
      continue
    p = getattr(r, "_parent", None)
    skip = False
    while p is not None:
      if p.kind == "Rp":
        skip = True
        break
      p = getattr(p, "_parent", None)
    if skip:
      continue
    if r.text != o.text:
      diffs.append(("white-space:" + r.space, f"text node ({r.space}): expected {r.text!r}, snapshot has {o.text!r}"))
  return diffs


def source_object_ids(doc):
  ids = set()
  for r in doc.iter_regions():
    ids.add(id(r))
  b = doc.get_body()
  if b is not None:
    n = 0
    for e in b.dfs_iterator():
      ids.add(id(e))
      n += 1
      if n > 500000:
        break
  return ids
