"""C15 well-formedness walker and public-state fingerprint over REAL ttconv model objects.

Everything is observed through public getters only (first_child / last_child / next_sibling / previous_sibling /
parent / len / has_children / get_doc / get_region / iter_styles / get_style / iter_animation_steps /
ContentDocument.get_body / iter_regions / get_region / has_region / iter_initial_values ...). All walks are bounded,
so a cyclic or otherwise corrupt structure is reported, never followed for ever.

check(elements, docs, name_of) -> list of issues (inv, object name, detail); empty list = well formed
snapshot(elements, docs, name_of) -> plain-data public state (see vt.ref.model)
check_document(doc) -> issues for one arbitrary ContentDocument (for use outside the C15 universe, e.g. a pytest plugin)

Invariant names (first item of an issue):
  sibling-loop   the next_sibling chain of a child list does not end
  links          child list / parent / previous / next / first / last / len / has_children disagree
  two-parents    an element is listed as a child more than once
  cycle          the parent chain of an element returns to an element already visited
  doc-mix        a child does not belong to the document of its parent
  body-doc       a document's body is not a parentless Body belonging to that document
  content-model  child kinds the content model forbids (incl. ruby / rtc sequences)
  region-ref     an element's region is not `its_doc.get_region(region.get_id())`
  registry       get_region / has_region / iter_regions of a document disagree
  style-value:<P> / anim-value:<P> / initial-value:<P>   a stored value the reference validator refuses
"""
from vt.ref import model as R

STRUCTURAL = frozenset(["sibling-loop", "links", "two-parents", "cycle"])

_KIND_CACHE = {}


def kind_of(x):
  """Model kind of an object: the first class in its MRO named like a canonical-model element."""
  t = type(x)
  k = _KIND_CACHE.get(t)
  if k is None:
    k = "?" + t.__name__
    for c in t.__mro__:
      if c.__name__ in R.KINDS and c.__module__ == "ttconv.model":
        k = c.__name__
        break
    _KIND_CACHE[t] = k
  return k


def children_of(x, limit):
  """Forward walk of the child list, bounded. Returns (children, terminated)."""
  out = []
  c = x.first_child()
  while c is not None:
    if len(out) >= limit:
      return out, False
    out.append(c)
    c = c.next_sibling()
  return out, True


def _model():
  import ttconv.model as m  # pylint: disable=import-outside-toplevel
  return m


def check(elements, docs, name_of, limit=None):
  """elements: every ContentElement (incl. Region) of the universe; docs: every ContentDocument."""
  m = _model()
  issues = []
  limit = limit if limit is not None else len(elements) + 2
  listed = {}     # id(child) -> [(parent name)]
  kids = {}

  def add(inv, obj, detail):
    issues.append((inv, name_of(obj), detail))

  # --- child lists and links --------------------------------------------------------------------------------------
  for x in elements:
    cs, ok = children_of(x, limit)
    kids[id(x)] = cs if ok else None
    if not ok:
      add("sibling-loop", x, f"more than {limit} siblings following first_child()/next_sibling()")
      continue
    n = len(cs)
    first, last = x.first_child(), x.last_child()
    if n == 0:
      if first is not None or last is not None:
        add("links", x, f"no children but first_child()={name_of(first)} last_child()={name_of(last)}")
    else:
      if first is not cs[0]:
        add("links", x, f"first_child() is {name_of(first)}, child list starts with {name_of(cs[0])}")
      if last is not cs[-1]:
        add("links", x, f"last_child() is {name_of(last)}, child list [{', '.join(map(name_of, cs))}] ends with {name_of(cs[-1])}")
      prev = None
      for c in cs:
        if c.parent() is not x:
          add("links", c, f"listed as a child of {name_of(x)} but parent() is {name_of(c.parent())}")
        if c.previous_sibling() is not prev:
          add("links", c, f"previous_sibling() is {name_of(c.previous_sibling())}, expected {name_of(prev)} (child of {name_of(x)})")
        listed.setdefault(id(c), []).append(x)
        prev = c
    try:
      ln = len(x)
    except Exception as e:  # pylint: disable=broad-except
      ln = f"{type(e).__name__}"
    if ln != n:
      add("links", x, f"len() is {ln}, child list has {n}")
    if bool(x.has_children()) != (n > 0):
      add("links", x, f"has_children() is {x.has_children()}, child list has {n}")

  # --- parent side, single parent, acyclicity, documents ----------------------------------------------------------
  for x in elements:
    p = x.parent()
    where = listed.get(id(x), [])
    if len(where) > 1:
      add("two-parents", x, "listed as a child of " + ", ".join(name_of(w) for w in where))
    if p is None:
      if where:
        add("links", x, f"parent() is None but listed as a child of {name_of(where[0])}")
      if x.previous_sibling() is not None or x.next_sibling() is not None:
        add("links", x, f"no parent but previous_sibling()={name_of(x.previous_sibling())} next_sibling()={name_of(x.next_sibling())}")
    else:
      if not any(w is p for w in where) and kids.get(id(p), ()) is not None:
        add("links", x, f"parent() is {name_of(p)} whose child list does not contain it")
      if x.get_doc() is not p.get_doc():
        add("doc-mix", x, f"belongs to {name_of(x.get_doc())} but its parent {name_of(p)} belongs to {name_of(p.get_doc())}")
    # bounded walk to the root
    seen = [x]
    cur = p
    steps = 0
    while cur is not None and steps <= limit:
      if any(cur is s for s in seen):
        add("cycle", x, "parent chain " + " -> ".join(name_of(s) for s in seen) + f" -> {name_of(cur)}")
        break
      seen.append(cur)
      cur = cur.parent()
      steps += 1
    else:
      if cur is not None:
        add("cycle", x, f"parent chain longer than {limit}")
    d = x.get_doc()
    if d is not None and not isinstance(d, m.ContentDocument):
      add("doc-mix", x, f"get_doc() is a {type(d).__name__}")

  # --- content model ----------------------------------------------------------------------------------------------
  for x in elements:
    cs = kids.get(id(x))
    if not cs:
      continue
    k = kind_of(x)
    ck = [kind_of(c) for c in cs]
    if not R.seq_ok(k, ck):
      add("content-model", x, f"{k} with children [{', '.join(ck)}]")

  # --- region references, stored values ---------------------------------------------------------------------------
  for x in elements:
    r = x.get_region()
    if r is not None:
      d = x.get_doc()
      if not isinstance(r, m.Region):
        add("region-ref", x, f"get_region() is {name_of(r)}, not a Region")
      elif d is None:
        add("region-ref", x, f"references region {name_of(r)} (id {r.get_id()!r}) but belongs to no document")
      else:
        reg = d.get_region(r.get_id())
        if reg is not r:
          add("region-ref", x, f"references {name_of(r)} (id {r.get_id()!r}, region of {name_of(r.get_doc())}) but "
              f"{name_of(d)}.get_region({r.get_id()!r}) is {name_of(reg)}")
    for prop in list(x.iter_styles()):
      _value_issue(add, "style-value", x, prop, x.get_style(prop))
      if not x.has_style(prop):
        add("links", x, f"iter_styles() yields {getattr(prop, '__name__', prop)!r} but has_style() is False")
    for step in list(x.iter_animation_steps()):
      if not isinstance(step, m.DiscreteAnimationStep):
        add("anim-value:?", x, f"animation step is a {type(step).__name__}: {step!r}"[:200])
      else:
        _value_issue(add, "anim-value", x, step.style_property, step.value)

  # --- documents --------------------------------------------------------------------------------------------------
  for d in docs:
    b = d.get_body()
    if b is not None:
      if not isinstance(b, m.Body):
        add("body-doc", d, f"get_body() is a {kind_of(b)}")
      elif b.parent() is not None:
        add("body-doc", d, f"get_body() {name_of(b)} has parent {name_of(b.parent())}")
      elif b.get_doc() is not d:
        add("body-doc", d, f"get_body() {name_of(b)} belongs to {name_of(b.get_doc())}")
    regs = list(d.iter_regions())
    ids = set()
    for r in regs:
      if not isinstance(r, m.Region):
        add("registry", d, f"iter_regions() yields {name_of(r)}, not a Region")
        continue
      rid = r.get_id()
      if rid in ids:
        add("registry", d, f"two regions registered with id {rid!r}")
      ids.add(rid)
      if d.get_region(rid) is not r or not d.has_region(rid):
        add("registry", d, f"iter_regions() yields {name_of(r)} (id {rid!r}) but get_region({rid!r}) is "
            f"{name_of(d.get_region(rid))}, has_region {d.has_region(rid)}")
    for prop, value in list(d.iter_initial_values()):
      _value_issue(add, "initial-value", d, prop, value)
      if d.get_initial_value(prop) is not value or not d.has_initial_value(prop):
        add("registry", d, f"iter_initial_values() and get/has_initial_value disagree for {getattr(prop, '__name__', prop)!r}")
  return issues


def _value_issue(add, inv, obj, prop, value):
  pname = R.prop_name(prop)
  if pname is None:
    add(inv + ":?", obj, f"key {prop!r} is not a style property")
    return
  if value is None:
    add(inv + ":" + pname, obj, f"{pname} stored with value None")
    return
  if R.value_ok(pname, value) is False:
    bad = ""
    if pname == "FontFamily" and isinstance(value, tuple):
      bad = "; offending items: " + ", ".join(repr(i) for i in value if not isinstance(i, str) and type(i).__name__ != "GenericFontFamilyType")
    add(inv + ":" + pname, obj, f"{pname} holds {value!r}, not a valid {pname} value{bad}"[:300])


# ------------------------------------------------------------------------------------------------------------------
# public-state fingerprint
# ------------------------------------------------------------------------------------------------------------------

def _step_repr(step, m):
  if isinstance(step, m.DiscreteAnimationStep):
    return (R.prop_name(step.style_property) or repr(step.style_property), repr(step.begin), repr(step.end), repr(step.value))
  return ("?raw", repr(step))


def snapshot(elements, docs, name_of, limit=None):
  """Plain-data public state of the whole universe (format: see vt.ref.model)."""
  m = _model()
  limit = limit if limit is not None else len(elements) + 2
  el = {}
  for x in elements:
    cs, ok = children_of(x, limit)
    children = [name_of(c) for c in cs]
    if not ok:
      children.append("...")
    el[name_of(x)] = {
      "kind": kind_of(x),
      "parent": name_of(x.parent()),
      "children": children,
      "doc": name_of(x.get_doc()),
      "region": name_of(x.get_region()),
      "styles": {(R.prop_name(p) or repr(p)): repr(x.get_style(p)) for p in x.iter_styles()},
      "anims": [_step_repr(s, m) for s in x.iter_animation_steps()],
      "begin": x.get_begin(), "end": x.get_end(), "id": x.get_id(), "lang": x.get_lang(), "space": x.get_space().name,
      "text": x.get_text() if isinstance(x, m.Text) else None,
      "links": (name_of(x.previous_sibling()), name_of(x.next_sibling()), name_of(x.first_child()), name_of(x.last_child())),
    }
  dd = {}
  for d in docs:
    dd[name_of(d)] = {
      "regions": {r.get_id() if hasattr(r, "get_id") else repr(r): name_of(r) for r in d.iter_regions()},
      "body": name_of(d.get_body()),
      "initials": {(R.prop_name(p) or repr(p)): repr(v) for p, v in d.iter_initial_values()},
      "misc": (d.get_lang(), repr(d.get_cell_resolution()), repr(d.get_px_resolution()), repr(d.get_active_area()),
               repr(d.get_display_aspect_ratio())),
    }
  return {"el": el, "doc": dd}


def freeze(s):
  """Hashable form of a snapshot."""
  return (
    tuple((n, e["parent"], tuple(e["children"]), e["doc"], e["region"], tuple(sorted(e["styles"].items())), tuple(e["anims"]),
           e["begin"], e["end"], e["id"], e["lang"], e["space"], e["text"], e["links"]) for n, e in s["el"].items()),
    tuple((n, tuple(sorted(d["regions"].items())), d["body"], tuple(sorted(d["initials"].items())), d["misc"])
          for n, d in s["doc"].items()),
  )


def diff(a, b, maxn=6):
  """Human-readable differences between two snapshots (all fields, incl. raw links)."""
  out = []
  for part in ("el", "doc"):
    for n, e in a[part].items():
      o = b[part].get(n)
      for fld, v in e.items():
        if o is None or o[fld] != v:
          out.append(f"{n}.{fld}: {v!r} -> {None if o is None else o[fld]!r}")
          if len(out) >= maxn:
            return out
  return out


# ------------------------------------------------------------------------------------------------------------------
# arbitrary documents
# ------------------------------------------------------------------------------------------------------------------

def check_document(doc, limit=1000000):
  """Walks one ContentDocument (body tree + regions), bounded, and returns the issues found."""
  elements = []
  seen = set()
  todo = []
  b = doc.get_body()
  if b is not None:
    todo.append(b)
  todo.extend(doc.iter_regions())
  while todo and len(elements) < limit:
    x = todo.pop()
    if id(x) in seen or not hasattr(x, "first_child"):
      continue
    seen.add(id(x))
    elements.append(x)
    cs, _ = children_of(x, limit)
    todo.extend(cs)
    r = x.get_region()
    if r is not None and id(r) not in seen:
      todo.append(r)
  index = {id(x): i for i, x in enumerate(elements)}

  def name_of(o):
    if o is None:
      return None
    if o is doc:
      return "doc"
    i = index.get(id(o))
    if i is not None:
      ident = o.get_id() if hasattr(o, "get_id") else None
      return f"{kind_of(o)}#{ident if ident is not None else i}"
    return f"?{type(o).__name__}@{id(o):x}"

  return check(elements, [doc], name_of, limit=limit)
