"""Shared machinery: import bootstrap, per-shard context, shard runner, merge, evidence,
known-findings plumbing and the three-valued verdict.  See DESIGN.md section 3."""
from __future__ import annotations

import array
import collections
import hashlib
import importlib
import json
import os
import subprocess
import sys
import time
import traceback
import typing
from concurrent.futures import ThreadPoolExecutor

HERE = os.path.dirname(os.path.dirname(os.path.abspath(__file__)))
REPO = os.environ.get("VT_REPO", "/repo")
SRC = os.path.join(REPO, "src/main/python")
DEPS = os.path.join(HERE, ".deps")
WORK = os.path.join(HERE, ".work")
# runs against a scratch copy of the repository (mutants, seeded changes: VT_REPO set) must not overwrite the evidence of /repo
_ALT = REPO != "/repo"
EVIDENCE_DIR = os.path.join(WORK, "evidence-alt") if _ALT else os.path.join(HERE, "evidence")
REPLAY_DIR = os.path.join(WORK, "replays-alt") if _ALT else os.path.join(HERE, "replays")
KNOWN_FILE = os.path.join(HERE, "known_findings.json")

EXIT_HELD, EXIT_VIOLATION, EXIT_INCONCLUSIVE = 0, 1, 2


def ensure_deps():
  from vt import setup as _setup
  if not _setup.have_deps():
    rc = _setup.install()
    if rc != 0:
      raise RuntimeError("cannot install offline dependencies into " + DEPS)


def bootstrap():
  """Makes `import ttconv` resolve to the working tree under REPO and adds .deps."""
  if SRC in sys.path:
    sys.path.remove(SRC)
  sys.path.insert(0, SRC)
  if DEPS not in sys.path:
    sys.path.insert(1, DEPS)
  import ttconv  # pylint: disable=import-outside-toplevel
  where = os.path.realpath(getattr(ttconv, "__file__", None) or list(ttconv.__path__)[0])
  if not where.startswith(os.path.realpath(SRC)):
    raise RuntimeError(f"ttconv imported from {where}, expected {SRC}")
  import logging  # pylint: disable=import-outside-toplevel
  logging.getLogger("ttconv").setLevel(logging.CRITICAL + 1)
  logging.getLogger("ttconv").propagate = False
  logging.getLogger("ttconv").addHandler(logging.NullHandler())


def h64(obj) -> int:
  """64-bit stable hash of a JSON-able / repr-able object."""
  if not isinstance(obj, (bytes, bytearray)):
    if not isinstance(obj, str):
      obj = json.dumps(obj, sort_keys=True, default=repr)
    obj = obj.encode("utf-8", "surrogatepass")
  return int.from_bytes(hashlib.blake2b(obj, digest_size=8).digest(), "big")


def mix_seed(*parts) -> int:
  return h64("/".join(str(p) for p in parts))


class Ctx:
  """Per-shard recording context handed to a property's run()."""

  MAX_STORED_PER_KEY = 5
  MAX_SAMPLES = 4

  def __init__(self, prop: str, tier: str, seed: int, shard: int, nshards: int, replay_mode: bool = False):
    self.prop, self.tier, self.seed, self.shard, self.nshards = prop, tier, seed, shard, nshards
    self.replay_mode = replay_mode
    self.evaluations = 0
    self.distinct_extra = 0            # cases distinct by construction (disjoint enumeration)
    self.nontrivial: typing.Set[int] = set()
    self.counters: collections.Counter = collections.Counter()
    self.violations: typing.List[dict] = []
    self.violation_counts: collections.Counter = collections.Counter()
    self.samples: typing.List[typing.Any] = []
    self.notes: typing.List[str] = []

  # --- recording -----------------------------------------------------------------------
  def ev(self, n: int = 1):
    self.evaluations += n

  def count(self, key: str, n: int = 1):
    self.counters[key] += n

  def nontriv(self, obj):
    self.nontrivial.add(obj if isinstance(obj, int) else h64(obj))

  def sample(self, obj):
    if len(self.samples) < self.MAX_SAMPLES:
      self.samples.append(obj)

  def violation(self, mech: str, what: str, replay: dict, finding: typing.Optional[str] = None):
    """Records a violation. `mech` is a short mechanism key used for de-duplication;
    `finding` is the id of a known finding iff the property's classifier attributed it."""
    key = finding or mech
    self.violation_counts[key] += 1
    if self.violation_counts[key] <= self.MAX_STORED_PER_KEY:
      self.violations.append({"mech": mech, "finding": finding, "what": what[:2000], "replay": replay})

  def rng(self, *parts):
    import random  # pylint: disable=import-outside-toplevel
    return random.Random(mix_seed(self.prop, self.seed, *parts))

  # --- serialisation -------------------------------------------------------------------
  def dump(self, path: str):
    arr = array.array("Q", sorted(self.nontrivial))
    with open(path + ".nt", "wb") as f:
      arr.tofile(f)
    with open(path, "w", encoding="utf-8") as f:
      json.dump({
        "evaluations": self.evaluations, "distinct_extra": self.distinct_extra,
        "counters": dict(self.counters), "violations": self.violations,
        "violation_counts": dict(self.violation_counts), "samples": self.samples, "notes": self.notes,
      }, f, default=repr)


def load_prop(prop: str):
  return importlib.import_module("vt.props." + prop.lower())


def load_known() -> dict:
  if os.path.exists(KNOWN_FILE):
    with open(KNOWN_FILE, encoding="utf-8") as f:
      return json.load(f)
  return {"known": [], "fixed": []}


def _run_one_shard(prop, tier, seed, idx, n, params, timeout):
  os.makedirs(WORK, exist_ok=True)
  out = os.path.join(WORK, f"{prop}-{tier}-{seed}-{os.getpid()}-{idx}.json")
  for p in (out, out + ".nt"):
    if os.path.exists(p):
      os.remove(p)
  env = dict(os.environ)
  env.setdefault("PYTHONHASHSEED", "0")
  env["PYTHONDONTWRITEBYTECODE"] = "1"
  env["PYTHONPATH"] = HERE
  cmd = [sys.executable, "-B", "-X", "faulthandler", "-m", "vt.shard", prop, tier, str(seed), str(idx), str(n),
         json.dumps(params), out]
  t0 = time.time()
  try:
    r = subprocess.run(cmd, cwd=HERE, env=env, timeout=timeout, stdout=subprocess.PIPE, stderr=subprocess.STDOUT,
                       text=True, errors="replace", check=False)
    status, output = ("ok" if r.returncode == 0 else f"exit{r.returncode}"), r.stdout
  except subprocess.TimeoutExpired as e:
    status, output = "timeout", (e.stdout.decode("utf-8", "replace") if isinstance(e.stdout, bytes) else (e.stdout or ""))
  res = {"idx": idx, "status": status, "output": output[-4000:], "wall": time.time() - t0, "path": out}
  return res


def run_check(prop: str, tier: str, seed: int) -> int:
  """Runs all shards of a property's tier, merges, writes evidence, prints the verdict."""
  t0 = time.time()
  ensure_deps()
  mod = load_prop(prop)
  shards = mod.plan(tier, seed)
  n = len(shards)
  timeout = getattr(mod, "SHARD_TIMEOUT", {"quick": 900, "thorough": 7200})[tier]
  workers = min(int(os.environ.get("VT_JOBS", os.cpu_count() or 4)), n)
  with ThreadPoolExecutor(max_workers=workers) as ex:
    results = list(ex.map(lambda a: _run_one_shard(prop, tier, seed, a[0], n, a[1], timeout), enumerate(shards)))

  evaluations = 0
  distinct_extra = 0
  nontrivial: typing.Set[int] = set()
  counters: collections.Counter = collections.Counter()
  vcounts: collections.Counter = collections.Counter()
  violations: typing.List[dict] = []
  samples: typing.List[typing.Any] = []
  notes: typing.List[str] = []
  broken: typing.List[str] = []
  for res in results:
    path = res["path"]
    if res["status"] != "ok" or not os.path.exists(path):
      broken.append(f"shard {res['idx']}: {res['status']}: {res['output'][-600:]!r}")
    if os.path.exists(path):
      with open(path, encoding="utf-8") as f:
        d = json.load(f)
      evaluations += d["evaluations"]
      distinct_extra += d["distinct_extra"]
      counters.update(d["counters"])
      vcounts.update(d["violation_counts"])
      violations.extend(d["violations"])
      notes.extend(d["notes"])
      if len(samples) < 5:
        samples.extend(d["samples"][: 5 - len(samples)])
      arr = array.array("Q")
      with open(path + ".nt", "rb") as f:
        arr.frombytes(f.read())
      nontrivial.update(arr)
      os.remove(path)
      os.remove(path + ".nt")

  known = {k["id"]: k for k in load_known().get("known", []) if prop in k.get("properties", [k.get("property")])}
  known_hits: typing.Dict[str, dict] = {}
  unlisted: typing.Dict[str, dict] = {}
  for v in violations:
    if v["finding"] is not None and v["finding"] in known:
      known_hits.setdefault(v["finding"], v)
    else:
      unlisted.setdefault(v["finding"] or v["mech"], v)

  # required coverage
  required = mod.required(tier) if hasattr(mod, "required") else getattr(mod, "REQUIRED", [])
  missing = [k for k in required if counters.get(k, 0) == 0]

  distinct = len(nontrivial) + distinct_extra
  coverage = {
    "evaluations": evaluations,
    "distinct_nontrivial": distinct,
    "rule": getattr(mod, "RULE", ""),
    "samples": samples if samples else ["(no sample recorded)"],
    "counters": dict(sorted(counters.items())),
    "shards": n,
    "required_classes": required,
    "missing_classes": missing,
    "known_finding_hits": {k: vcounts.get(k, 0) for k in known_hits},
    "notes": notes[:20],
  }
  if hasattr(mod, "finalize"):
    coverage.update(mod.finalize(tier, counters) or {})
  n_unlisted = sum(c for k, c in vcounts.items() if k not in known_hits)
  evidence = {
    "property_id": prop, "tier": tier, "seed": seed, "level": "exploration",
    "coverage": coverage, "assumptions": list(getattr(mod, "ASSUMPTIONS", [])),
    "wall_s": round(time.time() - t0, 2), "violations": n_unlisted,
  }
  os.makedirs(EVIDENCE_DIR, exist_ok=True)
  write_evidence(prop, evidence)

  for fid, v in sorted(known_hits.items()):
    print(f"KNOWN-FINDING: property={prop} {fid} {v['what'][:300]!s} (x{vcounts.get(fid, 0)})".replace("\n", " "))

  rc = EXIT_HELD
  if unlisted:
    rc = EXIT_VIOLATION
    for key, v in sorted(unlisted.items()):
      path = write_replay(prop, v)
      print(f"# {key} (x{vcounts.get(key, 0)}): {v['what'][:600]}".replace("\n", " "))
      print(f"VIOLATION property={prop} replay={path}")
  elif broken or missing or evaluations == 0 or distinct < 2:
    rc = EXIT_INCONCLUSIVE
    reason = "; ".join(broken[:3]) if broken else (f"coverage classes never observed: {missing}" if missing else "nothing evaluated")
    print(f"INCONCLUSIVE property={prop} reason={reason}")
  print(f"{prop} {tier} seed={seed}: evaluations={evaluations} distinct_nontrivial={distinct} "
        f"unlisted_violations={n_unlisted} known={sorted(known_hits)} wall={time.time() - t0:.1f}s -> "
        f"{['HELD', 'VIOLATION', 'INCONCLUSIVE'][rc]}")
  return rc


def write_replay(prop: str, v: dict) -> str:
  d = os.path.join(REPLAY_DIR, prop)
  os.makedirs(d, exist_ok=True)
  body = json.dumps({"property": prop, **v}, indent=1, sort_keys=True, default=repr)
  path = os.path.join(d, hashlib.sha1(body.encode()).hexdigest()[:12] + ".json")
  with open(path, "w", encoding="utf-8") as f:
    f.write(body)
  return path


def write_evidence(prop: str, evidence: dict):
  path = os.path.join(EVIDENCE_DIR, prop + ".json")
  try:
    if DEPS not in sys.path:
      sys.path.insert(1, DEPS)
    import jsonschema  # pylint: disable=import-outside-toplevel
    schema_path = "/root/.vp/EVIDENCE.schema.json"
    local = os.path.join(HERE, "vt", "EVIDENCE.schema.json")
    with open(schema_path if os.path.exists(schema_path) else local, encoding="utf-8") as f:
      schema = json.load(f)
    try:
      jsonschema.validate(evidence, schema)
    except jsonschema.ValidationError as e:
      print(f"# evidence for {prop} does not validate: {e.message}")
  except ImportError:
    pass
  with open(path, "w", encoding="utf-8") as f:
    json.dump(evidence, f, indent=1, default=repr)


def run_replay(prop: str, path: str) -> int:
  ensure_deps()
  bootstrap()
  mod = load_prop(prop)
  with open(path, encoding="utf-8") as f:
    v = json.load(f)
  ctx = Ctx(prop, "quick", 0, 0, 1, replay_mode=True)
  try:
    mod.replay(ctx, v["replay"])
  except Exception:  # pylint: disable=broad-except
    traceback.print_exc()
    print(f"INCONCLUSIVE property={prop} reason=replay raised")
    return EXIT_INCONCLUSIVE
  if ctx.violations:
    for x in ctx.violations:
      print(f"# {x['mech']}: {x['what']}")
    print(f"VIOLATION property={prop} replay={path}")
    return EXIT_VIOLATION
  print(f"{prop} replay {path}: no violation reproduced")
  return EXIT_HELD
