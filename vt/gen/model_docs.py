"""Seeded generator of canonical-model documents as AbsDoc (pure data; built into live ttconv objects by
vt.ref.build.build_doc).  Small value pools so that boundary coincidences are frequent.  See DESIGN.md 3.1."""
from __future__ import annotations

import random
from fractions import Fraction as Fr

from vt.ref.absdoc import AbsDoc, AbsEl, L, dmake

E = lambda cls, name: ("E", cls, name)  # noqa: E731
C = lambda *c: ("C", tuple(c))  # noqa: E731

TIME_GRID = [Fr(0), Fr(1, 3), Fr(1, 2), Fr(1), Fr(3, 2), Fr(2), Fr(5, 2), Fr(3), Fr(4), Fr(5), Fr(13, 2), Fr(8),
             Fr(1001, 30000) * 30, Fr(1001, 30000) * 45, Fr(7, 25), Fr(51, 25), Fr(1, 1000) + Fr(1, 3000),
             Fr(2) + Fr(1, 3000), Fr(2) + Fr(1, 4000)]

COLORS = [C(255, 255, 255, 255), C(0, 0, 0, 255), C(255, 0, 0, 255), C(0, 255, 0, 255), C(0, 0, 255, 255), C(255, 255, 0, 255),
          C(0, 0, 0, 0), C(255, 255, 255, 0), C(12, 34, 56, 128), C(0, 0, 0, 136)]
NUMS = [0, 1, 2, 5, 10, 12.5, 0.5, 0.1, 33.3, 80, 100, 150, 1e-3]
SMALL = [0, 0.5, 1, 1.5, 2, 0.1, 10, 25]


def length(rng, units, nums=None, neg=False):
  v = rng.choice(nums or NUMS)
  if neg and rng.random() < 0.3:
    v = -v
  return L(v, rng.choice(units))


def _shadow(rng):
  return dmake("Shadow", x_offset=length(rng, ["em", "%", "c", "px", "rh"], SMALL, neg=True),
               y_offset=length(rng, ["em", "%", "c", "px", "rh"], SMALL, neg=True),
               blur_radius=rng.choice([None, None, length(rng, ["em", "%", "c", "px", "rh"], SMALL)]),
               color=rng.choice([None, rng.choice(COLORS)]))


def style_value(rng, prop):
  """A random valid plain value of the named style property."""
  r = rng.random
  if prop in ("BackgroundColor", "Color"):
    return rng.choice(COLORS)
  if prop == "Direction":
    return E("DirectionType", rng.choice(["ltr", "rtl"]))
  if prop == "Disparity":
    return length(rng, ["%", "px", "c", "rw", "em"], SMALL, neg=True)
  if prop == "Display":
    return E("DisplayType", "none" if r() < 0.6 else "auto")
  if prop == "DisplayAlign":
    return E("DisplayAlignType", rng.choice(["before", "center", "after"]))
  if prop == "Extent":
    return dmake("ExtentType", height=length(rng, ["%", "px", "c", "rh"], [10, 20, 50, 80, 100, 5, 33.3, 7]),
                 width=length(rng, ["%", "px", "c", "rw"], [10, 20, 50, 80, 100, 5, 33.3, 16]))
  if prop == "FillLineGap":
    return r() < 0.5
  if prop == "FontFamily":
    pool = [E("GenericFontFamilyType", n) for n in ("default", "monospace", "sansSerif", "serif", "monospaceSansSerif",
                                                    "monospaceSerif", "proportionalSansSerif", "proportionalSerif")]
    pool += ["Arial", "Times New Roman", "a,b", "it's", 'q"uote', "Noto Sans JP"]
    # named fonts spelled like a generic family keyword (strings, not the generic families), and a backslash
    pool += ["serif", "default", "monospace", "sansSerif", "back\\slash", "end\\"]
    return ("T", tuple(rng.choice(pool) for _ in range(rng.choice([1, 1, 2, 3]))))
  if prop == "FontSize":
    return length(rng, ["em", "%", "c", "px", "rh"], [0.5, 1, 1.5, 2, 50, 80, 100, 120, 5, 36])
  if prop == "FontStyle":
    return E("FontStyleType", rng.choice(["normal", "italic", "oblique"]))
  if prop == "FontWeight":
    return E("FontWeightType", rng.choice(["normal", "bold"]))
  if prop == "LineHeight":
    return E("SpecialValues", "normal") if r() < 0.3 else length(rng, ["em", "%", "c", "px", "rh"], [1, 1.25, 125, 100, 2, 6, 40])
  if prop == "LinePadding":
    return length(rng, ["c"], [0, 0, 0.5, 1, 0.25])
  if prop in ("LuminanceGain", "Opacity"):
    return rng.choice([0, 0.0, 0.5, 1, 1.0, 0.25]) if prop == "Opacity" else rng.choice([1.0, 0.5, 2, 1.2])
  if prop == "MultiRowAlign":
    return E("MultiRowAlignType", rng.choice(["start", "center", "end", "auto"]))
  if prop == "Origin":
    return dmake("CoordinateType", x=length(rng, ["%", "px", "c", "rw"], [0, 5, 10, 20, 50, 12.5, 3]),
                 y=length(rng, ["%", "px", "c", "rh"], [0, 5, 10, 20, 50, 12.5, 3]))
  if prop == "Overflow":
    return E("OverflowType", rng.choice(["visible", "hidden"]))
  if prop == "Padding":
    u = ["%", "em", "c", "px", "rh", "rw"]
    return dmake("PaddingType", before=length(rng, u, SMALL), end=length(rng, u, SMALL), after=length(rng, u, SMALL), start=length(rng, u, SMALL))
  if prop == "Position":
    return dmake("PositionType", h_offset=length(rng, ["%", "px", "c", "rw"], [0, 5, 10, 20, 50, 100, 12.5]),
                 v_offset=length(rng, ["%", "px", "c", "rh"], [0, 5, 10, 20, 50, 100, 12.5]),
                 h_edge=E("HEdge", rng.choice(["left", "right"])), v_edge=E("VEdge", rng.choice(["top", "bottom"])))
  if prop == "RubyAlign":
    return E("RubyAlignType", rng.choice(["center", "spaceAround"]))
  if prop == "RubyPosition":
    return E("AnnotationPositionType", rng.choice(["before", "after", "outside"]))
  if prop == "RubyReserve":
    if r() < 0.25:
      return E("SpecialValues", "none")
    return dmake("RubyReserveType", position=E("Position", rng.choice(["both", "before", "after", "outside"])),
                 length=rng.choice([None, length(rng, ["em", "%", "c", "px"], SMALL)]))
  if prop == "Shear":
    return rng.choice([0.0, 16.6667, -16.6667, 5, 100])
  if prop == "ShowBackground":
    return E("ShowBackgroundType", rng.choice(["always", "whenActive"]))
  if prop == "TextAlign":
    return E("TextAlignType", rng.choice(["center", "start", "end"]))
  if prop == "TextCombine":
    return E("TextCombineType", rng.choice(["none", "all"]))
  if prop == "TextDecoration":
    tri = lambda: rng.choice([None, True, False])  # noqa: E731
    return dmake("TextDecorationType", underline=tri(), line_through=tri(), overline=tri())
  if prop == "TextEmphasis":
    if r() < 0.25:
      return E("SpecialValues", "none")
    return dmake("TextEmphasisType", style=E("Style", rng.choice(["auto", "filled_circle", "filled_dot", "filled_sesame", "open_circle", "open_dot", "open_sesame"])),
                 color=rng.choice([None, rng.choice(COLORS)]), position=E("Position", rng.choice(["outside", "before", "after"])))
  if prop == "TextOutline":
    if r() < 0.25:
      return E("SpecialValues", "none")
    return dmake("TextOutlineType", thickness=length(rng, ["em", "%", "c", "px", "rh"], SMALL), color=rng.choice([None, rng.choice(COLORS)]))
  if prop == "TextShadow":
    if r() < 0.25:
      return E("SpecialValues", "none")
    return dmake("TextShadowType", shadows=("T", tuple(_shadow(rng) for _ in range(rng.choice([1, 1, 2, 3])))))
  if prop == "UnicodeBidi":
    return E("UnicodeBidiType", rng.choice(["normal", "embed", "bidiOverride"]))
  if prop == "Visibility":
    return E("VisibilityType", rng.choice(["visible", "hidden"]))
  if prop == "WrapOption":
    return E("WrapOptionType", rng.choice(["wrap", "noWrap"]))
  if prop == "WritingMode":
    return E("WritingModeType", rng.choice(["lrtb", "rltb", "tbrl", "tblr"]))
  raise KeyError(prop)


ALL_PROPS = ["BackgroundColor", "Color", "Direction", "Disparity", "Display", "DisplayAlign", "Extent", "FillLineGap", "FontFamily",
             "FontSize", "FontStyle", "FontWeight", "LineHeight", "LinePadding", "LuminanceGain", "MultiRowAlign", "Opacity", "Origin",
             "Overflow", "Padding", "Position", "RubyAlign", "RubyPosition", "RubyReserve", "Shear", "ShowBackground", "TextAlign",
             "TextCombine", "TextDecoration", "TextEmphasis", "TextOutline", "TextShadow", "UnicodeBidi", "Visibility", "WrapOption",
             "WritingMode"]

PROFILES = {
  # p_style: chance per element of carrying random styles; n_style: how many; p_anim; p_time; p_region_ref; ...
  "isd": dict(p_style=0.25, n_style=2, p_anim=0.25, p_time=0.6, p_region_ref=0.35, p_display=0.12, regions=[0, 1, 2, 2, 3, 4],
              p_initial=0.2, p_ruby=0.2, p_ws=0.3, p_preserve=0.15, p_region_time=0.4, focus=None),
  "style": dict(p_style=0.8, n_style=4, p_anim=0.3, p_time=0.25, p_region_ref=0.2, p_display=0.03, regions=[0, 1, 1, 2, 3],
                p_initial=0.5, p_ruby=0.3, p_ws=0.1, p_preserve=0.1, p_region_time=0.15, focus=None),
  "text": dict(p_style=0.3, n_style=2, p_anim=0.1, p_time=0.6, p_region_ref=0.5, p_display=0.05, regions=[0, 1, 2, 3],
               p_initial=0.1, p_ruby=0.25, p_ws=0.5, p_preserve=0.25, p_region_time=0.3, focus=None),
}


class Gen:
  def __init__(self, rng: random.Random, profile="isd", focus=None, **over):
    self.rng = rng
    self.p = dict(PROFILES[profile])
    self.p.update(over)
    self.focus = focus      # optional property name to put on many elements (C03 round-robin)
    self.n = 0
    self.tok = 0
    self.classes = set()
    self.region_ids = []

  # -- helpers -------------------------------------------------------------------------------------
  def eid(self):
    self.n += 1
    return f"e{self.n}"

  def time(self, p_none=0.0):
    if self.rng.random() < p_none:
      return None
    return self.rng.choice(TIME_GRID)

  def lang(self, a: AbsEl):
    if self.p.get("p_lang", 0) and self.rng.random() < self.p["p_lang"]:
      a.lang = self.rng.choice(["en", "fr", "ja", "de-CH", ""])
      self.classes.add("element-lang")

  def timing(self, a: AbsEl, p=None):
    self.lang(a)
    p = self.p["p_time"] if p is None else p
    if self.rng.random() < p:
      if self.rng.random() < 0.8:
        a.begin = self.time()
      if self.rng.random() < 0.8:
        a.end = self.time()
        if a.begin is not None and a.end <= a.begin and self.rng.random() < 0.8:
          a.end = a.begin + self.rng.choice([Fr(1, 2), Fr(1), Fr(3), Fr(1, 3000), Fr(1001, 30000)])

  def styles(self, a: AbsEl, extra=()):
    rng = self.rng
    if rng.random() < self.p["p_style"]:
      for _ in range(rng.randint(1, self.p["n_style"])):
        prop = rng.choice(ALL_PROPS)
        if prop == "Display" and rng.random() > self.p["p_display"] * 4:
          continue
        a.styles[prop] = style_value(rng, prop)
    for prop in extra:
      a.styles[prop] = style_value(rng, prop)
    if self.focus is not None and rng.random() < 0.5:
      a.styles[self.focus] = style_value(rng, self.focus)
    if rng.random() < self.p["p_display"]:
      a.styles["Display"] = E("DisplayType", "none")
      self.classes.add("display-none-specified")
    if rng.random() < self.p["p_anim"]:
      for _ in range(rng.randint(1, 3)):
        prop = rng.choice(ALL_PROPS) if rng.random() < 0.7 else rng.choice(["Display", "Color", "BackgroundColor", "Visibility", "Opacity"])
        if self.focus is not None and rng.random() < 0.5:
          prop = self.focus
        b, e = self.time(0.3), self.time(0.3)
        if b is not None and e is not None and e <= b and rng.random() < 0.8:
          e = b + rng.choice([Fr(1, 2), Fr(1), Fr(2)])
        a.anims.append((prop, b, e, style_value(rng, prop)))
        if prop == "Display":
          self.classes.add("display-animated")
        if a.begin not in (None, 0):
          self.classes.add("anim-on-offset-element")
    if a.kind != "Region" and rng.random() < self.p["p_anim"] * 0.25:
      # later steps override earlier ones: a step that restates the specified value, inside the interval of an earlier step with
      # another value, changes the presentation at both of its ends
      prop = rng.choice(["Color", "BackgroundColor", "Opacity", "Visibility", "FontStyle"])
      v0, v1 = style_value(rng, prop), style_value(rng, prop)
      if v0 != v1:
        a.styles[prop] = v0
        a.anims = [x for x in a.anims if x[0] != prop]
        a.anims.append((prop, Fr(1), Fr(8), v1))
        a.anims.append((prop, Fr(3), Fr(5), v0))
        self.classes.add("overlapping-steps-restating-specified")
    if a.kind != "Region" and rng.random() < self.p["p_anim"] * 0.2:
      # the same for display: hidden by a first step, shown again by a later step inside it (the element is present
      # exactly while the later step is active or no step is)
      a.styles.pop("Display", None)
      a.anims = [x for x in a.anims if x[0] != "Display"]
      b = rng.choice([Fr(0), Fr(1), Fr(2)])
      a.anims.append(("Display", b, b + Fr(7), E("DisplayType", "none")))
      a.anims.append(("Display", b + Fr(2), b + Fr(4), E("DisplayType", "auto")))
      self.classes.add("overlapping-display-steps")
    if a.kind == "Region" and rng.random() < 0.08:
      wm = rng.choice(["lrtb", "rltb"])
      a.styles["WritingMode"] = E("WritingModeType", wm)
      a.styles.pop("Direction", None)
      a.anims = [x for x in a.anims if x[0] not in ("Direction", "WritingMode")]
      b = rng.choice(TIME_GRID)
      a.anims.append(("Direction", b, b + rng.choice([Fr(1), Fr(2), Fr(5)]), E("DirectionType", "rtl" if wm == "lrtb" else "ltr")))
      self.classes.add("region-direction-animated-against-writing-mode")

  def region_ref(self, a: AbsEl, p=None):
    p = self.p["p_region_ref"] if p is None else p
    if self.region_ids and self.rng.random() < p:
      a.region_id = self.rng.choice(self.region_ids)

  def text(self):
    rng = self.rng
    n = rng.choice([1, 1, 2, 3])
    toks = []
    for _ in range(n):
      self.tok += 1
      toks.append(f"k{self.tok}")
      if self.p.get("p_markup", 0) and rng.random() < self.p["p_markup"]:
        special = rng.choice(["&", "<", ">", "R&D", "1<2", "x>y", "&amp;", "<c>", "&lt;", "a<z>c"] + (["-->", "a-->b"] if self.p.get("arrow") else []))
        toks[-1] += special
        self.classes.add("markup-chars")
        if "-->" in special:
          self.classes.add("arrow-in-text")
    if self.p.get("p_uspace", 0) and rng.random() < self.p["p_uspace"]:
      # Unicode spaces that are NOT XML white space (never collapsed, never a reason to drop an adjacent XML space)
      u = rng.choice(["\u00a0", "\u3000", "\u2003", "\u2009"])
      k = rng.randrange(len(toks))
      toks[k] = (u + toks[k]) if rng.random() < 0.3 else (toks[k] + u)
      self.classes.add("unicode-space")
      if rng.random() < 0.6:
        # the text ends with the Unicode space and the next text node starts with an XML space (which must survive)
        toks[-1] = toks[-1].rstrip(u) + u
        self._lead_space = 2
    if rng.random() < self.p["p_ws"]:
      seps = [" ", "  ", "\t", "\n", " \n ", "   "]
      s = rng.choice(["", " ", "\n", "  "]) + rng.choice(seps).join(toks) + rng.choice(["", " ", "\n ", "  "])
      self.classes.add("ws-varied")
    else:
      s = " ".join(toks)
    arrow = getattr(self, "_lead_arrow", 0)
    if arrow == 1:
      # second half of a "-->" that straddles two text nodes
      self._lead_arrow = 0
      return AbsEl("Text", text=rng.choice([">", "->"]) + s.lstrip(" \t\n"))
    if self.p.get("arrow") and rng.random() < 0.12:
      self._lead_arrow = 1
      self.classes.add("arrow-across-text-nodes")
      self.classes.add("arrow-in-text")
      return AbsEl("Text", text=s.rstrip(" \t\n") + "--")
    lead = getattr(self, "_lead_space", 0)
    if lead == 2:
      s = s.rstrip(" \t\n")
      self._lead_space = 1
      return AbsEl("Text", text=s)
    if lead == 1:
      s = " " + s.lstrip(" \t\n")
      self._lead_space = 0
      return AbsEl("Text", text=s)
    if rng.random() < 0.04:
      s = rng.choice(["", " ", "\n"])
      self.classes.add("blank-text")
    return AbsEl("Text", text=s)

  # -- content --------------------------------------------------------------------------------------
  def span(self, depth=0, timed=True):
    a = AbsEl("Span", id=self.eid())
    if timed:
      self.timing(a, self.p["p_time"] * 0.6)
    self.styles(a)
    self.region_ref(a, self.p["p_region_ref"] * 0.3)
    if self.rng.random() < self.p["p_preserve"]:
      a.space = "preserve"
      self.classes.add("preserve-space")
    n = self.rng.choice([1, 1, 1, 2, 3])
    for _ in range(n):
      x = self.rng.random()
      if x < 0.62 or depth >= 2:
        a.children.append(self.text())
      elif x < 0.8:
        a.children.append(self.span(depth + 1))
      else:
        a.children.append(self.br())
    return a

  def br(self):
    a = AbsEl("Br", id=self.eid())
    if self.rng.random() < self.p["p_style"] * 0.3:
      a.styles["Color"] = style_value(self.rng, "Color")
    if self.rng.random() < self.p["p_style"] * 0.4:
      # any style attribute is allowed on br (length-valued ones need the inherited font size / extent to be computed)
      for _ in range(self.rng.choice([1, 1, 2])):
        prop = self.rng.choice([q for q in ALL_PROPS if q != "Display"])
        a.styles[prop] = style_value(self.rng, prop)
      self.classes.add("styled-br")
    if self.rng.random() < self.p["p_anim"] * 0.5:
      # a br has no timing of its own but may carry animation steps (a <set> child in TTML)
      prop = self.rng.choice(["Display", "Display", "Color", "Visibility"])
      b, e = self.time(0.3), self.time(0.3)
      if b is not None and e is not None and e <= b:
        e = b + self.rng.choice([Fr(1, 2), Fr(1), Fr(2)])
      a.anims.append((prop, b, e, style_value(self.rng, prop) if prop != "Display" else E("DisplayType", "none")))
      self.classes.add("animated-br")
    return a

  def ruby_leaf(self, kind):
    a = AbsEl(kind, id=self.eid())
    self.timing(a, self.p["p_time"] * 0.5)
    self.styles(a)
    for _ in range(self.rng.choice([0, 1, 1, 2])):
      a.children.append(self.span(2))
    return a

  def ruby(self):
    rng = self.rng
    self.classes.add("ruby")
    a = AbsEl("Ruby", id=self.eid())
    self.timing(a, self.p["p_time"] * 0.4)
    self.styles(a)
    pat = rng.choice(["bt", "bptp", "cc", "ccc"])
    if pat == "bt":
      a.children = [self.ruby_leaf("Rb"), self.ruby_leaf("Rt")]
    elif pat == "bptp":
      a.children = [self.ruby_leaf("Rb"), self.ruby_leaf("Rp"), self.ruby_leaf("Rt"), self.ruby_leaf("Rp")]
    else:
      rbc = AbsEl("Rbc", id=self.eid())
      self.styles(rbc)
      self.timing(rbc, self.p["p_time"] * 0.3)
      rbc.children = [self.ruby_leaf("Rb") for _ in range(rng.choice([0, 1, 2]))]
      a.children = [rbc]
      for _ in range(1 if pat == "cc" else 2):
        rtc = AbsEl("Rtc", id=self.eid())
        self.styles(rtc)
        self.timing(rtc, self.p["p_time"] * 0.3)
        rts = [self.ruby_leaf("Rt") for _ in range(rng.choice([0, 1, 2]))]
        if rng.random() < 0.3 and rts:
          rts = [self.ruby_leaf("Rp")] + rts + [self.ruby_leaf("Rp")]
        rtc.children = rts
        a.children.append(rtc)
    return a

  def para(self):
    rng = self.rng
    a = AbsEl("P", id=self.eid())
    self.timing(a)
    self.styles(a)
    self.region_ref(a)
    if rng.random() < self.p["p_preserve"] * 0.5:
      a.space = "preserve"
    for _ in range(rng.choice([1, 1, 2, 3, 4])):
      x = rng.random()
      if x < 0.7:
        a.children.append(self.span())
      elif x < 0.7 + self.p["p_ruby"]:
        a.children.append(self.ruby())
      else:
        a.children.append(self.br())
    if rng.random() < 0.08:
      # the paragraph is active longer than all of its spans, and a br is its direct child: while only the br is active the
      # paragraph (and its background) is still presented
      a.begin, a.end = Fr(1), Fr(10)
      a.styles.pop("Display", None)
      a.anims = [x for x in a.anims if x[0] != "Display"]
      a.styles["BackgroundColor"] = ("C", (255, 0, 0, 255))
      s1, s2 = self.span(timed=False), self.span(timed=False)
      s1.begin, s1.end, s2.begin, s2.end = Fr(1), Fr(2), Fr(4), Fr(5)
      a.children = [s1, AbsEl("Br", id=self.eid()), s2]
      self.classes.add("p-outlives-spans-with-br")
    elif rng.random() < 0.08:
      # pretty-printed paragraph that is active longer than its spans: between and around the spans only inter-element white
      # space (anonymous spans that collapse to nothing): while no span is active the paragraph has no content and is pruned,
      # and with it a whenActive region
      a.begin, a.end = Fr(1), Fr(10)
      a.space = None
      a.styles.pop("Display", None)
      a.anims = [x for x in a.anims if x[0] != "Display"]
      s1, s2 = self.span(timed=False), self.span(timed=False)
      s1.begin, s1.end, s2.begin, s2.end = Fr(1), Fr(2), Fr(4), Fr(5)
      for sp in (s1, s2):
        sp.space = None

      def ws():
        w = AbsEl("Span", id=self.eid())
        w.children = [AbsEl("Text", text=rng.choice(["\n    ", " ", "\n", "\t\n  "]))]
        return w
      a.children = [ws(), s1, ws(), s2, ws()]
      self.classes.add("p-outlives-spans-white-space-only")
    elif rng.random() < 0.06:
      # specified display none, shown by an animation step while timed descendants come and go: their begins and ends are
      # changes of the presentation (significant times) although the paragraph is "not displayed" by specification
      a.begin, a.end = None, None
      a.styles["Display"] = E("DisplayType", "none")
      a.anims = [x for x in a.anims if x[0] != "Display"]
      a.anims.append(("Display", Fr(1), Fr(9), E("DisplayType", "auto")))
      s1, s2 = self.span(timed=False), self.span(timed=False)
      s1.begin, s1.end, s2.begin, s2.end = Fr(2), Fr(3), Fr(4), Fr(6)
      for sp in (s1, s2):
        sp.styles.pop("Display", None)
        sp.anims = [x for x in sp.anims if x[0] != "Display"]
      a.children = [s1, s2]
      self.classes.add("display-none-animated-to-auto-with-timed-children")
    elif rng.random() < 0.06:
      # an empty text node under xml:space=preserve at an edge of the paragraph, next to default-space text that begins / ends
      # with white space: the empty node is no character, the neighbour is still the first / last text of the paragraph
      a.space = None
      e = AbsEl("Span", id=self.eid())
      e.space = "preserve"
      e.children = [AbsEl("Text", text="")]
      t = AbsEl("Span", id=self.eid())
      self.tok += 2
      t.children = [AbsEl("Text", text=f"  k{self.tok - 1}   k{self.tok} \n")]
      a.children = [e, t] if rng.random() < 0.5 else [t, e]
      if rng.random() < 0.4:
        e2 = AbsEl("Span", id=self.eid())
        e2.space = "preserve"
        e2.children = [AbsEl("Text", text="")]
        a.children = [e, t, e2]
      self.classes.add("empty-preserved-text-at-paragraph-edge")
    return a

  def div(self, depth=0):
    rng = self.rng
    a = AbsEl("Div", id=self.eid())
    self.timing(a)
    self.styles(a)
    self.region_ref(a)
    for _ in range(rng.choice([0, 1, 1, 2, 3])):
      if depth < 2 and rng.random() < 0.25:
        a.children.append(self.div(depth + 1))
      else:
        a.children.append(self.para())
    return a

  def region(self, i):
    rng = self.rng
    a = AbsEl("Region", id=f"r{i}")
    self.timing(a, self.p["p_region_time"])
    if a.begin is not None or a.end is not None:
      self.classes.add("timed-region")
    extra = []
    if rng.random() < 0.5:
      extra += ["Extent"]
    if rng.random() < 0.4:
      extra += ["Origin"]
    if rng.random() < 0.3:
      extra += ["Position"]
    if rng.random() < 0.3:
      extra += ["WritingMode"]
    if rng.random() < 0.4:
      extra += ["ShowBackground"]
    if rng.random() < 0.4:
      extra += ["BackgroundColor"]
    if rng.random() < 0.2:
      extra += ["Padding"]
    self.styles(a, extra)
    if rng.random() < 0.12:
      # a background that is painted only while an animation step switches showBackground to always (outside any content)
      a.styles["ShowBackground"] = E("ShowBackgroundType", "whenActive")
      a.styles["BackgroundColor"] = ("C", rng.choice([(255, 0, 0, 255), (0, 0, 255, 255), (0, 0, 0, 136)]))
      a.styles.pop("Display", None); a.styles.pop("Opacity", None); a.styles.pop("Visibility", None)
      b = rng.choice(TIME_GRID)
      if rng.random() < 0.5:
        a.anims.append(("ShowBackground", b, b + rng.choice([Fr(1, 2), Fr(1), Fr(3)]), E("ShowBackgroundType", "always")))
      else:
        # variant: always shown but fully transparent, made visible by an opacity (or visibility) step
        a.styles["ShowBackground"] = E("ShowBackgroundType", "always")
        a.anims = [x for x in a.anims if x[0] not in ("BackgroundColor", "Display", "ShowBackground", "Visibility", "Opacity")]
        if rng.random() < 0.6:
          a.styles["Opacity"] = 0
          a.anims.append(("Opacity", b, b + rng.choice([Fr(1, 2), Fr(1), Fr(3)]), 1))
        else:
          a.styles["Visibility"] = E("VisibilityType", "hidden")
          a.anims.append(("Visibility", b, b + rng.choice([Fr(1, 2), Fr(1), Fr(3)]), E("VisibilityType", "visible")))
      self.classes.add("region-bg-by-animation")
    if rng.random() < 0.1:
      # a length in em on the region itself, resolved against the region's own (computed) font size
      a.styles["Disparity"] = L(rng.choice([1, 2, -1, 0.5]), "em")
      a.styles["FontSize"] = rng.choice([L(2, "c"), L(150, "%"), L(36, "px"), L(1.5, "em")])
      a.anims = [x for x in a.anims if x[0] not in ("Disparity", "FontSize")]
      self.classes.add("region-em-disparity")
    return a

  def doc(self) -> AbsDoc:
    rng = self.rng
    d = AbsDoc()
    d.lang = rng.choice(["", "en", "fr-CA"])
    # (rows, columns): default, both differ, and only one of the two differing from the default 15 x 32
    d.cell = rng.choice([(15, 32), (15, 32), (23, 40), (19, 50), (15, 40), (24, 32), (15, 33), (1, 32)])
    d.px = rng.choice([(1920, 1080), (1920, 1080), (640, 480), (720, 576)])
    if rng.random() < 0.15:
      d.active_area = rng.choice([(0.1, 0.1, 0.8, 0.8), (0, 0.125, 1, 0.75)])
    if rng.random() < 0.15:
      d.dar = rng.choice([Fr(16, 9), Fr(4, 3)])
    nreg = rng.choice(self.p["regions"])
    self.classes.add("regions:%s" % (nreg if nreg < 2 else "many"))
    self.region_ids = [f"r{i + 1}" for i in range(nreg)]
    d.regions = [self.region(i + 1) for i in range(nreg)]
    if rng.random() < self.p["p_initial"]:
      for _ in range(rng.randint(1, 4)):
        prop = rng.choice(ALL_PROPS)
        if prop == "Display" and rng.random() < 0.7:
          continue
        if self.focus is not None and rng.random() < 0.4:
          prop = self.focus
        d.initials[prop] = style_value(rng, prop)
        if prop == "Display":
          self.classes.add("display-initial")
    if d.regions and rng.random() < 0.08:
      # showBackground of an unreferenced region decided by what is NOT written on the region: the document's initial value
      # (whenActive: dropped; always: kept although the region specifies nothing) or an animation step on the region
      r = d.regions[-1]
      for k in ("Display", "Opacity", "Visibility", "ShowBackground"):
        r.styles.pop(k, None)
      r.anims = [x for x in r.anims if x[0] not in ("Display", "Opacity", "Visibility", "ShowBackground", "BackgroundColor")]
      r.begin = r.end = None
      r.styles["BackgroundColor"] = ("C", (0, 0, 255, 255))
      v = rng.choice(["initial-whenActive", "initial-always", "animated-always", "animated-whenActive"])
      d.initials.pop("ShowBackground", None)
      if v.startswith("initial"):
        d.initials["ShowBackground"] = E("ShowBackgroundType", v.split("-")[1])
      else:
        other = "whenActive" if v == "animated-always" else "always"
        r.styles["ShowBackground"] = E("ShowBackgroundType", other)
        b0 = rng.choice([Fr(1), Fr(2), Fr(4)])
        r.anims.append(("ShowBackground", b0, b0 + rng.choice([Fr(1), Fr(3)]), E("ShowBackgroundType", v.split("-")[1])))
      self.classes.add("show-background-unspecified-or-animated")
    initial_none = rng.random() < 0.05
    if initial_none:
      # <initial tts:display="none"/>: only elements that specify or animate display are presented
      d.initials["Display"] = E("DisplayType", "none")
      self.classes.add("display-initial")
      self.classes.add("display-initial-none")
    if rng.random() < 0.97:
      b = AbsEl("Body", id=self.eid())
      self.timing(b, self.p["p_time"] * 0.5)
      self.styles(b)
      self.region_ref(b, self.p["p_region_ref"] * 0.4)
      for _ in range(rng.choice([1, 1, 2, 3])):
        b.children.append(self.div())
      d.body = b
      if initial_none:
        # show about half of the elements explicitly: shown parents with children that specify nothing (these stay hidden)
        for r in d.regions:
          r.styles["Display"] = E("DisplayType", "auto")
        for el in b.walk():
          if el.kind not in ("Text", "Br") and rng.random() < 0.55:
            el.styles["Display"] = E("DisplayType", "auto")
    return d


def generate(rng: random.Random, profile="isd", focus=None, **over):
  g = Gen(rng, profile, focus, **over)
  d = g.doc()
  return d, g.classes
