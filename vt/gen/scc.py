"""Seeded generator of SCC files from the three CEA-608 caption protocols (pop-on, roll-up, paint-on).

gen_stream(rng, tier, **overrides) -> (text, meta)
  text : the SCC file
  meta : {"opts": {...}, "lines": [{"tc", "T", "words"}], "captions": [{"mode", "rows": {row: text}, ...}]}

Words are built from the CEA-608 bit layout (no ttconv imports).  What is generated, and what is deliberately not:
  * one caption mode per segment, 1-3 segments per stream; the screen is erased (EDM) between segments;
  * pop-on: [RCL] [ENM] (PAC [TOx] text){1..4 rows} [EDM] EOC, optional stand-alone EDM later; ENM is omitted when
    the non-displayed memory is empty or (opts["popon_swap"], ~45% of the streams) when the new rows are free in it:
    the caption displayed two flips ago then returns with the new rows at the next EOC (memory swap);
  * roll-up: RUx then per row [RUx] CR [PAC] [TOx] text (first row optionally without CR); base row 15 unless
    opts["rollup_rows"];
  * paint-on: RDC (PAC [TOx] text){1..3 rows}, captions accumulate on free rows or follow an EDM; rewriting an
    occupied row (PAC indent 0 + DER + text) only with opts["paint_rewrite"];
  * text cells: standard characters (incl. the ten substituted codes), special characters, extended characters
    (always preceded by their fallback character), mid-row codes in place of a blank, typo + BS;
  * control codes all doubled or all single per stream; null padding and channel-2 groups only at unit boundaries,
    never between two identical channel-1 control words;
  * tab offsets only directly after a PAC; rows never extend past column 32; BS / extended characters never in
    the 32nd column.
"""
from fractions import Fraction

from vt.ref import c608_table as T
from vt.ref import timecode as TC

FPS_NDF = Fraction(30)
FPS_DF = Fraction(30000, 1001)

CTL = {"RCL": 0x1420, "BS": 0x1421, "DER": 0x1424, "RU2": 0x1425, "RU3": 0x1426, "RU4": 0x1427, "RDC": 0x1429,
       "EDM": 0x142C, "CR": 0x142D, "ENM": 0x142E, "EOC": 0x142F, "TO1": 0x1721, "TO2": 0x1722, "TO3": 0x1723}
ROW_CODE = {row: key for key, row in T.PAC_ROWS.items()}   # row -> (b1, bit5)

LETTERS = "ABCDEFGHIJKLMNOPQRSTUVWXYZabcdefghijklmnopqrstuvwxyz"
PUNCT = "0123456789.,!?'-:;%&()+=<>#$@/\""
SUBST = [0x2A, 0x5C, 0x5E, 0x5F, 0x60, 0x7B, 0x7C, 0x7D, 0x7E, 0x7F]
# fallback (standard) characters sent before an extended character
EXT_FALLBACK = "AEOUUu'!*'-cs.\"\"AACEEEeIIiOUuU<>" + "AaIIiOoOo{}\\^_|~AaOosY$|AaOo++++"
assert len(EXT_FALLBACK) == 64


def parity(b):
  """odd parity in bit 7"""
  b &= 0x7F
  return b | (0x80 if bin(b).count("1") % 2 == 0 else 0)


def pac(row, *, indent=None, color=None, underline=False, chan=1):
  """Preamble address code. Either indent (0,4..28; white) or color index 0..7 (7 = white italics), not both."""
  b1, bit5 = ROW_CODE[row]
  if indent is not None:
    attr = 0x10 | ((indent // 4) << 1)
  else:
    attr = (color or 0) << 1
  b2 = 0x40 | (bit5 << 5) | attr | (1 if underline else 0)
  if chan == 2:
    b1 |= 0x08
  return (b1 << 8) | b2


def midrow(idx, underline=False):
  return 0x1120 | (idx << 1) | (1 if underline else 0)


def special(i):
  return 0x1130 + i


def extended(i):
  return (0x1220 + i) if i < 32 else (0x1320 + (i - 32))


def ext_alts(i):
  cell = (T.EXT_12 + T.EXT_13)[i]
  return cell if isinstance(cell, tuple) else (cell,)


class _Emitter:
  """Turns tokens into lines of words."""

  def __init__(self, rng, opts):
    self.rng, self.o = rng, opts
    self.lines = []          # list of (gap_before, [words])
    self.cur = None
    self.pending = None      # pending single text byte
    self.last_ch1 = None     # last channel-1 word emitted (7-bit), None after text

  def newline(self, gap):
    self.flush_byte()
    self.cur = []
    self.lines.append([gap, self.cur])

  def _w(self, v):
    if self.cur is None:
      self.newline(0)
    self.cur.append(v)

  def flush_byte(self):
    if self.pending is not None:
      self._w(self.pending << 8)
      self.pending = None
      self.last_ch1 = None

  def byte(self, b):
    if self.pending is None:
      self.pending = b
    else:
      self._w((self.pending << 8) | b)
      self.pending = None
      self.last_ch1 = None

  def ctl(self, v):
    self.flush_byte()
    self._w(v)
    if self.o["doubled"]:
      self._w(v)
    self.last_ch1 = v

  def ok(self, next_ctl, allow_ch2=True):
    """A point where padding / channel-2 data may be inserted."""
    self.flush_byte()
    if next_ctl is not None and next_ctl == self.last_ch1:
      return
    r = self.rng
    if r.random() < self.o["p_pad"]:
      for _ in range(r.choice([1, 1, 2, 3])):
        self._w(0x0000)
    if allow_ch2 and r.random() < self.o["p_ch2"]:
      self._ch2_group()
      if r.random() < self.o["p_pad"]:
        self._w(0x0000)

  def _ch2_group(self):
    r = self.rng
    seq = []
    kind = r.randrange(5)
    if kind == 4:      # field-2 forms of the miscellaneous control codes (15xx / 1Dxx): belong to neither CC1 nor CC2
      seq += [r.choice([0x1500, 0x1D00]) | r.choice([0x20, 0x21, 0x24, 0x25, 0x26, 0x27, 0x29, 0x2C, 0x2D, 0x2E, 0x2F])]
    elif kind == 0:      # a channel-2 pop-on caption
      seq += [0x1C20, pac(r.choice([13, 14, 15]), indent=r.choice([0, 4, 8]), chan=2)]
      seq += self._ch2_text(r.randrange(2, 9)) + [0x1C2F]
    elif kind == 1:    # channel-2 roll-up row
      seq += [0x1C25, 0x1C2D, pac(15, color=r.randrange(8), chan=2)] + self._ch2_text(r.randrange(2, 9))
    elif kind == 2:    # erase / flip only
      seq += [r.choice([0x1C2C, 0x1C2E, 0x1C2F, 0x1C21, 0x1C2D])]
    else:              # mid-row, special, extended, tab on channel 2
      seq += [pac(r.randrange(1, 16), color=r.randrange(8), chan=2), 0x1920 | r.randrange(16)]
      seq += self._ch2_text(r.randrange(1, 4)) + [0x1930 + r.randrange(16), 0x4100, 0x1A20 + r.randrange(32), 0x1F21 + r.randrange(3)]
    for v in seq:
      is_code = 0x10 <= (v >> 8) <= 0x1F
      self._w(v)
      if is_code and self.o["doubled"]:
        self._w(v)

  def _ch2_text(self, n):
    return [(ord(self.rng.choice(LETTERS)) << 8) | ord(self.rng.choice(LETTERS + "  ")) for _ in range(n)]


def _row_items(rng, width, token, o):
  """Builds the cell items of one row (<= width cells, width >= 4).  Returns (items, rendered_text) where items are
  ('c', byte) | ('sp', i) | ('ext', i) | ('mid', idx, u) | ('typo', byte)."""
  n = rng.randint(min(width, len(token) + 1), width) if rng.random() < 0.5 else min(width, len(token) + rng.randrange(0, 12))
  n = max(n, min(width, len(token)))
  items, text = [], []

  def put_char(ch):
    items.append(("c", ord(ch)))
    text.append(ch)

  def put_random_glyph(last_col):
    x = rng.random()
    if x < o["p_special"]:
      i = rng.randrange(16)
      if i == 9:
        i = 7
      if items and items[-1] == ("sp", i):
        # two identical control pairs in a row would be one doubled pair
        i = (i + 1) % 16 if i != 8 else 10
      items.append(("sp", i))
      text.append(T.SPECIAL[i])
    elif x < o["p_special"] + o["p_ext"] and not last_col:
      i = rng.randrange(64)
      items.append(("ext", i))
      text.append(ext_alts(i)[0])
    elif x < o["p_special"] + o["p_ext"] + o["p_subst"]:
      b = rng.choice(SUBST)
      items.append(("c", b))
      text.append(T.std_char(b))
    elif x < o["p_special"] + o["p_ext"] + o["p_subst"] + o["p_typo"] and not last_col:
      items.append(("typo", ord(rng.choice(LETTERS))))
      put_char(rng.choice(LETTERS))
    elif x < 0.85:
      put_char(rng.choice(LETTERS))
    else:
      put_char(rng.choice(PUNCT))

  # layout: optional leading mid-row code, words separated by a blank (space or mid-row code), token somewhere
  token_at = rng.choice([0, 0, 1, 2])
  word_no = 0
  if rng.random() < o["p_mid_lead"] and n - len(token) >= 2:
    items.append(("mid", rng.randrange(8), rng.random() < 0.3))
    text.append(" ")
  while len(text) < n:
    remaining = n - len(text)
    if word_no == token_at or (remaining <= len(token) + 1 and word_no < token_at):
      if remaining < len(token):
        break
      for ch in token:
        put_char(ch)
      token_at = -1
      word_no += 1
    else:
      reserve = (len(token) + 1) if token_at >= 0 and word_no < token_at else 0
      maxlen = remaining - reserve
      if maxlen <= 0:
        token_at = word_no
        continue
      wl = min(maxlen, rng.randint(1, 7))
      for k in range(wl):
        put_random_glyph(last_col=(len(text) == width - 1))
      word_no += 1
    if len(text) < n - 1:
      if rng.random() < o["p_mid"]:
        items.append(("mid", rng.randrange(8), rng.random() < 0.3))
        if rng.random() < 0.3 and len(text) < n - 5:
          # mid-row code, special characters only, then a mid-row code that switches italics / underline off again
          if items[-1][1] != 7 and not items[-1][2]:
            items[-1] = ("mid", 7, rng.random() < 0.5)
          text.append(" ")
          for _ in range(rng.choice([1, 2])):
            i = rng.choice([0, 1, 2, 3, 4, 5, 6, 7, 8, 10, 11, 12, 13, 14, 15])
            if items[-1] == ("sp", i):
              i = (i + 1) % 16 if i not in (8, 15) else 10
            items.append(("sp", i))
            text.append(T.SPECIAL[i])
          items.append(("mid", 0, False))
      else:
        items.append(("c", 0x20))
      text.append(" ")
      if rng.random() < o["p_dblspace"] and len(text) < n - 1:
        items.append(("c", 0x20))
        text.append(" ")
    else:
      break
  if token_at >= 0:
    # token did not fit in the planned layout: rebuild as the token alone
    items, text = [("c", ord(ch)) for ch in token], list(token)
  return items, "".join(text)


DEFAULTS = {
  "p_pad": 0.08, "p_ch2": 0.06, "p_special": 0.04, "p_ext": 0.04, "p_subst": 0.03, "p_typo": 0.02, "p_mid": 0.12,
  "p_mid_lead": 0.06, "p_dblspace": 0.03, "p_to": 0.3, "p_color_pac": 0.35, "rollup_rows": False,
  "paint_rewrite": False, "popon_swap": False, "max_captions": 40,
}


class _Gen:
  def __init__(self, rng, opts):
    self.r, self.o = rng, opts
    self.em = _Emitter(rng, opts)
    self.captions = []
    self.n = 0
    self.disp_rows = set()      # rows holding pop-on text in the displayed / non-displayed memory
    self.nd_rows = set()
    self.nd_unknown = False     # after a roll-up segment: ENM is sent before the next pop-on caption
    self.pen_default = True

  def token(self):
    self.n += 1
    digits = "0123456789ABCDEFGHJKLMNPQRSTUVWXYZ"
    n, s = self.n, ""
    while True:
      s = digits[n % len(digits)] + s
      n //= len(digits)
      if n == 0:
        break
    return "Z" + s + "q"

  def gap(self, kind="short"):
    r = self.r
    if kind == "short":
      return r.choice([0, 0, 1, 2, 3, 4, 5, 8, 15])
    return r.choice([0, 1, 2, 3, 4, 6, 10, 30, 45, 90, 200])

  # ---- row -------------------------------------------------------------------------------------------------------
  def row(self, row, cap, pac_optional=False, force_indent0=False, der=False):
    r, em, o = self.r, self.em, self.o
    col = 0
    if pac_optional and self.pen_default and r.random() < 0.3:
      pass   # no PAC: column 0; only generated right after CR in roll-up when the pen already is white/plain
    else:
      if r.random() < o["p_color_pac"] or force_indent0:
        color = 0 if (force_indent0 and r.random() < 0.5) else r.randrange(8)
        u = r.random() < 0.2
        v = pac(row, color=color, underline=u)
        self.pen_default = color == 0 and not u
      else:
        col = r.choice([0, 0, 4, 4, 8, 8, 12, 16, 20, 24, 28])
        u = r.random() < 0.15
        v = pac(row, indent=col, underline=u)
        self.pen_default = not u
      em.ok(v)
      em.ctl(v)
      if der:
        em.ctl(CTL["DER"])
      if r.random() < o["p_to"] and col < 26 and not force_indent0:
        k = r.choice([1, 2, 3])
        em.ctl(CTL["TO%d" % k])
        col += k
    width = 32 - col
    plain_start = self.pen_default
    items, text = _row_items(r, width, self.token(), o)
    cap.setdefault("plain", {})[row] = plain_start and not any(it[0] == "mid" for it in items)
    for i, it in enumerate(items):
      if it[0] == "c":
        em.byte(it[1])
      elif it[0] == "sp":
        em.ctl(special(it[1]))
      elif it[0] == "ext":
        em.byte(ord(EXT_FALLBACK[it[1]]))
        em.ctl(extended(it[1]))
      elif it[0] == "mid":
        em.ctl(midrow(it[1], it[2]))
        self.pen_default = it[1] == 0 and not it[2]
      elif it[0] == "typo":
        em.byte(it[1])
        em.ctl(CTL["BS"])
      if it[0] == "c" and it[1] == 0x20 and r.random() < o["p_pad"] / 2:
        em.ok(None, allow_ch2=False)
    em.flush_byte()
    cap["rows"][row] = text
    cap["cols"][row] = col

  # ---- pop-on ----------------------------------------------------------------------------------------------------
  def popon_segment(self, ncaps):
    """opts["popon_swap"]: ENM and EDM are mostly omitted between consecutive captions, which then address rows that
    are free in the non-displayed memory: the caption displayed two flips ago is still there, receives the new rows
    and returns on screen at the next EOC (CEA-608 memory swap)."""
    r, em = self.r, self.em
    swap = self.o["popon_swap"]
    for k in range(ncaps):
      cap = {"mode": "pop", "rows": {}, "cols": {}}
      em.newline(self.gap("long") if k else self.gap("short"))
      if k == 0 or r.random() < 0.7:
        em.ok(CTL["RCL"])
        em.ctl(CTL["RCL"])
      nrows = r.choice([1, 1, 2, 2, 2, 3, 4])
      if swap:
        enm = self.nd_unknown or len(self.nd_rows) + nrows > 4 or r.random() < 0.12
      else:
        enm = self.nd_unknown or bool(self.nd_rows) or r.random() < 0.5
      if enm:
        em.ok(CTL["ENM"])
        em.ctl(CTL["ENM"])
        self.nd_rows = set()
        self.nd_unknown = False
      free = [x for x in range(1, 16) if x not in self.nd_rows]
      rows = None
      if r.random() < 0.6:
        bottom = max(r.choice([15, 15, 14, 13, 4, 3, 2, 10]), nrows)
        cand = list(range(bottom - nrows + 1, bottom + 1))
        if not self.nd_rows.intersection(cand):
          rows = cand
      if rows is None:
        rows = sorted(r.sample(free, nrows))
      if r.random() < 0.15:
        r.shuffle(rows)    # rows transmitted out of order
      for j, row in enumerate(rows):
        if j and r.random() < 0.15:
          em.newline(self.gap("short"))
        self.row(row, cap)
      # a PAC back onto a row written earlier in this caption (not the current one), at the column where its text ends (an
      # indent column): the text goes on there.  (Indents beyond the end of the text are not generated: ttconv documents that it
      # forces the cursor back to the end of the line.)
      #  Only rows in the default pen (white, no mid-row code): ttconv continues the existing text element, see the known finding.
      back = [x for x in rows[:-1] if cap["rows"][x] and (cap["cols"][x] + len(cap["rows"][x])) % 4 == 0
              and cap["cols"][x] + len(cap["rows"][x]) <= 24 and not cap["rows"][x].endswith(" ") and cap.get("plain", {}).get(x)]
      if back and r.random() < self.o.get("p_revisit", 0.5):
        row = r.choice(back)
        end = cap["cols"][row] + len(cap["rows"][row])
        col2 = end
        if col2 <= 24:
          tok = self.token()[:max(1, min(4, 32 - col2))]
          v = pac(row, indent=col2)
          self.pen_default = True
          em.ok(v)
          em.ctl(v)
          for ch in tok:
            em.byte(ord(ch))
          em.flush_byte()
          cap["rows"][row] = cap["rows"][row] + " " * (col2 - end) + tok
          cap["revisit"] = row
      self.nd_rows.update(rows)
      if r.random() < 0.15:
        em.newline(self.gap("short"))
      if r.random() < (0.08 if swap else 0.45):
        em.ok(CTL["EDM"])
        em.ctl(CTL["EDM"])
        self.disp_rows = set()
      em.ok(CTL["EOC"])
      em.ctl(CTL["EOC"])
      self.disp_rows, self.nd_rows = self.nd_rows, self.disp_rows
      self.captions.append(cap)
      if r.random() < (0.08 if swap else 0.45):
        em.newline(self.gap("long"))
        em.ctl(CTL["EDM"])
        self.disp_rows = set()

  # ---- roll-up ---------------------------------------------------------------------------------------------------
  def rollup_segment(self, nrows):
    r, em = self.r, self.em
    depth = r.choice([2, 3, 4])
    ru = CTL["RU%d" % depth]
    base = 15
    if self.o["rollup_rows"]:
      base = r.randint(depth, 15)
    for k in range(nrows):
      cap = {"mode": "roll", "rows": {}, "cols": {}, "depth": depth, "base": base}
      if k == 0 or r.random() < 0.85:
        em.newline(self.gap("long") if k else self.gap("short"))
      with_cr = True
      if k == 0:
        em.ok(ru)
        em.ctl(ru)
        with_cr = r.random() < 0.7
      elif r.random() < 0.5:
        em.ok(ru)
        em.ctl(ru)
      if with_cr:
        em.ok(CTL["CR"])
        em.ctl(CTL["CR"])
      # the PAC may be omitted only right after a CR (pen and column are then the defaults) on base row 15
      self.row(base, cap, pac_optional=(with_cr and base == 15))
      self.captions.append(cap)
    # RUx after another mode erases both memories (47 CFR 15.119(f)(1)); not relied upon: the next pop-on caption sends ENM
    self.nd_rows = set()
    self.nd_unknown = True

  # ---- paint-on --------------------------------------------------------------------------------------------------
  def painton_segment(self, ncaps):
    r, em = self.r, self.em
    occupied = set()
    for k in range(ncaps):
      cap = {"mode": "paint", "rows": {}, "cols": {}}
      em.newline(self.gap("long") if k else self.gap("short"))
      if k and (len(occupied) >= 3 or r.random() < 0.6):
        em.ctl(CTL["EDM"])
        occupied.clear()
        if r.random() < 0.5:
          em.newline(self.gap("short"))
      if k == 0 or r.random() < 0.7:
        em.ok(CTL["RDC"])
        em.ctl(CTL["RDC"])
      nrows = r.choice([1, 1, 2, 2, 3])
      free = [x for x in range(1, 16) if x not in occupied]
      rows = sorted(r.sample(free, nrows))
      if r.random() < 0.5:
        bottom = r.choice([15, 14, 3, 8])
        cand = list(range(max(1, bottom - nrows + 1), bottom + 1))
        if len(cand) == nrows and not occupied.intersection(cand):
          rows = cand
      for j, row in enumerate(rows):
        if j and r.random() < 0.3:
          em.newline(self.gap("short"))
        self.row(row, cap)
        occupied.add(row)
      if self.o["paint_rewrite"] and occupied and r.random() < 0.3:
        row = r.choice(sorted(occupied))
        em.newline(self.gap("long"))
        self.row(row, cap, force_indent0=True, der=True)
      self.captions.append(cap)

  def clear_between_segments(self):
    em = self.em
    em.newline(self.gap("long"))
    em.ctl(CTL["EDM"])
    self.disp_rows = set()


def gen_stream(rng, tier="quick", **overrides):
  o = dict(DEFAULTS)
  o["df"] = rng.random() < 0.5
  o["doubled"] = rng.random() < 0.45
  o["parity"] = rng.choice(["odd", "odd", "clear", "set"])
  o["text_align"] = rng.choice(["auto", "left", "center", "right"])
  o["popon_swap"] = rng.random() < 0.45
  if rng.random() < 0.4:
    o["p_ch2"] = 0.0
  if rng.random() < 0.3:
    o["p_pad"] = 0.0
  if tier == "thorough":
    o["rollup_rows"] = rng.random() < 0.3
    o["paint_rewrite"] = rng.random() < 0.3
  o.update(overrides)
  g = _Gen(rng, o)
  budget = rng.choice([2, 3, 5, 8, 12, 20, 30, o["max_captions"]])
  budget = min(budget, o["max_captions"])
  modes = o.get("modes") or rng.choice([["pop"], ["pop"], ["roll"], ["roll"], ["paint"], ["paint"], ["pop", "roll"],
                                        ["roll", "pop"], ["paint", "pop"], ["pop", "paint"], ["roll", "paint"],
                                        ["paint", "roll"], ["pop", "roll", "paint"], ["paint", "pop", "roll"]])
  o["modes"] = list(modes)
  shares = [max(1, budget // len(modes))] * len(modes)
  for si, (mode, n) in enumerate(zip(modes, shares)):
    if si:
      g.clear_between_segments()
    if mode == "pop":
      g.popon_segment(n)
    elif mode == "roll":
      g.rollup_segment(n)
    else:
      g.painton_segment(n)
  g.em.flush_byte()
  if rng.random() < 0.4:
    g.em.newline(g.gap("long"))
    g.em.ctl(CTL["EDM"])

  # ---- time codes and rendering ----------------------------------------------------------------------------------
  rate = FPS_DF if o["df"] else FPS_NDF
  total = sum(gap + len(ws) for gap, ws in g.em.lines) + 10
  day = TC.count((23, 59, 59, 29), rate) - total
  x = rng.random()
  if x < 0.35:
    # just before a minute / ten-minute / hour boundary so that the stream crosses it
    minute = rng.choice([1, 2, 9, 10, 11, 59, 60, 61, 600, 60 * rng.randrange(1, 1380)])
    start = max(0, TC.count((minute // 60, minute % 60, 0, 2 if (o["df"] and minute % 10) else 0), rate) - rng.randrange(1, 80))
  elif x < 0.5:
    start = rng.randrange(0, 60)
  else:
    start = rng.randrange(0, day)
  start = min(start, day)
  lines = []
  t = start
  for gap, ws in g.em.lines:
    if not ws:
      continue
    t += gap
    h, m, s, f = TC.label(t, rate)
    tc = "%02d:%02d:%02d%s%02d" % (h, m, s, ";" if o["df"] else ":", f)
    lines.append({"tc": tc, "T": t, "words": list(ws)})
    t += len(ws)
  text = render(lines, o["parity"])
  meta = {"opts": o, "lines": lines, "captions": g.captions}
  return text, meta


def apply_parity(v, mode):
  b1, b2 = (v >> 8) & 0x7F, v & 0x7F
  if mode == "odd":
    return (parity(b1) << 8) | parity(b2)
  if mode == "set":
    return ((b1 | 0x80) << 8) | (b2 | 0x80)
  return (b1 << 8) | b2


def render(lines, parity_mode="odd", upper=False):
  out = ["Scenarist_SCC V1.0", ""]
  for ln in lines:
    fmt = "%04X" if upper else "%04x"
    out.append(ln["tc"] + "\t" + " ".join(fmt % apply_parity(v, parity_mode) for v in ln["words"]))
    out.append("")
  return "\n".join(out) + "\n"
