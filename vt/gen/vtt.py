"""Grammar generator of WebVTT files (W3C WebVTT, sections 4.1 file structure, 4.2 cue settings / cue text).
gen_file(rng, profile) returns (file text, AST).  The AST is plain JSON-able data and is the oracle of C11: the
expected model of the file is computed from the AST only (expected_cue), never from the rendered text.

AST
  file  = {"bom": bool, "eol": "\n"|"\r\n"|"\r", "header": str, "header_blanks": int, "items": [item...], "final_eols": int}
  item  = {"k": "note"|"style"|"region", "lines": [str...], "blanks": int}
        | {"k": "cue", "id": str|None, "b": ms, "e": ms, "hours": "auto"|"always"|"wide", "sep": [ws, ws, ws],
           "settings": [[name, value]...], "body": [node...], "blanks": int}
  node  = {"t": "text", "raw": str, "dec": str}          raw is what is printed, dec what it means
        | {"t": "nl"}                                     line terminator inside the payload
        | {"t": "ts", "ms": int, "hours": ...}            inline timestamp tag
        | {"t": "tag", "name": b|i|u|c|lang|v|ruby|rt, "classes": [str...], "annot": raw str|None, "kids": [node...],
           "close": bool}
"""
import copy

FG = ["white", "lime", "cyan", "red", "yellow", "magenta", "blue", "black"]      # WebVTT 5.1 default classes
OTHER_CLASSES = ["loud", "first", "x1"]                                           # no UA style: must change nothing
ENTITIES = [("&amp;", "&"), ("&lt;", "<"), ("&gt;", ">"), ("&nbsp;", " "), ("&lrm;", "‎"), ("&rlm;", "‏"),
            ("&#65;", "A"), ("&#233;", "é"), ("&#x263A;", "☺"), ("&#x41;", "A"),
            # an escaped ampersand followed by what would be a reference again: decoded exactly once
            ("&amp;lt;", "&lt;"), ("&amp;amp;", "&amp;"), ("&amp;#38;", "&#38;"), ("&amp;gt;", "&gt;"), ("&amp;nbsp;", "&nbsp;")]
LANGS = ["en", "fr", "ja", "en-GB", "zh-Hant"]
VOICES = ["Bob", "Anna Lee", "Dr. No", "Esme"]
VOICES_CREF = ["R&amp;D", "Tom &amp; Al", "a&lt;b"]

V_VERTICAL = ["rl", "lr"]
V_LINE_PCT = ["0%", "10%", "50%", "85%", "100%", "37.5%"]
V_LINE_NUM = ["0", "1", "5", "-1", "-3", "22"]
# line numbers at and beyond the edges of the line grid in either direction (23 rows, 40 columns for vertical cues in ttconv;
# whatever the grid, the region stays inside the root container with non-negative extent)
V_LINE_NUM_FAR = ["-22", "-23", "-24", "-25", "-26", "-40", "-41", "-42", "-43", "-100", "-1000", "23", "24", "39", "40", "41", "1000"]
V_LINE_ALIGN = [None, "start", "center", "end"]
V_POSITION = ["0%", "10%", "50%", "90%", "100%"]
V_POSITION_ALIGN = [None, "line-left", "center", "line-right"]
V_SIZE = ["10%", "35%", "50%", "100%"]
V_ALIGN = ["start", "center", "end", "left", "right"]

START_MS = [0, 0, 280, 1000, 7001, 59999, 3599000, 3600000, 3723004, 36000000, 360000000]
GAP_MS = [0, 1, 500, 1000, 2345]
DUR_MS = [1, 7, 40, 280, 1000, 2500, 4999, 10000, 61000]


def fmt_ts(ms, hours="auto"):
  """WebVTT timestamp: hours optional when zero, two or more digits otherwise."""
  h, r = divmod(ms, 3600000)
  m, r = divmod(r, 60000)
  s, t = divmod(r, 1000)
  if hours == "wide":
    return "%03d:%02d:%02d.%03d" % (h, m, s, t)
  if h > 0 or hours == "always":
    return "%02d:%02d:%02d.%03d" % (h, m, s, t)
  return "%02d:%02d.%03d" % (m, s, t)


# --- rendering -------------------------------------------------------------------------------------------------------

def render_nodes(nodes, eol):
  out = []
  for n in nodes:
    t = n["t"]
    if t == "text":
      out.append(n["raw"])
    elif t == "nl":
      out.append(eol)
    elif t == "ts":
      out.append("<" + fmt_ts(n["ms"], n.get("hours", "auto")) + ">")
    else:
      out.append("<" + n["name"] + "".join("." + c for c in n["classes"]))
      if n["annot"] is not None:
        out.append(n.get("sep", " ") + n["annot"])
      out.append(">")
      out.append(render_nodes(n["kids"], eol))
      if n.get("close", True):
        out.append("</" + n["name"] + ">")
  return "".join(out)


def render_cue(cue, eol):
  lines = []
  if cue["id"] is not None:
    lines.append(cue["id"])
  sep = cue.get("sep", [" ", " ", " "])
  timing = fmt_ts(cue["b"], cue.get("hours", "auto")) + sep[0] + "-->" + sep[1] + fmt_ts(cue["e"], cue.get("hours", "auto"))
  for name, value in cue["settings"]:
    timing += sep[2] + name + ":" + value
  lines.append(timing)
  return eol.join(lines) + eol + render_nodes(cue["body"], eol)


def render_file(f):
  eol = f["eol"]
  out = [("﻿" if f.get("bom") else "") + f["header"] + eol + eol * f.get("header_blanks", 1)]
  items = f["items"]
  for i, it in enumerate(items):
    if it["k"] == "cue":
      block = render_cue(it, eol)
    else:
      block = eol.join(it["lines"])
    out.append(block)
    if i + 1 < len(items):
      out.append(eol * (1 + it.get("blanks", 1)))
    else:
      out.append(eol * f.get("final_eols", 1))
  return "".join(out)


# --- expected model of a cue (the oracle's view of the AST) -----------------------------------------------------------

def expected_chars(body):
  """Flattens the node tree to one entry per character:
  (char, bold, italic, underline, fg class, bg class, lang, ruby role, timestamp ms | None, timestamp scope closed?).
  A tag applies to exactly the text it encloses; an inline timestamp applies to all following text in document
  order up to the next timestamp (WebVTT 'in the past / in the future' of a node is by document order)."""
  out = []
  state = {"ts": None, "ts_depth": None, "closed": False}

  def walk(nodes, a, depth):
    for n in nodes:
      t = n["t"]
      if t == "text":
        for ch in n["dec"]:
          out.append((ch, a["b"], a["i"], a["u"], a["fg"], a["bg"], a["lang"], a["ruby"], state["ts"], state["closed"]))
      elif t == "nl":
        out.append(("\n",))
      elif t == "ts":
        state["ts"] = n["ms"]
        state["ts_depth"] = depth
        state["closed"] = False
      else:
        b = dict(a)
        name = n["name"]
        if name == "b":
          b["b"] = True
        elif name == "i":
          b["i"] = True
        elif name == "u":
          b["u"] = True
        elif name == "c":
          for c in n["classes"]:
            if c in FG:
              b["fg"] = c
            elif c.startswith("bg_") and c[3:] in FG:
              b["bg"] = c[3:]
        elif name == "lang":
          b["lang"] = n["annot"]
        elif name == "ruby":
          b["ruby"] = "base"
        elif name == "rt":
          if a["ruby"] is not None:     # <rt> outside <ruby> is ignored by a WebVTT parser: plain text
            b["ruby"] = "text"
        walk(n["kids"], b, depth + 1)
        if state["ts_depth"] is not None and state["ts_depth"] > depth:
          state["closed"] = True      # the tag that enclosed the last timestamp has ended
          state["ts_depth"] = depth

  walk(body, {"b": False, "i": False, "u": False, "fg": None, "bg": None, "lang": None, "ruby": None}, 0)
  return out


def iter_nodes(nodes, depth=0, parents=()):
  for n in nodes:
    yield n, depth, parents
    if n["t"] == "tag":
      yield from iter_nodes(n["kids"], depth + 1, parents + (n["name"],))


def cue_features(cue):
  """Coarse, value-free description of a cue (used to name mechanisms and to count coverage classes).
  Hierarchical: `line:neg,center` implies `line:neg`; `position,line-left` implies `position`; `ts>=2` implies `ts`;
  `line:pct-frac` implies `line:pct`."""
  f = set()
  if cue["id"] is not None:
    f.add("id-kw" if cue["id"].startswith(("STYLE", "NOTE ", "REGION")) else "id")
  if cue["b"] >= 3600000 or cue.get("hours", "auto") != "auto":
    f.add("hours")
  for name, value in cue["settings"]:
    if name == "line":
      v, _, al = value.partition(",")
      if v.endswith("%"):
        k = "line:pct"
        if "." in v:
          f.add("line:pct-frac")
      else:
        n = int(v)
        k = "line:num0" if n == 0 else ("line:neg" if n < 0 else "line:num")
      f.add(k)
      if al:
        f.add(k + "," + al)
    elif name == "position":
      v, _, al = value.partition(",")
      f.add("position")
      if al:
        f.add("position," + al)
    elif name == "align":
      f.add("align:" + value)
    else:
      f.add(name)
  nts = 0
  maxdepth = 0
  for n, depth, parents in iter_nodes(cue["body"]):
    if n["t"] == "ts":
      nts += 1
      if depth > 0:
        f.add("ts-in-tag")
    elif n["t"] == "nl":
      f.add("multi-line")
      if depth > 0:
        f.add("nl-in-tag")
    elif n["t"] == "text":
      if n["raw"] != n["dec"]:
        f.add("cref")
        if n["raw"].startswith("&#"):
          f.add("cref,numeric")
        elif n["raw"] in ("&lrm;", "&rlm;"):
          f.add("cref,lrm-rlm")
        else:
          f.add("cref,amp-lt-gt-nbsp")
    else:
      maxdepth = max(maxdepth, depth + 1)
      name = n["name"]
      if name == "c":
        if any(c in FG for c in n["classes"]):
          f.add("c.fg")
        if any(c.startswith("bg_") for c in n["classes"]):
          f.add("c.bg")
        f.add("c")
      else:
        f.add(name)
        if n["classes"]:
          f.add("tag.class")
      if n["annot"] is not None and "&" in n["annot"]:
        f.add("annot-cref")
      if not n.get("close", True):
        f.add("unclosed-rt")
      if name == "ruby" and parents:
        f.add("ruby-in-tag")
      if name == "ruby" and sum(1 for k in n["kids"] if k["t"] == "tag" and k["name"] == "rt") >= 2:
        f.add("ruby-2pairs")
      if name not in ("ruby", "rt") and "ruby" in parents:
        f.add("tag-in-rt" if "rt" in parents else "tag-in-ruby-base")
      if name == "rt" and "ruby" not in parents:
        f.add("rt-outside-ruby")
      if not n["kids"]:
        f.add("empty-tag")
  if nts:
    f.add("ts")
    if nts >= 2:
      f.add("ts>=2")
  if maxdepth >= 3:
    f.add("depth3")
  return f


def is_nontrivial(cue):
  return bool(cue["settings"]) or any(n["t"] in ("tag", "nl") for n in cue["body"])


def valid_cue(cue):
  """Grammar validity of a cue AST (used by the shrinker so that it never leaves the grammar)."""
  if cue["e"] <= cue["b"]:
    return False
  chars = expected_chars(cue["body"])
  if not chars:
    return False
  line = ""
  for c in chars + [("\n",)]:
    if c[0] == "\n":
      if line.strip() == "":
        return False
      line = ""
    else:
      line += c[0]
  last = cue["b"]
  for n, _d, parents in iter_nodes(cue["body"]):
    if n["t"] == "ts":
      if not last < n["ms"] < cue["e"]:
        return False
      last = n["ms"]
    if n["t"] == "tag" and n["name"] == "ruby":
      if not any(k["t"] == "tag" and k["name"] == "rt" for k in n["kids"]):
        return False
  return True


# --- generation ------------------------------------------------------------------------------------------------------

class _Tok:
  def __init__(self, prefix="k"):
    self.n = 0
    self.prefix = prefix

  def __call__(self):
    self.n += 1
    return "%s%d" % (self.prefix, self.n)


def _text(s):
  return {"t": "text", "raw": s, "dec": s}


def gen_settings(rng, p_each=0.3):
  s = []
  if rng.random() < p_each * 0.6:
    s.append(["vertical", rng.choice(V_VERTICAL)])
  if rng.random() < p_each * 1.4:
    v = rng.choice(V_LINE_PCT if rng.random() < 0.5 else (V_LINE_NUM if rng.random() < 0.8 else V_LINE_NUM_FAR))
    al = rng.choice(V_LINE_ALIGN)
    s.append(["line", v + ("," + al if al else "")])
  if rng.random() < p_each:
    al = rng.choice(V_POSITION_ALIGN)
    s.append(["position", rng.choice(V_POSITION) + ("," + al if al else "")])
  if rng.random() < p_each:
    s.append(["size", rng.choice(V_SIZE)])
  if rng.random() < p_each:
    s.append(["align", rng.choice(V_ALIGN)])
  rng.shuffle(s)
  return s


def all_setting_combinations():
  """The full product of the representative values (None = setting absent)."""
  lines = [None] + [v + ("," + a if a else "") for v in V_LINE_PCT + V_LINE_NUM for a in V_LINE_ALIGN]
  poss = [None] + [v + ("," + a if a else "") for v in V_POSITION for a in V_POSITION_ALIGN]
  for vert in [None] + V_VERTICAL:
    for line in lines:
      for pos in poss:
        for size in [None] + V_SIZE:
          for al in [None] + V_ALIGN:
            s = []
            for name, v in (("vertical", vert), ("line", line), ("position", pos), ("size", size), ("align", al)):
              if v is not None:
                s.append([name, v])
            yield s


def far_line_combinations():
  """Line numbers at and beyond the grid x writing direction x line alignment x a size."""
  for v in V_LINE_NUM_FAR:
    for vert in [None] + V_VERTICAL:
      for al in ("", "end", "center"):
        s = [["line", v + ("," + al if al else "")]]
        if vert is not None:
          s.append(["vertical", vert])
        yield s


def _gen_atoms(rng, tok, nlines, allow_cref):
  """Flat payload: words, spaces and character references, line terminators between lines."""
  atoms = []
  for li in range(nlines):
    if li:
      atoms.append({"t": "nl"})
    nwords = rng.choice([1, 1, 2, 2, 3, 4])
    for w in range(nwords):
      if w:
        atoms.append(_text(" "))
      atoms.append(_text(tok()))
      if allow_cref and rng.random() < 0.18:
        raw, dec = rng.choice(ENTITIES)
        if rng.random() < 0.5:
          atoms.append(_text(" "))
        atoms.append({"t": "text", "raw": raw, "dec": dec})
        if rng.random() < 0.5:
          atoms.append(_text(" "))
          atoms.append(_text(tok()))
  if rng.random() < 0.12:
    # literal no-break / ideographic spaces at the very start and end of the payload (indentation, CJK): part of the text
    u = rng.choice(["\u00a0", "\u00a0\u00a0", "\u3000"])
    if rng.random() < 0.7:
      atoms.insert(0, _text(u))
    if rng.random() < 0.7:
      atoms.append(_text(u))
  return atoms


def _wrap(rng, items, depth, maxdepth, in_ruby, p_wrap, opts):
  """Recursively replaces random contiguous ranges of `items` by tags."""
  if depth >= maxdepth or len(items) == 0 or rng.random() > p_wrap:
    return items
  out = []
  i = 0
  n = len(items)
  while i < n:
    if rng.random() < 0.22:
      j = min(n, i + rng.choice([1, 1, 2, 3, 3, 5, 8]))
      rng_items = items[i:j]
      node = _make_tag(rng, rng_items, depth, maxdepth, in_ruby, p_wrap, opts)
      if node is None:
        out.extend(rng_items)
      else:
        out.append(node)
      i = j
    else:
      out.append(items[i])
      i += 1
  return out


def _make_tag(rng, items, depth, maxdepth, in_ruby, p_wrap, opts, force=None):
  plain = all(x["t"] == "text" or (x["t"] == "tag" and x["name"] not in ("ruby", "rt")) for x in items)
  words = [k for k, x in enumerate(items) if x["t"] == "text" and x["raw"].strip() and x["raw"] == x["dec"]]
  kinds = ["b", "i", "u", "c", "c", "lang", "v"]
  can_ruby = (not in_ruby and plain and len(words) >= 2 and all(x["t"] == "text" for x in items)
              and (depth == 0 or opts.get("ruby_in_tag", False)))
  if can_ruby:
    kinds += ["ruby", "ruby"] if len(words) < 4 else ["ruby"] * 6
  name = rng.choice(kinds)
  if force is not None:
    if force == "ruby" and not can_ruby:
      return None
    name = force
  node = {"t": "tag", "name": name, "classes": [], "annot": None, "kids": None, "close": True}
  if name == "ruby":
    # base text, <rt> ruby text, possibly a second pair
    kids = []
    pairs = 2 if len(words) >= 4 and rng.random() < 0.6 else 1
    cuts = sorted(rng.sample(range(1, len(words)), 2 * pairs - 1)) if len(words) > 2 * pairs - 1 else None
    if cuts is None:
      pairs, cuts = 1, [1]
    bounds = [0] + [words[c] for c in cuts] + [len(items)]
    for s in range(2 * pairs):
      seg = [x for x in items[bounds[s]:bounds[s + 1]]]
      # no white-space-only edges needed; keep as is
      if s % 2 == 0:
        if opts.get("tag_in_ruby", False) and rng.random() < opts.get("p_tag_in_ruby", 0.3):
          seg = _wrap(rng, seg, depth + 1, maxdepth, True, 1.0, opts)
        kids.extend(seg)
      else:
        if opts.get("tag_in_rt", True) and rng.random() < 0.25:
          seg = _wrap(rng, seg, depth + 2, maxdepth, True, 1.0, opts)
        rt = {"t": "tag", "name": "rt", "classes": [], "annot": None, "kids": seg, "close": True}
        kids.append(rt)
    if rng.random() < 0.2:
      kids[-1]["close"] = False   # the last </rt> may be omitted (WebVTT 4.2.2)
    node["kids"] = kids
    return node
  if name == "c":
    r = rng.random()
    if r < 0.4:
      node["classes"] = [rng.choice(FG)]
    elif r < 0.65:
      node["classes"] = ["bg_" + rng.choice(FG)]
    elif r < 0.85:
      node["classes"] = [rng.choice(FG), "bg_" + rng.choice(FG)]
      rng.shuffle(node["classes"])
    elif r < 0.95:
      node["classes"] = [rng.choice(OTHER_CLASSES)]
      if rng.random() < 0.5:
        node["classes"].insert(rng.randrange(2), rng.choice(FG))
    # else: <c> without class
  elif name == "lang":
    node["annot"] = rng.choice(LANGS)
    if rng.random() < 0.3:
      # classes without UA style before the annotation: <lang.loud.x1 en>
      node["classes"] = rng.sample(OTHER_CLASSES, rng.choice([1, 1, 2]))
    if rng.random() < 0.15:
      node["sep"] = "\t"
  elif name == "v":
    if opts.get("annot_cref", False) and rng.random() < 0.5:
      node["annot"] = rng.choice(VOICES_CREF)
    else:
      node["annot"] = rng.choice(VOICES)
    if rng.random() < 0.15:
      node["classes"] = [rng.choice(OTHER_CLASSES)]
  elif rng.random() < 0.08:
    node["classes"] = [rng.choice(OTHER_CLASSES)]
  node["kids"] = _wrap(rng, list(items), depth + 1, maxdepth, in_ruby, p_wrap * 0.75, opts)
  return node


def gen_cue(rng, tok, b, e, opts):
  cue = {"k": "cue", "id": None, "b": b, "e": e, "hours": "auto", "sep": [" ", " ", " "], "settings": [], "body": None,
         "blanks": rng.choice([1, 1, 1, 2, 3])}
  r = rng.random()
  if r < 0.5:
    cue["id"] = rng.choice(["%d" % rng.randrange(1, 400), "cue-%d" % rng.randrange(9), "intro %d - part" % rng.randrange(9),
                            "NOTEBOOK", "c%d.x" % rng.randrange(9)])
    if opts.get("id_kw", False) and rng.random() < 0.3:
      cue["id"] = rng.choice(["STYLE-A", "STYLED %d" % rng.randrange(9), "NOTE %d" % rng.randrange(9)])
  if b < 3600000:
    cue["hours"] = rng.choice(["auto", "auto", "always", "wide"]) if rng.random() < 0.5 else "auto"
  elif rng.random() < 0.2:
    cue["hours"] = "wide"
  if rng.random() < 0.25:
    cue["sep"] = [rng.choice([" ", "\t", "  "]), rng.choice([" ", "\t", "  "]), rng.choice([" ", "\t", "  "])]
  if rng.random() < opts.get("p_settings", 0.6):
    cue["settings"] = gen_settings(rng)
  nlines = rng.choice([1, 1, 1, 2, 2, 3, 4])
  atoms = _gen_atoms(rng, tok, nlines, opts.get("cref", True))
  # inline timestamps: 0-3, increasing, strictly inside the cue interval
  nts = rng.choice([0, 0, 0, 1, 1, 2, 3]) if opts.get("ts", True) else 0
  nts = min(nts, max(0, e - b - 1))
  if nts:
    grid = sorted(rng.sample(range(b + 1, e), nts))
    # prefer round values when the interval allows it
    if e - b > 4000:
      grid = sorted(set((b // 1000 + k) * 1000 for k in rng.sample(range(1, (e - b) // 1000), min(nts, (e - b) // 1000 - 1))))
      grid = [g for g in grid if b < g < e]
    slots = sorted(rng.sample(range(0, len(atoms) + 1), min(len(grid), len(atoms) + 1)))
    for off, (slot, ms) in enumerate(zip(slots, grid)):
      atoms.insert(slot + off, {"t": "ts", "ms": ms, "hours": cue["hours"] if cue["hours"] != "wide" else "always"})
  maxdepth = opts.get("maxdepth", 3)
  if rng.random() < opts.get("p_ruby_run", 0.08):
    # a ruby element over the longest run of plain text (several base / <rt> pairs become likely)
    best, start = (0, 0), None
    for k, a in enumerate(atoms + [{"t": "nl"}]):
      if a["t"] == "text":
        if start is None:
          start = k
      else:
        if start is not None and k - start > best[1] - best[0]:
          best = (start, k)
        start = None
    if best[1] - best[0] >= 3:
      node = _make_tag(rng, atoms[best[0]:best[1]], 0, maxdepth, False, 0.7, opts, force="ruby")
      if node is not None:
        atoms[best[0]:best[1]] = [node]
  body = _wrap(rng, atoms, 0, maxdepth, False, opts.get("p_tags", 0.7), opts)
  if opts.get("empty_tag", True) and rng.random() < 0.03:
    body.insert(rng.randrange(len(body) + 1), {"t": "tag", "name": rng.choice(["b", "i", "u", "c"]), "classes": [], "annot": None,
                                               "kids": [], "close": True})
  if opts.get("rt_outside", False) and rng.random() < 0.5:
    body.append({"t": "tag", "name": "rt", "classes": [], "annot": None, "kids": [_text(tok())], "close": True})
  cue["body"] = body
  # a timestamp inside ruby is kept out of the workload (abstention); _wrap never builds ruby around a ts
  return cue


def gen_block(rng, tok, kind):
  t = tok
  if kind == "note":
    form = rng.randrange(3)
    if form == 0:
      lines = ["NOTE " + t() + " " + t()]
    elif form == 1:
      lines = ["NOTE", t() + " " + t(), t()]
    else:
      lines = ["NOTE\t" + t(), t() + " <b>" + t() + "</b> &amp;"]
  elif kind == "style":
    lines = ["STYLE", "::cue(." + t() + ") {", "  color: red;", "}"] if rng.random() < 0.5 else \
            ["STYLE", "::cue { background-image: none; color: #" + "0f0" + " } /* " + t() + " */"]
  else:
    lines = ["REGION", "id:" + t(), "width:40%", "lines:3", "regionanchor:0%,100%", "viewportanchor:10%,90%", "scroll:up"]
  return {"k": kind, "lines": lines, "blanks": rng.choice([1, 1, 2])}


def gen_file(rng, opts=None):
  """Returns (text, ast).  opts: class switches, see gen_cue."""
  opts = opts or {}
  tok = _Tok("k")
  ntok = _Tok("n")
  f = {"bom": rng.random() < 0.03, "eol": rng.choice(["\n", "\n", "\r\n", "\r\n", "\r"]) if opts.get("cr", True)
       else rng.choice(["\n", "\r\n"]),
       "header": "WEBVTT" + rng.choice(["", "", "", " - " + ntok(), "\t" + ntok() + " file", " "]),
       "header_blanks": rng.choice([1, 1, 1, 2]), "items": [], "final_eols": rng.choice([0, 1, 1, 2, 3])}
  # blocks before the first cue: NOTE / STYLE / REGION; NOTE also between cues
  for _ in range(rng.choice([0, 0, 1, 2, 3])):
    f["items"].append(gen_block(rng, ntok, rng.choice(["note", "style", "region"])))
  ncues = rng.choice(opts.get("ncues", [1, 2, 3, 4, 5, 6, 8]))
  t = rng.choice(START_MS)
  pool_settings = [gen_settings(rng) for _ in range(2)]
  for _ in range(ncues):
    b = t + rng.choice(GAP_MS)
    e = b + rng.choice(DUR_MS)
    cue = gen_cue(rng, tok, b, e, opts)
    if rng.random() < 0.3:
      # repeat settings (possibly in another order) so that equal settings occur within one file
      s = copy.deepcopy(rng.choice(pool_settings))
      rng.shuffle(s)
      cue["settings"] = s
    f["items"].append(cue)
    t = e if rng.random() < 0.9 else b     # occasionally overlapping cues (begin times never decrease)
    if rng.random() < 0.2:
      f["items"].append(gen_block(rng, ntok, "note"))
  return render_file(f), f


def single_cue_file(cue, eol="\n"):
  c = copy.deepcopy(cue)
  return {"bom": False, "eol": eol, "header": "WEBVTT", "header_blanks": 1, "items": [c], "final_eols": 1}
