"""Structure-aware mutators for the robustness workload (C18). All operate on bytes and return bytes."""
import re

_TOKEN = re.compile(rb"\r\n|\n|\r|-->|</?[A-Za-z][^<>\s]*|[<>&;:.,=\"'/{}\[\]()#%]|\s+|[0-9]+|[^\s<>&;:.,=\"'/{}\[\]()#%0-9]+")
BOUNDARY_NUMS = [b"0", b"00", b"59", b"60", b"61", b"99", b"100", b"255", b"256", b"999", b"1000", b"2147483648", b"-1", b"1e9", b"00000000000000000001"]
SNIPPETS = [b"", b"\n", b"\n\n", b"\r", b"\x00", b"\xff\xfe", b"-->", b"<", b">", b"</b>", b"</i>", b"</span>", b"</p>", b"<rt>", b"</ruby>", b"<ruby>", b"&",
            b"&amp", b"&#x110000;", b"{", b"}", b"{b}", b"<00:00:05.000>", b"<c.>", b"<v>", b"<lang>", b"WEBVTT", b"NOTE", b"STYLE", b"REGION",
            b"00:00:00,000 --> 00:00:00,000", b"99:99:99,999 --> 00:00:00,000", b"\t", b" ", b"9420", b"942c", b"94ae", b"zzzz", b"94", b"00:00:00:00\t",
            b"begin=\"\"", b"region=\"nope\"", b"style=\"a b c\"", b"tts:color=\"\"", b"xml:space=\"x\"", b"timeContainer=\"seq\"", b"tts:ruby=\"text\"",
            b"tts:direction=\"sideways\"", b"tts:extent=\"auto\"", b"tts:textShadow=\"1px\"", b"ttp:frameRate=\"0\"", b"ttp:cellResolution=\"0 0\"",
            b"<set/>", b"<br/>", b"<p/>", b"<div/>", b"<span/>", b"<region/>", b"<style/>", b"<initial/>", b"<body/>", b"<tt/>"]


def tokens(data: bytes):
  return _TOKEN.findall(data) if data else []


def mutate_text(rng, data: bytes, n=None) -> bytes:
  """Applies 1-3 token-level mutations."""
  toks = tokens(data)
  for _ in range(n or rng.choice([1, 1, 2, 3])):
    if not toks:
      toks = [rng.choice(SNIPPETS)]
      continue
    op = rng.choice(["truncate", "delete", "duplicate", "swap", "number", "insert", "replace", "delete-run", "case", "truncate-head"])
    i = rng.randrange(len(toks))
    if op == "truncate":
      toks = toks[:i]
    elif op == "truncate-head":
      toks = toks[i:]
    elif op == "delete":
      del toks[i]
    elif op == "delete-run":
      del toks[i:i + rng.choice([2, 3, 5, 10])]
    elif op == "duplicate":
      toks.insert(i, toks[i])
    elif op == "swap":
      j = rng.randrange(len(toks))
      toks[i], toks[j] = toks[j], toks[i]
    elif op == "number":
      nums = [k for k, t in enumerate(toks) if t.isdigit()]
      if nums:
        toks[rng.choice(nums)] = rng.choice(BOUNDARY_NUMS)
    elif op == "insert":
      toks.insert(i, rng.choice(SNIPPETS))
    elif op == "replace":
      toks[i] = rng.choice(SNIPPETS)
    elif op == "case":
      toks[i] = toks[i].swapcase()
  return b"".join(toks)


def mutate_bytes(rng, data: bytes, lo=0, hi=None) -> bytes:
  """Byte-level mutation inside [lo, hi): random bytes, boundary bytes, block delete / duplicate."""
  b = bytearray(data)
  hi = len(b) if hi is None else min(hi, len(b))
  if hi <= lo:
    return bytes(b)
  for _ in range(rng.choice([1, 2, 4, 8])):
    i = rng.randrange(lo, hi)
    op = rng.choice(["rand", "rand", "boundary", "zero", "ff"])
    b[i] = {"rand": rng.randrange(256), "boundary": rng.choice([0x00, 0x0a, 0x20, 0x7f, 0x80, 0x8a, 0x8f, 0xc1, 0xcf, 0xfe, 0xff]), "zero": 0, "ff": 0xff}[op]
  return bytes(b)


def mutate_stl(rng, data: bytes) -> bytes:
  """GSI field corruption, TTI block surgery, random bytes in text fields, truncation."""
  op = rng.choice(["gsi", "gsi", "gsi-boundary", "gsi-boundary", "tf", "tf", "tti-header", "truncate", "drop-block", "dup-block", "short-block", "empty"])
  if op == "gsi-boundary" and len(data) >= 1024:
    # a numeric GSI field set to a boundary value: zero, blank, all nines
    lo, hi = rng.choice([(238, 243), (238, 243), (238, 243), (243, 248), (248, 251), (251, 253), (253, 255), (256, 264), (264, 272), (14, 16), (12, 14)])
    fill = rng.choice([b"0", b"0", b" ", b"9"])
    return data[:lo] + fill * (hi - lo) + data[hi:]
  if op == "empty":
    return rng.choice([b"", data[:1024], data[:100], data[:1024 + 64]])
  if op == "gsi":
    # fields: DFC 3-11, DSC 11, CCT 12-14, LC 14-16, TNB 238-243, TNS 243-248, MNC 251-253, MNR 253-255, TCS 255, TCP 256-264, TCF 264-272
    lo, hi = rng.choice([(3, 11), (11, 12), (12, 14), (14, 16), (238, 243), (243, 248), (251, 253), (253, 255), (255, 256), (256, 264), (264, 272)])
    return mutate_bytes(rng, data, lo, hi)
  nblocks = max(0, (len(data) - 1024) // 128)
  if nblocks == 0:
    return mutate_bytes(rng, data)
  k = rng.randrange(nblocks)
  off = 1024 + 128 * k
  if op == "tf":
    return mutate_bytes(rng, data, off + 16, off + 128)
  if op == "tti-header":
    return mutate_bytes(rng, data, off, off + 16)
  if op == "truncate":
    return data[:rng.randrange(1024, len(data))]
  if op == "drop-block":
    return data[:off] + data[off + 128:]
  if op == "dup-block":
    return data[:off + 128] + data[off:off + 128] + data[off + 128:]
  return data[:off + rng.randrange(1, 128)]
