"""Seeded generator of TTML2 / IMSC 1.1 text-profile XML documents and a single-attribute corruptor (C04, DESIGN.md 4 C04).

Documents are small trees of `N` nodes serialised by `to_xml`.  Every style / parameter attribute VALUE is drawn from the
tables of vt/ref/ttml.py (VALUES: xml string -> plain value, written from the TTML2 value grammars); time expressions are
built here in every TTML2 syntax and evaluated with the reference parser only to steer the generator (end after begin).

What is deliberately NOT generated (abstentions of the property, see vt/props/c04.py): `set` and `br` as direct children of
a sequential container, frames without ttp:frameRate, ticks without ttp:tickRate, several nested styles / initial elements
for one property, end < begin where the implicit duration of the container would depend on it, dangling region references,
tts:ruby through referential styling, text alignment keywords left / right, duplicate xml:id values."""
from __future__ import annotations

import copy
import random
import typing
from fractions import Fraction

from vt.ref import ttml as R

NSDECL = [("xmlns", R.NS_TT), ("xmlns:ttp", R.NS_TTP), ("xmlns:tts", R.NS_TTS), ("xmlns:ttm", R.NS_TTM), ("xmlns:ittp", R.NS_ITTP),
          ("xmlns:itts", R.NS_ITTS), ("xmlns:ebutts", R.NS_EBUTTS), ("xmlns:foo", "urn:example:foo")]


class N:
  """XML element: tag and attribute names are prefixed names ('p', 'tts:color', 'ttm:title')."""
  __slots__ = ("tag", "attrs", "kids")

  def __init__(self, tag, attrs=None, kids=None):
    self.tag = tag
    self.attrs: typing.List[list] = [list(a) for a in (attrs or [])]
    self.kids: typing.List[typing.Union[str, "N"]] = list(kids or [])

  def set(self, name, value):
    for a in self.attrs:
      if a[0] == name:
        a[1] = value
        return
    self.attrs.append([name, value])

  def get(self, name):
    for a in self.attrs:
      if a[0] == name:
        return a[1]
    return None

  def walk(self):
    yield self
    for k in self.kids:
      if isinstance(k, N):
        yield from k.walk()


def esc_text(s):
  return s.replace("&", "&amp;").replace("<", "&lt;").replace(">", "&gt;")


def esc_attr(s):
  return esc_text(s).replace('"', "&quot;").replace("\n", "&#10;").replace("\t", "&#9;")


BLOCK = {"tt", "head", "styling", "layout", "region", "body", "div", "metadata"}


def to_xml(root: N, pretty=False) -> str:
  out = ['<?xml version="1.0" encoding="UTF-8"?>\n']

  def emit(n: N, depth, top=False):
    out.append("<" + n.tag)
    if top:
      for k, v in NSDECL:
        out.append(f' {k}="{v}"')
    for k, v in n.attrs:
      out.append(f' {k}="{esc_attr(v)}"')
    if not n.kids:
      out.append("/>")
      return
    out.append(">")
    block = pretty and n.tag in BLOCK
    for k in n.kids:
      if isinstance(k, str):
        out.append(esc_text(k))
      else:
        if block:
          out.append("\n" + "  " * (depth + 1))
        emit(k, depth + 1)
    if block:
      out.append("\n" + "  " * depth)
    out.append("</" + n.tag + ">")
  emit(root, 0, True)
  out.append("\n")
  return "".join(out)


# ------------------------------------------------------------------------------------------------------------------
FRAME_RATES = [(24, None), (25, None), (30, None), (50, None), (60, None), (30, "1000 1001"), (24, "1000 1001"), (120, None), (240, None), (120, "1000 1001")]
TICK_RATES = [1, 1000, 90000, 10000000]

ALL_Q = sorted(R.VALUES)
NAME_OF = {}
for _p, _ns in R.PREFIX.items():
  for _q in ALL_Q:
    if _q.startswith("{%s}" % _ns):
      NAME_OF[_q] = _p + ":" + _q.split("}")[1]
Q_OF = {v: k for k, v in NAME_OF.items()}

VISIBLE_INLINE = ["tts:color", "tts:backgroundColor", "tts:fontSize", "tts:fontStyle", "tts:fontWeight", "tts:textDecoration",
                  "tts:fontFamily", "tts:opacity", "tts:visibility", "tts:textOutline", "tts:textShadow", "tts:textEmphasis",
                  "tts:wrapOption", "tts:unicodeBidi", "tts:direction", "tts:textCombine"]
P_PROPS = ["tts:textAlign", "tts:lineHeight", "ebutts:linePadding", "ebutts:multiRowAlign", "itts:fillLineGap", "tts:rubyReserve", "tts:shear"]
REGION_PROPS = ["tts:extent", "tts:origin", "tts:position", "tts:displayAlign", "tts:padding", "tts:writingMode", "tts:showBackground",
                "tts:overflow", "tts:disparity", "tts:luminanceGain", "tts:backgroundColor", "tts:opacity", "tts:display"]
RUBY_PROPS = ["tts:rubyAlign", "tts:rubyPosition"]
ALL_NAMES = sorted(Q_OF)


class Gen:
  def __init__(self, rng: random.Random, **over):
    self.rng = rng
    self.n_elems = 0
    self.max_elems = 60
    self.tok = 0
    self.classes: typing.Set[str] = set()
    self.p = dict(p_seq=0.22, p_time=0.55, p_style_ref=0.3, p_inline=0.3, p_set=0.12, p_pretty=0.5, p_ws_mixed=0.3)
    self.p.update(over)
    self.env = R.TimeEnv()
    self.px = False
    self.style_ids: typing.List[str] = []
    self.style_props: typing.Dict[str, typing.List[str]] = {}
    self.style_refs: typing.Dict[str, typing.List[str]] = {}
    self.region_ids: typing.List[str] = []
    self.pretty = False
    self.ws_mixed = False

  # -- values ---------------------------------------------------------------------------------------------------------
  def value(self, name) -> str:
    entries = R.VALUES[Q_OF[name]]
    for _ in range(20):
      s, v, _t = self.rng.choice(entries)
      if self.px or not R.plain_uses_px(v):
        return s
    return next(s for s, v, _t in entries if not R.plain_uses_px(v))

  def style_attrs(self, pool, n) -> typing.List[list]:
    names = []
    for _ in range(n):
      nm = self.rng.choice(pool) if self.rng.random() < 0.8 else self.rng.choice(ALL_NAMES)
      if nm not in names:
        names.append(nm)
    out = []
    for nm in names:
      v = self.value(nm)
      if nm == "tts:display" and v == "none" and self.rng.random() < 0.7:
        v = "auto"
      out.append([nm, v])
    return out

  # -- time expressions -----------------------------------------------------------------------------------------------
  def time_expr(self) -> str:
    rng = self.rng
    forms = ["clock", "clock-fraction", "s", "s", "ms", "m", "h"]
    if self.env.frame_rate is not None or getattr(self, "default_fps", False):
      forms += ["clock-frames", "f", "f"]
    if self.env.tick_rate is not None:
      forms += ["t", "t"]
    f = rng.choice(forms)
    sec = rng.choice([0, 1, 1, 2, 2, 3, 4, 5, 6, 8, 10, 12])
    if f == "clock":
      s = rng.choice([sec, sec, 65, 61])
      if rng.random() < 0.03:
        return rng.choice(["100:00:00", "01:00:00", "123:59:59"])      # hours may have more than two digits
      return "%02d:%02d:%02d" % (s // 3600, (s // 60) % 60, s % 60)
    if f == "clock-fraction":
      return "00:00:%02d.%s" % (sec, rng.choice(["5", "25", "500", "040", "001", "999", "3333", "0", "75"]))
    if f == "clock-frames":
      # (the frames field has two digits or more: at 120 / 240 fps the upper part of the range has three)
      nom = self.env.nominal
      return "00:00:%02d:%02d" % (sec, rng.randrange(0, nom) if nom <= 100 or rng.random() < 0.4 else rng.randrange(100, nom))
    if f == "s":
      return rng.choice(["%ds" % sec, "%d.5s" % sec, "%d.25s" % sec, "0.%ds" % rng.randrange(1, 10), "%d.040s" % sec, "%d.0s" % sec,
                         "%d.123456789s" % sec, "%d.0000001s" % sec])
    if f == "ms":
      return rng.choice(["%dms" % (sec * 1000), "%dms" % (sec * 1000 + 500), "40ms", "%d.5ms" % (sec * 1000 + 33), "999ms", "1ms"])
    if f == "m":
      return rng.choice(["0.05m", "0.025m", "0.1m", "0.5m", "1m", "0.0125m"])
    if f == "h":
      return rng.choice(["0.001h", "0.0005h", "0.002h", "0.0025h"])
    if f == "f":
      return rng.choice(["%df" % rng.choice([0, 1, 12, 24, 25, 30, 48, 50, 60, 75, 100, 150, 240]), "12.5f", "%d.25f" % rng.randrange(0, 90)])
    tr = self.env.tick_rate
    if tr == 1:
      return rng.choice(["%dt" % sec, "2.5t", "0.75t", "1t"])
    k = rng.choice([sec * tr, sec * tr + tr // 2, tr // 4, 3 * tr // 2, sec * tr + tr // 1000 if tr >= 1000 else sec * tr])
    return rng.choice(["%dt" % k, "%dt" % k, "%d.5t" % k])

  def val(self, expr) -> Fraction:
    return R.parse_time(expr, self.env)

  def time_after(self, lo: Fraction) -> str:
    """An expression whose value exceeds `lo`."""
    for _ in range(12):
      e = self.time_expr()
      if self.val(e) > lo:
        return e
    return "%ds" % (int(lo) + self.rng.choice([1, 2, 3]))

  def timing(self, n: N, want_end=False, allow_inverted=False, p=None):
    """begin / dur / end in every combination."""
    rng = self.rng
    p = self.p["p_time"] if p is None else p
    if not want_end and rng.random() >= p:
      return
    combos = ["b", "e", "d", "be", "be", "bd", "bd", "de", "bde"]
    if want_end:
      combos = ["e", "d", "d", "be", "bd", "bd", "de", "bde"]
    c = rng.choice(combos)
    b = Fraction(0)
    if "b" in c:
      e = self.time_expr()
      if self.val(e) > 12:
        e = "%ds" % rng.choice([1, 2, 3])
      n.set("begin", e)
      b = self.val(e)
    if "d" in c:
      e = self.time_expr()
      if self.val(e) == 0 and rng.random() < 0.85:
        e = self.time_after(Fraction(0))
      n.set("dur", e)
    if "e" in c:
      if allow_inverted and rng.random() < 0.08:
        n.set("end", self.time_expr())        # may be <= begin: empty interval
        self.classes.add("gen:end-not-after-begin")
      elif rng.random() < 0.05:
        n.set("end", n.get("begin") or "0s")  # end == begin: zero-length
        self.classes.add("gen:zero-length")
      else:
        n.set("end", self.time_after(b))
    self.classes.add("gen:timing-" + c)

  # -- pieces ---------------------------------------------------------------------------------------------------------
  def count(self) -> bool:
    self.n_elems += 1
    return self.n_elems <= self.max_elems

  def room(self, k=1):
    return self.n_elems + k <= self.max_elems

  def common(self, n: N, pool, p_scale=1.0):
    rng = self.rng
    if rng.random() < 0.08:
      n.set("xml:lang", rng.choice(["en", "fr", "ja", "de-CH", ""]))
    if rng.random() < 0.08:
      n.set("xml:space", rng.choice(["preserve", "preserve", "default"]))
    if rng.random() < 0.3:
      n.set("xml:id", "e%d" % self.n_elems)
    refs = []
    if self.style_ids and rng.random() < self.p["p_style_ref"] * p_scale:
      k = rng.choice([1, 1, 2, 2, 3])
      refs = [rng.choice(self.style_ids) for _ in range(k)]
      if rng.random() < 0.1:
        refs.insert(rng.randrange(len(refs) + 1), "sX")            # missing reference
        self.classes.add("gen:style-missing-ref")
      if len(refs) > 1 and rng.random() < 0.12:
        refs.append(refs[0])                                        # the same style referenced twice
        self.classes.add("gen:style-dup-ref")
      n.set("style", " ".join(refs))
    if rng.random() < self.p["p_inline"] * p_scale:
      pool2 = list(pool)
      # favour properties that the referenced styles also set (inline must win)
      for r in refs:
        pool2 += self.style_props.get(r, []) * 3
      for k, v in self.style_attrs(pool2, rng.choice([1, 1, 2, 3])):
        n.set(k, v)
    return refs

  def region_ref(self, n: N, p):
    if self.region_ids and self.rng.random() < p:
      n.set("region", self.rng.choice(self.region_ids))

  def sets(self, n: N, pool, seq_parent_of_sets: bool):
    """`set` children (only in parallel containers)."""
    if seq_parent_of_sets:
      return
    rng = self.rng
    if rng.random() < self.p["p_set"]:
      for _ in range(rng.choice([1, 1, 2])):
        if not self.room():
          break
        self.count()
        s = N("set")
        nm = rng.choice(pool) if rng.random() < 0.8 else rng.choice(ALL_NAMES)
        v = self.value(nm)
        self.timing(s, p=0.85)
        s.set(nm, v)
        n.kids.append(s)
        self.classes.add("gen:set")

  def metadata(self, n: N):
    if self.rng.random() < 0.04 and self.room(2):
      self.count()
      self.count()
      n.kids.append(N("metadata", kids=[N("ttm:title", kids=["a title"])]))
      self.classes.add("gen:metadata")

  def text(self) -> str:
    rng = self.rng
    toks = []
    for _ in range(rng.choice([1, 1, 2, 3])):
      self.tok += 1
      toks.append("k%d" % self.tok)
    if rng.random() < 0.03:
      toks[-1] += rng.choice(["&", "<", "R&D", "a>b"])
    if self.ws_mixed and rng.random() < 0.5:
      sep = rng.choice([" ", "  ", "\t", "\n", " \n ", "   "])
      return rng.choice(["", " ", "\n", "  "]) + sep.join(toks) + rng.choice(["", " ", "\n ", "  "])
    return " ".join(toks)

  def ws(self, n: N):
    """pretty-printing white space as character content of a mixed-content element"""
    if self.ws_mixed and self.rng.random() < 0.5:
      n.kids.append(self.rng.choice(["\n      ", " ", "\n", "  \n  "]))
      self.classes.add("gen:ws-only-text")

  def is_seq(self, n: N, p=None) -> bool:
    x = self.rng.random()
    p = self.p["p_seq"] if p is None else p
    if x < p:
      n.set("timeContainer", "seq")
      return True
    if x < p + 0.06:
      n.set("timeContainer", "par")
    return False

  def span(self, depth, in_seq: bool, ruby_part=False) -> N:
    rng = self.rng
    self.count()
    n = N("span")
    self.common(n, VISIBLE_INLINE)
    self.timing(n, want_end=in_seq and rng.random() < 0.85, allow_inverted=False, p=self.p["p_time"] * 0.7)
    self.region_ref(n, 0.04)
    seq = (not ruby_part) and self.is_seq(n, self.p["p_seq"] * 0.6)
    self.sets(n, VISIBLE_INLINE, seq)
    k = rng.choice([1, 1, 1, 2, 3])
    for _ in range(k):
      x = rng.random()
      if x < 0.6 or depth >= 2 or not self.room():
        n.kids.append(self.text())
      elif x < 0.85 or seq or ruby_part:
        n.kids.append(self.span(depth + 1, seq, ruby_part))
      else:
        n.kids.append(self.br())
    if seq and not any(isinstance(c, N) and c.tag == "span" for c in n.kids) and self.room():
      n.kids.append(self.span(depth + 1, True))
    return n

  def br(self) -> N:
    self.count()
    n = N("br")
    if self.rng.random() < 0.15:
      n.set("tts:color", self.value("tts:color"))
    if self.style_ids and self.rng.random() < 0.1:
      n.set("style", self.rng.choice(self.style_ids))
    self.classes.add("gen:br")
    return n

  def ruby_part(self, kind, timed=True) -> N:
    rng = self.rng
    self.count()
    n = N("span", [["tts:ruby", kind]])
    pool = VISIBLE_INLINE + (RUBY_PROPS if kind in ("text", "textContainer", "container") else [])
    self.common(n, pool, 0.8)
    if timed and rng.random() < 0.15:
      b = self.time_expr()
      if self.val(b) > 8:
        b = "1s"
      n.set("begin", b)
      n.set("end", self.time_after(self.val(b)))
    if kind in ("base", "text", "delimiter"):
      if kind == "delimiter":
        n.kids.append(rng.choice(["(", ")", "[", "/"]))
      else:
        n.kids.append(self.text())
        if rng.random() < 0.2 and self.room():
          n.kids.append(self.span(2, False, ruby_part=True))
    return n

  def ruby(self) -> N:
    rng = self.rng
    self.classes.add("gen:ruby")
    c = self.ruby_part("container")
    pat = rng.choice(["bt", "bptp", "cc", "ccc"])
    pp = self.pretty and rng.random() < 0.3

    def add(parent, k):
      if pp:
        parent.kids.append("\n        ")
        self.classes.add("gen:ws-in-ruby-container")
      parent.kids.append(k)
    if pat == "bt":
      add(c, self.ruby_part("base"))
      add(c, self.ruby_part("text"))
    elif pat == "bptp":
      for k in ("base", "delimiter", "text", "delimiter"):
        add(c, self.ruby_part(k))
    else:
      rbc = self.ruby_part("baseContainer")
      for _ in range(rng.choice([1, 1, 2])):
        add(rbc, self.ruby_part("base"))
      add(c, rbc)
      for _ in range(1 if pat == "cc" else 2):
        rtc = self.ruby_part("textContainer")
        rts = [self.ruby_part("text") for _ in range(rng.choice([1, 1, 2]))]
        if rng.random() < 0.3:
          rts = [self.ruby_part("delimiter")] + rts + [self.ruby_part("delimiter")]
        for r in rts:
          add(rtc, r)
        add(c, rtc)
    return c

  def para(self, in_seq: bool, offset_implicit=False) -> N:
    rng = self.rng
    self.count()
    n = N("p")
    self.common(n, VISIBLE_INLINE + P_PROPS)
    self.region_ref(n, 0.3)
    if offset_implicit:
      # offset container whose end is implicit: begin only, children with definite ends, no character content
      b = self.time_expr()
      if self.val(b) == 0 or self.val(b) > 12:
        b = rng.choice(["10s", "00:00:05", "2.5s", "1500ms"])
      n.set("begin", b)
      seq = self.is_seq(n)
      for _ in range(rng.choice([1, 2, 3])):
        if self.room(2):
          s = self.span(1, seq)
          if s.get("dur") is None and s.get("end") is None:
            s.set("dur", self.time_after(Fraction(0)))
          if s.get("end") is not None and s.get("begin") is not None and self.val(s.get("end")) <= self.val(s.get("begin")):
            s.set("end", self.time_after(self.val(s.get("begin"))))
          n.kids.append(s)
      self.classes.add("gen:offset-implicit")
      return n
    self.timing(n, want_end=in_seq and rng.random() < 0.85, allow_inverted=False)
    seq = self.is_seq(n)
    self.metadata(n)
    self.sets(n, VISIBLE_INLINE + P_PROPS, seq)
    self.ws(n)
    for _ in range(rng.choice([1, 1, 2, 3, 4])):
      if not self.room(2):
        break
      x = rng.random()
      if x < 0.3:
        n.kids.append(self.text())
      elif x < 0.75 or seq:
        n.kids.append(self.span(0, seq))
      elif x < 0.87 and self.room(8):
        n.kids.append(self.ruby())
      else:
        n.kids.append(self.br())
      self.ws(n)
    if not n.kids:
      n.kids.append(self.text())
    return n

  def div(self, depth, in_seq: bool) -> N:
    rng = self.rng
    self.count()
    n = N("div")
    self.common(n, VISIBLE_INLINE + P_PROPS)
    self.region_ref(n, 0.25)
    offset_implicit = rng.random() < 0.12
    if offset_implicit:
      n.set("begin", rng.choice(["5s", "00:00:02.500", "3s", "0.05m"]))
    else:
      self.timing(n, want_end=in_seq and rng.random() < 0.6)
    seq = self.is_seq(n)
    self.metadata(n)
    self.sets(n, VISIBLE_INLINE, seq)
    for _ in range(rng.choice([1, 1, 2, 3])):
      if not self.room(3):
        break
      if depth < 2 and rng.random() < 0.25:
        n.kids.append(self.div(depth + 1, seq))
      else:
        n.kids.append(self.para(seq, offset_implicit=offset_implicit or rng.random() < 0.15))
    return n

  def style_graph(self, styling: N):
    rng = self.rng
    k = rng.choice([0, 1, 2, 3, 4, 5, 6])
    ids = ["s%d" % (i + 1) for i in range(k)]
    order = list(ids)
    rng.shuffle(order)                    # a style may reference only styles later in `order`: acyclic
    depth = {}
    refs_of = {}
    for sid in reversed(order):
      later = order[order.index(sid) + 1:]
      refs = []
      if later and rng.random() < 0.6:
        for _ in range(rng.choice([1, 1, 2])):
          r = rng.choice(later)
          if depth[r] < 4 and r not in refs:
            refs.append(r)
      depth[sid] = 1 + max([depth[r] for r in refs], default=0)
      refs_of[sid] = refs
    # diamond: a -> b, c ; b -> d ; c -> d
    reach = {}

    def closure(s):
      if s not in reach:
        out = set()
        for r in refs_of[s]:
          out |= {r} | closure(r)
        reach[s] = out
      return reach[s]
    for sid in ids:
      rs = refs_of[sid]
      if len(rs) == 2 and ({rs[0]} | closure(rs[0])) & ({rs[1]} | closure(rs[1])):
        self.classes.add("gen:style-diamond")
      if depth[sid] >= 2:
        self.classes.add("gen:style-chain-%d" % depth[sid])
    loop = k >= 2 and rng.random() < 0.02
    for sid in ids:
      self.count()
      st = N("style", [["xml:id", sid]])
      attrs = self.style_attrs(VISIBLE_INLINE + P_PROPS + REGION_PROPS, rng.choice([1, 2, 2, 3]))
      # overlapping property sets make precedence observable
      if rng.random() < 0.5:
        attrs.append(["tts:color", self.value("tts:color")])
      seen = set()
      for a in attrs:
        if a[0] not in seen:
          seen.add(a[0])
          st.set(a[0], a[1])
      refs = list(refs_of[sid])
      if rng.random() < 0.06:
        refs.append("sX")
      if loop and sid == order[-1]:
        refs.append(order[0])
        self.classes.add("gen:style-loop")
      if refs:
        st.set("style", " ".join(refs))
      self.style_props[sid] = sorted(seen)
      self.style_refs[sid] = refs
      styling.kids.append(st)
    self.style_ids = ids

  def closure_props(self, sid, seen=None):
    """properties set by a style or by any style it references (transitively)"""
    seen = set() if seen is None else seen
    if sid in seen or sid not in self.style_props:
      return set()
    seen.add(sid)
    out = set(self.style_props[sid])
    for r in self.style_refs.get(sid, []):
      out |= self.closure_props(r, seen)
    return out

  def region(self, i) -> N:
    rng = self.rng
    self.count()
    n = N("region", [["xml:id", "r%d" % i]])
    if rng.random() < 0.08:
      n.set("xml:lang", rng.choice(["en", "ja"]))
    refs = []
    if self.style_ids and rng.random() < 0.4:
      refs = [rng.choice(self.style_ids) for _ in range(rng.choice([1, 2]))]
      n.set("style", " ".join(refs))
    for nm in ("tts:extent", "tts:origin"):
      if rng.random() < 0.6:
        n.set(nm, self.value(nm))
    if rng.random() < 0.2:
      n.set("tts:position", self.value("tts:position"))
    for k, v in self.style_attrs(REGION_PROPS + VISIBLE_INLINE[:4], rng.choice([0, 1, 2, 3])):
      n.set(k, v)
    if rng.random() < 0.35:
      self.timing(n, p=1.0)
      self.classes.add("gen:region-timing")
    self.sets(n, REGION_PROPS, False)
    # nested styles: disjoint property sets; favour properties also given inline / by reference (precedence)
    if rng.random() < 0.35:
      used = set()
      for _ in range(rng.choice([1, 1, 2])):
        if not self.room():
          break
        self.count()
        st = N("style")
        pool = list(REGION_PROPS)
        for r in refs:
          pool += self.style_props.get(r, []) * 3
        pool += [a[0] for a in n.attrs if a[0] in Q_OF] * 2
        for k, v in self.style_attrs(pool, rng.choice([1, 2])):
          if k not in used:
            used.add(k)
            st.set(k, v)
        if st.attrs:
          if self.style_ids and rng.random() < 0.1:
            # a nested style element is a style element and may itself reference styles (chained referential styling)
            own_names = {a[0] for a in st.attrs}
            cand = [sid for sid in self.style_ids if not ((self.closure_props(sid) & used) - own_names)]
            if cand:
              sid = rng.choice(cand)
              st.set("style", sid)
              used |= set(self.closure_props(sid))
              self.classes.add("gen:nested-style-with-refs")
          n.kids.append(st)
          self.classes.add("gen:nested-style")
    return n

  def doc(self) -> N:
    rng = self.rng
    self.pretty = rng.random() < self.p["p_pretty"]
    self.ws_mixed = rng.random() < self.p["p_ws_mixed"]
    root = N("tt", [["xml:lang", rng.choice(["en", "en", "fr-CA", ""])]])
    self.count()
    if rng.random() < 0.12:
      root.set("xml:space", rng.choice(["preserve", "default"]))
    if rng.random() < 0.4:
      root.set("ttp:cellResolution", rng.choice(["32 15", "40 23", "50 19", "38 12", "64 30"]))
    if rng.random() < 0.5:
      root.set("tts:extent", rng.choice(["1920px 1080px", "1280px 720px", "640px 480px", "720px 576px"]))
      self.px = True
    if rng.random() < 0.65:
      fr, mult = rng.choice(FRAME_RATES)
      root.set("ttp:frameRate", str(fr))
      self.env.frame_rate = fr
      if mult is not None:
        root.set("ttp:frameRateMultiplier", mult)
        self.env.multiplier = Fraction(1000, 1001)
      self.classes.add("gen:fps-%d%s" % (fr, "-ntsc" if mult else ""))
    elif rng.random() < 0.45:
      # no ttp:frameRate: the default of 30 applies to frame expressions, and a multiplier given alone still applies
      self.default_fps = True
      if rng.random() < 0.6:
        root.set("ttp:frameRateMultiplier", "1000 1001")
        self.env.multiplier = Fraction(1000, 1001)
      self.classes.add("gen:fps-default%s" % ("-ntsc" if self.env.multiplier != 1 else ""))
    if rng.random() < 0.55:
      tr = rng.choice(TICK_RATES)
      root.set("ttp:tickRate", str(tr))
      self.env.tick_rate = tr
      self.classes.add("gen:tickrate-%d" % tr)
    if rng.random() < 0.15:
      root.set("ittp:activeArea", rng.choice(["10% 10% 80% 80%", "0% 12.5% 100% 75%", "5.5% 0% 89% 100%"]))
    if rng.random() < 0.2:
      root.set(rng.choice(["ittp:aspectRatio", "ttp:displayAspectRatio"]), rng.choice(["16 9", "4 3", "64 27"]))
    head = N("head")
    self.count()
    if rng.random() < 0.06:
      head.set("xml:lang", rng.choice(["de", "ja"]))
    if rng.random() < 0.04:
      head.set("xml:space", "preserve")
    styling = N("styling")
    self.count()
    if rng.random() < 0.35:
      used = set()
      for _ in range(rng.choice([1, 1, 2, 3])):
        self.count()
        ini = N("initial")
        for k, v in self.style_attrs(VISIBLE_INLINE + P_PROPS + REGION_PROPS, rng.choice([1, 1, 2])):
          if k not in used and not (k == "tts:display"):
            used.add(k)
            ini.set(k, v)
        if ini.attrs:
          styling.kids.append(ini)
          self.classes.add("gen:initial")
    self.style_graph(styling)
    self.metadata(head)
    if styling.kids or rng.random() < 0.3:
      head.kids.append(styling)
    layout = N("layout")
    self.count()
    if rng.random() < 0.06:
      layout.set("xml:lang", rng.choice(["es", "zh-Hant"]))
    nreg = rng.choice([0, 1, 1, 2, 2, 3])
    for i in range(nreg):
      layout.kids.append(self.region(i + 1))
    self.region_ids = ["r%d" % (i + 1) for i in range(nreg)]
    if layout.kids or rng.random() < 0.3:
      head.kids.append(layout)
    if head.kids or rng.random() < 0.5:
      root.kids.append(head)
    if rng.random() < 0.97:
      body = N("body")
      self.count()
      self.common(body, VISIBLE_INLINE)
      self.region_ref(body, 0.12)
      if rng.random() < 0.3:
        self.timing(body, allow_inverted=True, p=1.0)
      seq = self.is_seq(body)
      self.metadata(body)
      self.sets(body, VISIBLE_INLINE, seq)
      for _ in range(rng.choice([1, 1, 2, 3])):
        if self.room(4):
          body.kids.append(self.div(0, seq))
      root.kids.append(body)
    return root


def generate(rng: random.Random, **over):
  """-> (xml text, N tree, pretty flag, generator classes)"""
  g = Gen(rng, **over)
  root = g.doc()
  return to_xml(root, g.pretty), root, g.pretty, g.classes


# ------------------------------------------------------------------------------------------------------------------
# corruptor
# ------------------------------------------------------------------------------------------------------------------
ENUM_NAMES = {"tts:direction", "tts:display", "tts:displayAlign", "tts:fontStyle", "tts:fontWeight", "ebutts:multiRowAlign", "tts:overflow",
              "tts:rubyAlign", "tts:rubyPosition", "tts:showBackground", "tts:textAlign", "tts:textCombine", "tts:unicodeBidi",
              "tts:visibility", "tts:wrapOption", "tts:writingMode"}

MALFORMED = {
  "time": [("1x", "bad-metric"), ("10fx", "junk-after-metric"), ("5sx", "junk-after-metric"), ("abc", "not-a-time"), ("", "empty"),
           ("-1s", "negative"), ("1.s", "bad-number"), ("1 s", "inner-space"), ("10", "no-metric"), ("1:2:3", "short-fields"),
           ("00:00:01:", "dangling-separator"), ("00:00:01.", "dangling-separator"), ("1,5s", "comma"), ("00:00:01.5x", "junk-after-clock"),
           ("x1s", "junk-before")],
  "color": [("#12", "short-hex"), ("#12345", "short-hex"), ("#ff00001", "long-hex"), ("#ff0000ff00", "long-hex"), ("#gggggg", "non-hex"),
            ("rgb(1,2)", "too-few-components"), ("rgba(1,2,3)", "too-few-components"), ("rgb(1,2,3", "unbalanced"),
            ("rgb(1,2,3)x", "trailing-junk"), ("notacolor", "unknown-token"), ("", "empty"), ("rgb(a,b,c)", "non-numeric")],
  "enum": [("sideways", "unknown-token"), ("", "empty"), ("before after", "two-tokens")],
  "length": [("1", "no-unit"), ("px", "no-number"), ("1 px", "inner-space"), ("1pt", "unknown-unit"), ("abc", "not-a-length"), ("", "empty"),
             ("1e2px", "exponent"), ("1px 2px 3px", "too-many-components"), ("1.px", "bad-number"), ("--1px", "double-sign")],
  "extent": [("10px", "one-component"), ("10px 10px 10px", "too-many-components"), ("a b", "not-a-length"), ("10 10", "no-unit"), ("", "empty"),
             ("autox", "unknown-token"), ("10px,10px", "comma")],
  "origin": [("10px", "one-component"), ("10px 10px 10px", "too-many-components"), ("a b", "not-a-length"), ("10 10", "no-unit"), ("", "empty"),
             ("autoo", "unknown-token")],
  "padding": [("1px 2px 3px 4px 5px", "too-many-components"), ("1", "no-unit"), ("", "empty"), ("a", "not-a-length"), ("1px,2px", "comma")],
  "position": [("foo", "unknown-token"), ("10", "no-unit"), ("", "empty"), ("left 10% top 10% 10%", "too-many-components"),
               ("left right", "same-axis-twice")],
  "number": [("abc", "not-a-number"), ("", "empty"), ("1,5", "comma"), ("0.5x", "trailing-junk"), ("nan", "non-finite"), ("inf", "non-finite")],
  "shear": [("10", "no-unit"), ("10px", "wrong-unit"), ("abc%", "not-a-number"), ("", "empty")],
  "textDecoration": [("blink", "unknown-token"), ("underline blink", "known-plus-unknown-token"), ("", "empty")],
  "textEmphasis": [("foo", "unknown-token"), ("filled circle bogus", "known-plus-unknown-token"), ("", "empty"), ("auto #12", "bad-colour")],
  "textOutline": [("red", "no-thickness"), ("1px 2px 3px", "too-many-components"), ("red 1", "no-unit"), ("", "empty"), ("1px red", "wrong-order")],
  "textShadow": [("1px", "one-length"), ("1px 1px 1px 1px 1px", "too-many-components"), ("red 1px 1px", "wrong-order"), ("", "empty"),
                 ("1px 1px,", "dangling-comma"), ("1px 1px foo", "bad-colour")],
  "rubyReserve": [("inside", "unknown-token"), ("both 1", "no-unit"), ("", "empty"), ("both 1em 2em", "too-many-components")],
  "fontFamily": [("", "empty"), (",", "empty-item"), ("'unterminated", "unbalanced-quote")],
  "boolean": [("yes", "unknown-token"), ("TRUE", "wrong-case"), ("", "empty")],
  "ruby": [("foo", "unknown-token"), ("", "empty"), ("Container", "wrong-case")],
  "timeContainer": [("both", "unknown-token"), ("", "empty"), ("Seq", "wrong-case")],
  "space": [("foo", "unknown-token"), ("", "empty"), ("Preserve", "wrong-case")],
  "cellResolution": [("0 0", "zero"), ("32", "one-component"), ("a b", "non-numeric"), ("32 15 1", "too-many-components"), ("-1 2", "negative"),
                     ("", "empty"), ("32x15", "bad-separator")],
  "frameRate": [("0", "zero"), ("abc", "non-numeric"), ("-25", "negative"), ("25.5", "fraction"), ("", "empty"), ("25fps", "trailing-junk")],
  "frameRateMultiplier": [("1000", "one-component"), ("1000 0", "zero"), ("0 1001", "zero"), ("a b", "non-numeric"),
                          ("1000/1001", "bad-separator"), ("", "empty")],
  "tickRate": [("0", "zero"), ("abc", "non-numeric"), ("1.5", "fraction"), ("", "empty"), ("-1", "negative")],
  "ttExtent": [("10px", "one-component"), ("100% 100%", "wrong-unit"), ("abc def", "not-a-length"), ("1920 1080", "no-unit"), ("", "empty")],
  "activeArea": [("10% 10% 80%", "too-few-components"), ("10px 10px 80px 80px", "wrong-unit"), ("a b c d", "non-numeric"),
                 ("10% 10% 120% 80%", "out-of-range"), ("", "empty")],
  "aspectRatio": [("16", "one-component"), ("16 0", "zero"), ("0 9", "zero"), ("a b", "non-numeric"), ("16:9", "bad-separator"), ("", "empty")],
}

UNKNOWN_ATTRS = [("foo:bar", "1"), ("tts:unknownThing", "x"), ("ttp:unknownParam", "x"), ("unknownAttr", "x"), ("ttm:role", "caption"),
                 ("foo:begin", "1s"), ("tts:zIndex", "1")]


def attr_type(tag: str, name: str) -> typing.Optional[str]:
  if name in ("begin", "end", "dur"):
    return "time"
  if name == "timeContainer":
    return "timeContainer"
  if name == "xml:space":
    return "space"
  if name == "tts:ruby":
    return "ruby"
  if tag == "tt":
    return {"ttp:cellResolution": "cellResolution", "ttp:frameRate": "frameRate", "ttp:frameRateMultiplier": "frameRateMultiplier",
            "ttp:tickRate": "tickRate", "tts:extent": "ttExtent", "ittp:activeArea": "activeArea", "ittp:aspectRatio": "aspectRatio",
            "ttp:displayAspectRatio": "aspectRatio"}.get(name)
  if name in ("tts:color", "tts:backgroundColor"):
    return "color"
  if name in ENUM_NAMES:
    return "enum"
  if name in ("tts:fontSize", "tts:lineHeight", "tts:disparity", "ebutts:linePadding"):
    return "length"
  if name in ("tts:opacity", "tts:luminanceGain"):
    return "number"
  if name == "itts:fillLineGap":
    return "boolean"
  if name.startswith("tts:") and name[4:] in ("extent", "origin", "padding", "position", "shear", "textDecoration", "textEmphasis", "textOutline",
                                               "textShadow", "rubyReserve", "fontFamily"):
    return name[4:]
  return None


def corrupt(rng: random.Random, root: N, pretty: bool, want_type: typing.Optional[str] = None):
  """-> dict(xml=X', xml_removed=X0, attr, value, known, type, shape, element) or None.
  X' = the document with ONE attribute value replaced by a malformed value (known=True) or with one unknown attribute added
  (known=False); X0 = the document with that attribute removed (unknown attribute: the unchanged document)."""
  nodes = list(root.walk())
  if want_type == "unknown-attribute" or (want_type is None and rng.random() < 0.2):
    n_i = rng.randrange(len(nodes))
    name, value = rng.choice(UNKNOWN_ATTRS)
    if nodes[n_i].get(name) is not None:
      return None
    r1 = copy.deepcopy(root)
    list(r1.walk())[n_i].attrs.append([name, value])
    return dict(xml=to_xml(r1, pretty), xml_removed=to_xml(root, pretty), attr=name, value=value, known=False, type="unknown-attribute",
                shape=name.split(":")[0] if ":" in name else "no-namespace", element=nodes[n_i].tag, element_index=n_i)
  if want_type == "ruby" and rng.random() < 0.6:
    # a malformed tts:ruby ADDED to an ordinary span: ignoring it leaves the ordinary span
    spans = [i for i, n in enumerate(nodes) if n.tag == "span" and n.get("tts:ruby") is None]
    if spans:
      i = rng.choice(spans)
      value, shape = rng.choice(MALFORMED["ruby"])
      r1 = copy.deepcopy(root)
      list(r1.walk())[i].attrs.insert(0, ["tts:ruby", value])
      return dict(xml=to_xml(r1, pretty), xml_removed=to_xml(root, pretty), attr="tts:ruby", value=value, known=True, type="ruby", shape=shape,
                  element="span", element_index=i)
  cands = []
  for i, n in enumerate(nodes):
    for j, (name, _v) in enumerate(n.attrs):
      t = attr_type(n.tag, name)
      if t is not None and (want_type is None or t == want_type):
        cands.append((i, j, t))
  if not cands:
    return None
  # choose the type first so that rare attribute types are corrupted as often as frequent ones
  types = sorted({c[2] for c in cands})
  t = rng.choice(types)
  i, j, t = rng.choice([c for c in cands if c[2] == t])
  value, shape = rng.choice(MALFORMED[t])
  if t == "time" and rng.random() < 0.15:
    # HH:MM:SS:FF whose frames field equals the frame rate in force (TTML2: frames < frameRate): boundary of the range check
    fr = root.get("ttp:frameRate")
    if fr is None or fr.isdigit():
      value, shape = "00:00:01:%02d" % int(fr or 30), "frames-equal-frame-rate"
  r1, r0 = copy.deepcopy(root), copy.deepcopy(root)
  n1, n0 = list(r1.walk())[i], list(r0.walk())[i]
  name = n1.attrs[j][0]
  n1.attrs[j][1] = value
  del n0.attrs[j]
  return dict(xml=to_xml(r1, pretty), xml_removed=to_xml(r0, pretty), attr=name, value=value, known=True, type=t, shape=shape, element=n1.tag,
              element_index=i)
