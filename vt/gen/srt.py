"""Grammar generator of SubRip files for C10: gen_file(rng, profile) -> (file text, AST, classes).

The AST (see vt/ref/srt_ast.py for its shape) is computed from the generated *tree*, before rendering, and is the
oracle of C10.  File text uses the chosen line terminator ("\\n" or "\\r\\n") throughout.

Text is made of tokens that are unique within a file (`k17`, `Zq3!`, `é12`, `4711` ...) so that every character of the
reader's output can be traced to its source.  The characters  < > { } &  and the sequence  -->  never occur in text.
"""
from vt.ref import srt_ast as A

MAX_MS = A.MAX_MS
# millisecond fields that are exact frame boundaries at 24 (multiples of 125), 25 (40) or 30 fps (100), and a few that
# are not; most of them are not exactly representable in binary floating point
MS_POOL = [0, 40, 80, 100, 120, 125, 160, 200, 240, 250, 280, 290, 300, 320, 360, 375, 400, 440, 480, 500, 520, 560, 570,
           580, 600, 625, 640, 680, 700, 720, 750, 760, 800, 840, 875, 880, 900, 920, 960, 1, 7, 33, 41, 67, 333, 999]
NAMED = sorted(A.HTML_COLORS)
HEX_POOL = ["ff0000", "00ff00", "0000ff", "ffff00", "00ffff", "ff00ff", "ffffff", "000000", "808080", "c0c0c0", "123456",
            "abcdef", "fedcba", "7f7f7f", "010203"]
WORD_PREFIX = ["k", "w", "Zq", "é", "ñu", "日本", "Ж", "x-", "o'"]
PUNCT = ["", "", "", "", ",", ".", "!", "?", ";", ":", "...", '"', ")"]


class _Tokens:
  def __init__(self, rng):
    self.rng, self.n = rng, 0

  def next(self):
    self.n += 1
    r = self.rng.random()
    if r < 0.06:
      return str(1000 + self.n)                      # all-digit word (looks like a counter)
    if r < 0.10:
      return "- " + self.rng.choice(WORD_PREFIX) + str(self.n)   # dialogue dash
    if r < 0.16:
      # an ampersand glued into a word (Q&A, AT&T): plain text in SubRip; never the start of a character reference the
      # HTML-based reader could decode
      return self.rng.choice(["Q&A", "AT&T", "R&D", "x&y", "k&"]) + str(self.n)
    return self.rng.choice(WORD_PREFIX) + str(self.n) + self.rng.choice(PUNCT)


def _color_spec(rng):
  """-> (attribute source text incl. quoting, [r,g,b,a])"""
  if rng.random() < 0.45:
    name = rng.choice(NAMED)
    shown = rng.choice([name, name, name.capitalize(), name.upper()])
    rgb = A.HTML_COLORS[name]
    value = shown
  else:
    h = rng.choice(HEX_POOL) if rng.random() < 0.6 else "%06x" % rng.randrange(1 << 24)
    if rng.random() < 0.3:
      h = h.upper()
    rgb = (int(h[0:2], 16), int(h[2:4], 16), int(h[4:6], 16))
    value = "#" + h
    if rng.random() < 0.3:
      # #rrggbbaa (the form the SRT writer itself emits), including a fully transparent colour
      a = rng.choice(["00", "00", "01", "7f", "80", "fe", "ff"])
      value += a.upper() if h.isupper() else a
      q = rng.random()
      src = ('"' + value + '"') if q < 0.7 else (("'" + value + "'") if q < 0.85 else value)
      return src, [rgb[0], rgb[1], rgb[2], int(a, 16)]
  q = rng.random()
  if q < 0.7:
    src = '"' + value + '"'
  elif q < 0.85:
    src = "'" + value + "'"
  else:
    src = value
  return src, [rgb[0], rgb[1], rgb[2], 255]


def _gen_payload(rng, tokens, nlines, tag_budget, syntax_mode, classes):
  """-> (payload source with "\\n" between lines, lines as runs)"""
  # atoms: characters and line breaks
  atoms = []
  bounds = {0}
  for li in range(nlines):
    if li:
      atoms.append("\n")
      bounds.add(len(atoms))
    for wi in range(rng.choice([1, 1, 2, 2, 3, 4])):
      if wi:
        bounds.add(len(atoms))
        atoms.append(" ")
      bounds.add(len(atoms))
      atoms.extend(tokens.next())
      bounds.add(len(atoms))
  bounds = sorted(bounds)
  n = len(atoms)
  out = []      # source fragments
  chars = []    # (char, attrs) incl. "\n"
  state = {"left": tag_budget}

  def cut(lo, hi):
    if rng.random() < 0.75:
      c = [b for b in bounds if lo <= b <= hi]
      if c:
        return rng.choice(c)
    return rng.randint(lo, hi)

  def emit_text(lo, hi, stack):
    color = None
    for k, c in stack:
      if k == "font":
        color = tuple(c)
    a = (any(k == "b" for k, _ in stack), any(k == "i" for k, _ in stack), any(k == "u" for k, _ in stack), color)
    for ch in atoms[lo:hi]:
      out.append(ch)
      chars.append((ch, a))

  def region(lo, hi, stack):
    depth = len(stack)
    if state["left"] <= 0 or depth >= 4 or hi <= lo:
      emit_text(lo, hi, stack)
      return
    k = rng.choice([0, 1, 1, 1, 2, 2, 3]) if depth == 0 else rng.choice([0, 0, 1, 1, 2])
    k = min(k, state["left"])
    if k == 0:
      emit_text(lo, hi, stack)
      return
    pts = sorted(cut(lo, hi) for _ in range(2 * k))
    pos = lo
    prev_end = None
    for j in range(k):
      a, b = pts[2 * j], pts[2 * j + 1]
      if a == b and rng.random() < 0.9:
        continue                                   # empty tags kept only rarely
      emit_text(pos, a, stack)
      if prev_end is not None and prev_end == a:
        classes.add("adjacent-tags")
      state["left"] -= 1
      kind = rng.choice(["b", "i", "i", "u", "font", "font"])
      if kind == "font":
        syntax = "angle"
        src, rgba = _color_spec(rng)
        open_s, close_s, val = "<font color=" + src + ">", "</font>", rgba
        classes.add("font-hex" if "#" in src else "font-named")
        if src[0] not in "\"'":
          classes.add("font-unquoted")
        if any(kk == "font" for kk, _ in stack):
          classes.add("font-in-font")
      else:
        syntax = syntax_mode if syntax_mode != "mixed" else rng.choice(["angle", "brace"])
        open_s, close_s = ("<%s>" % kind, "</%s>" % kind) if syntax == "angle" else ("{%s}" % kind, "{/%s}" % kind)
        val = None
      classes.add("tag-" + syntax)
      classes.add("tag-kind-" + kind)
      if depth >= 1:
        classes.add("nested-tags")
      if depth >= 2:
        classes.add("nested-depth3")
      if "\n" in atoms[a:b]:
        classes.add("tag-spans-lines")
      if a == b:
        classes.add("empty-tag")
      if a not in bounds or b not in bounds:
        classes.add("tag-inside-word")
      out.append(open_s)
      region(a, b, stack + [(kind, val)])
      out.append(close_s)
      pos = b
      prev_end = b
    emit_text(pos, hi, stack)

  region(0, n, [])
  lines = [[]]
  for ch, a in chars:
    if ch == "\n":
      lines.append([])
    else:
      lines[-1].append((ch, a))
  return "".join(out), [A.merge_runs(l) for l in lines]


def fmt_time(ms, digits):
  h, r = divmod(ms, 3600000)
  m, r = divmod(r, 60000)
  s, x = divmod(r, 1000)
  return ("%0*d:%02d:%02d,%03d") % (digits, h, m, s, x)


def _snap(rng, t, floor_t):
  """Replaces the millisecond field of t by a pool value (keeping t >= floor_t) half of the time."""
  if rng.random() < 0.55:
    t2 = t - t % 1000 + rng.choice(MS_POOL)
    while t2 < floor_t:
      t2 += 1000
    return t2
  return t


def _gen_times(rng, ncues, ordered):
  """-> list of (begin ms, end ms), begin < end; ordered => non-overlapping, non-decreasing."""
  out = []
  r = rng.random()
  if r < 0.55:
    cur = rng.randrange(0, 2 * 3600000)
  elif r < 0.80:
    cur = rng.randrange(0, 100 * 3600000)
  elif r < 0.88:
    cur = rng.choice([0, 0, 99 * 3600000 + 59 * 60000 + 55000, 100 * 3600000 - 1, MAX_MS - 40000, 3599000, 59000])
  else:
    cur = rng.randrange(100 * 3600000, MAX_MS)
  for _ in range(ncues):
    if ordered:
      gap = rng.choice([0, 0, 1, 40, 500, 1000, rng.randrange(0, 10000), rng.randrange(0, 4000000)])
      b = _snap(rng, cur + gap, cur)
      d = rng.choice([1, 40, 280, 1000, 1500, 2500, rng.randrange(1, 10000), rng.randrange(1, 10000)])
      e = _snap(rng, b + d, b + 1)
      if e > MAX_MS:
        break
      out.append((b, e))
      cur = e
    else:
      b = _snap(rng, rng.randrange(0, MAX_MS - 20000) if rng.random() < 0.3 else rng.randrange(0, 7200000), 0)
      e = _snap(rng, b + rng.randrange(1, 10000), b + 1)
      out.append((b, min(e, MAX_MS)))
  return out


def gen_file(rng, profile=None):
  """-> (text, ast, classes).  profile (optional dict): ncues, eol, syntax, empty_cue (bool)."""
  profile = profile or {}
  classes = set()
  ncues = profile.get("ncues")
  if ncues is None:
    ncues = rng.choice([0, 1, 1, 2, 2, 3, 3, 4, 5, 6, 8, 10, 12])
  eol = profile.get("eol") or rng.choice(["\n", "\r\n"])
  syntax_mode = profile.get("syntax") or rng.choice(["angle", "angle", "brace", "mixed", "none"])
  ordered = profile.get("ordered")
  if ordered is None:
    ordered = rng.random() < 0.85
  empty_cue_at = rng.randrange(ncues) if (profile.get("empty_cue") and ncues) else None
  tokens = _Tokens(rng)
  times = _gen_times(rng, ncues, ordered)
  ncues = len(times)
  classes.add("eol-crlf" if eol == "\r\n" else "eol-lf")
  classes.add("ordered" if ordered else "unordered-or-overlapping")
  if ncues == 0:
    classes.add("zero-cues")

  # counters
  cmode = rng.choice(["seq", "seq", "seq", "zero-based", "gaps", "repeated", "leading-zeros", "big", "descending"])
  if cmode != "seq" and ncues:
    classes.add("counter-odd")
  counters = []
  c = 1
  for i in range(ncues):
    if cmode == "seq":
      s = str(i + 1)
    elif cmode == "zero-based":
      s = str(i)
    elif cmode == "gaps":
      c += rng.randrange(1, 50)
      s = str(c)
    elif cmode == "repeated":
      s = "7"
    elif cmode == "leading-zeros":
      s = "%04d" % (i + 1)
    elif cmode == "big":
      s = str(rng.randrange(10**6, 10**12))
    else:
      s = str(ncues - i)
    counters.append(s)

  rows = []
  lead = rng.choice([0, 0, 0, 1, 2, 3])
  if lead:
    classes.add("leading-blank")
  rows.extend([""] * lead)
  ast = []
  for i in range(ncues):
    b, e = times[i]
    hb = 3 if b >= 100 * 3600000 else (3 if rng.random() < 0.2 else 2)
    he = 3 if e >= 100 * 3600000 else (hb if rng.random() < 0.8 else 5 - hb)
    classes.add("hours-%d-digits" % hb)
    classes.add("hours-%d-digits" % he)
    if b >= 100 * 3600000:
      classes.add("hours>=100")
    rows.append(counters[i])
    rows.append(fmt_time(b, hb) + " --> " + fmt_time(e, he))
    if i == empty_cue_at:
      classes.add("empty-cue")
      ast.append({"n": counters[i], "b": b, "e": e, "hd": [hb, he], "lines": [], "src": ""})
    else:
      nlines = rng.choice([1, 1, 1, 2, 2, 2, 3, 3, 4, 5])
      budget = 0 if syntax_mode == "none" else rng.choice([0, 1, 1, 2, 2, 3, 4, 6])
      payload, lines = _gen_payload(rng, tokens, nlines, budget, syntax_mode, classes)
      classes.add("lines-%d" % nlines)
      rows.extend(payload.split("\n"))
      ast.append({"n": counters[i], "b": b, "e": e, "hd": [hb, he], "lines": lines, "src": payload})
    if i + 1 < ncues:
      blanks = rng.choice([1, 1, 1, 1, 2, 2, 3, 4])
      if blanks > 1:
        classes.add("blank-run")
      rows.extend([""] * blanks)

  # end of file: nothing / one terminator / blank lines
  tail = rng.choice(["none", "eol", "eol", "eol+blank", "eol+blanks"])
  text = eol.join(rows)
  if ncues == 0 and lead == 0:
    tail = rng.choice(["none", "eol"])
  if tail == "none":
    classes.add("no-final-eol")
  elif tail == "eol":
    text += eol
  elif tail == "eol+blank":
    text += eol + eol
    classes.add("trailing-blank")
  else:
    text += eol * rng.choice([3, 4])
    classes.add("trailing-blank")
  return text, ast, classes


def render_single(cue, eol="\n"):
  """Minimal one-cue file made of the cue's own source text (used to shrink a witness; not an oracle)."""
  rows = [cue["n"], fmt_time(cue["b"], cue["hd"][0]) + " --> " + fmt_time(cue["e"], cue["hd"][1])]
  if cue["src"]:
    rows.extend(cue["src"].split("\n"))
  return eol.join(rows) + eol
