"""Byte-level generator of EBU STL files (Tech 3264): one GSI block (1024 bytes) + TTI blocks (128 bytes each).
gen_file(rng) -> (bytes, AST);  gen_config(rng, ast) -> JSON-able reader configuration.
The AST records what was written (it is not the oracle: vt/ref/stl.py re-parses the bytes)."""
from __future__ import annotations

GSI_SIZE, TTI_SIZE, TF_SIZE = 1024, 128, 112
DFCS = ["STL25.01", "STL30.01", "STL24.01", "STL50.01", "STL23.01"]
NOMINAL = {"STL25.01": 25, "STL30.01": 30, "STL24.01": 24, "STL50.01": 50, "STL23.01": 24}
MAX_TTI = 30

# ISO 6937 non-spacing diacritics and the letters each combines with (repertoire of ISO/IEC 6937)
DIACRITIC_LETTERS = {
  0xC1: "AEIOUaeiou", 0xC2: "ACEILNORSUYZacegilnorsuyz", 0xC3: "ACEGHIJOSUWYaceghijosuwy", 0xC4: "AINOUainou",
  0xC5: "AEIOUaeiou", 0xC6: "AGUagu", 0xC7: "CEGIZcegz", 0xC8: "AEIOUYaeiouy", 0xCA: "AUau",
  0xCB: "CGKLNRSTcklnrst", 0xCD: "OUou", 0xCE: "AEIUaeiu", 0xCF: "CDELNRSTZcdelnrstz",
}
PAIRS = [(d, ord(c)) for d, ls in sorted(DIACRITIC_LETTERS.items()) for c in ls]
ALNUM = b"ABCDEFGHIJKLMNOPQRSTUVWXYZabcdefghijklmnopqrstuvwxyz0123456789"
PUNCT = b"!\"#%&'()*+,-./:;<=>?@[\\]^_`{|}~"
UPPER_00 = [b for b in range(0xA1, 0x100) if not 0xC0 <= b <= 0xCF]
UPPER_8859 = list(range(0xA1, 0x100))
ATTR_CODES = [0x00, 0x01, 0x02, 0x03, 0x04, 0x05, 0x06, 0x07, 0x1C, 0x1D, 0x80, 0x81, 0x82, 0x83, 0x84, 0x85]


def build_gsi(dfc="STL25.01", dsc="1", cct="00", lc="09", tcp="00000000", mnr="23", tnb=0, tns=0, mnc="40", tcs="1",
              cpn="850", opt="generated") -> bytes:
  def f(s, n):
    b = s.encode("latin-1") if isinstance(s, str) else s
    return (b + b" " * n)[:n]
  out = b"".join([
    f(cpn, 3), f(dfc, 8), f(dsc, 1), f(cct, 2), f(lc, 2), f(opt, 32), f("", 32), f("", 32), f("", 32), f("", 32), f("", 32),
    f("", 16), f("260101", 6), f("260101", 6), f("00", 2), f("%05d" % tnb, 5), f("%05d" % tns, 5), f("001", 3), f(mnc, 2),
    f(mnr, 2), f(tcs, 1), f(tcp, 8), f("00000000", 8), f("1", 1), f("1", 1), f("GBR", 3), f("", 32), f("", 32), f("", 32),
    b" " * 75, b" " * 576])
  assert len(out) == GSI_SIZE
  return out


def build_tti(sgn=0, sn=0, ebn=0xFF, cs=0, tci=(0, 0, 0, 0), tco=(0, 0, 1, 0), vp=20, jc=2, cf=0, tf=b"") -> bytes:
  assert len(tf) <= TF_SIZE
  out = bytes([sgn & 0xFF, sn & 0xFF, (sn >> 8) & 0xFF, ebn, cs, *tci, *tco, vp, jc, cf]) + tf + b"\x8f" * (TF_SIZE - len(tf))
  assert len(out) == TTI_SIZE
  return out


def assemble(gsi_kw: dict, ttis: list) -> bytes:
  """ttis: list of dicts for build_tti with 'tf' as bytes."""
  kw = dict(gsi_kw)
  kw.setdefault("tnb", len(ttis))
  kw.setdefault("tns", len({t.get("sn", 0) for t in ttis}))
  return build_gsi(**kw) + b"".join(build_tti(**t) for t in ttis)


def label(n: int, rate: int, avoid_df: bool):
  f = n % rate
  s = (n // rate) % 60
  m = (n // (rate * 60)) % 60
  h = (n // (rate * 3600)) % 24
  if avoid_df and s == 0 and f < 2 and m % 10 != 0:
    f = 2
  return (h, m, s, f)


def index_of(lab, rate):
  h, m, s, f = lab
  return ((h * 60 + m) * 60 + s) * rate + f


class _TextGen:
  def __init__(self, rng, cct: str, teletext: bool):
    self.rng, self.cct, self.teletext = rng, cct, teletext

  def char(self) -> bytes:
    r = self.rng.random()
    if r < 0.55:
      return bytes([self.rng.choice(ALNUM)])
    if r < 0.68:
      return bytes([self.rng.choice(PUNCT)])
    if r < 0.70:
      return bytes([self.rng.choice([0x24, 0x7F, 0xA0, 0x24])])
    if self.cct == "00":
      if r < 0.84:
        return bytes([self.rng.choice(UPPER_00)])
      if r < 0.98:
        return bytes(self.rng.choice(PAIRS))
      # outside the repertoire / uncertain diacritic cells
      return bytes([self.rng.choice(list(range(0xC0, 0xD0))), self.rng.choice(b"bqxQ7 ")])
    return bytes([self.rng.choice(UPPER_8859)])

  def word(self) -> bytes:
    return b"".join(self.char() for _ in range(self.rng.choice([1, 1, 2, 3, 3, 4, 5, 6])))

  def ctrl(self) -> bytes:
    r = self.rng.random()
    if r < 0.92:
      return bytes([self.rng.choice(ATTR_CODES)])
    return bytes([self.rng.choice([0x08, 0x09, 0x0C, 0x0A, 0x0B])])

  def sep(self) -> bytes:
    r = self.rng.random()
    if r < 0.50:
      return b" "
    if r < 0.58:
      return b"  " if r < 0.56 else b"   "
    if r < 0.68:
      return self.ctrl()
    if r < 0.77:
      return b" " + self.ctrl()
    if r < 0.86:
      return self.ctrl() + b" "
    if r < 0.91:
      return self.ctrl() + self.ctrl()
    if r < 0.96:
      return b" " + self.ctrl() + b" "
    return b""

  def line(self, double_height: bool, boxed: bool) -> bytes:
    rng = self.rng
    out = b""
    if double_height:
      out += b"\x0d"
    if rng.random() < 0.25:
      out += self.ctrl()
    if boxed:
      out += b"\x0b\x0b"
    if rng.random() < 0.06:
      out += b" " * rng.choice([1, 2])
    nwords = rng.choice([1, 1, 2, 2, 3, 4])
    for k in range(nwords):
      if k:
        out += self.sep()
      out += self.word()
    if rng.random() < 0.05:
      out += b" "
    if rng.random() < 0.06:
      out += self.ctrl()
    if boxed:
      out += b"\x0a\x0a"
    return out

  def text_field(self, nlines: int) -> bytes:
    rng = self.rng
    dh = self.teletext and rng.random() < 0.2
    boxed = self.teletext and rng.random() < 0.4
    out = b""
    for k in range(nlines):
      if k:
        out += b"\x8a\x8a" if (dh and rng.random() < 0.9) or rng.random() < 0.05 else b"\x8a"
      out += self.line(dh, boxed)
    if rng.random() < 0.05:
      out += b"\x8a"
    return out


def gen_file(rng, force: dict = None):
  """Draws one file. `force` may fix 'dfc', 'cct', 'dsc'."""
  force = force or {}
  dfc = force.get("dfc") or rng.choice(DFCS)
  rate = NOMINAL[dfc]
  avoid_df = dfc == "STL30.01"
  cct = force.get("cct") or rng.choice(["00", "00", "00", "01", "02", "03", "04"])
  dsc = force.get("dsc") or rng.choice(["1", "1", "2", "0", "0", " "])
  teletext = dsc in ("1", "2")
  mnr = rng.choice(["23", "23", "11", "15", "30", "99", "02"]) if not teletext else rng.choice(["23", "23", "11"])
  mnr_bad = rng.random() < 0.03
  if mnr_bad:
    mnr = rng.choice(["  ", "A1"])
  t0 = rng.choice([(0, 0, 0, 0), (0, 0, 0, 0), (10, 0, 0, 0), (1, 0, 0, 0), (0, 59, 58, 0), (0, 9, 59, 5), (0, 0, 58, rate - 1),
                   (9, 59, 59, 0), (0, 1, 0, 2)])
  tcp_lab = t0 if rng.random() < 0.8 else label(rng.randrange(0, 3 * 3600 * rate), rate, avoid_df)
  tcp = "%02d%02d%02d%02d" % tcp_lab
  tcp_bad = rng.random() < 0.03
  if tcp_bad:
    tcp = rng.choice(["        ", "0000000A"])

  tg = _TextGen(rng, cct, teletext)
  nsubs = rng.choice([1, 2, 3, 4, 5, 6, 8, 10, 12])
  irregular_cs = rng.random() < 0.04
  cursor = max(0, index_of(t0, rate) + rng.choice([-3 * rate, -rate - 1, -1, 0, 0, 0, 1, rate, 2 * rate + 7]))
  sn = rng.choice([0, 0, 1, 1, 250, 254, 256, 1000, 65000])
  ttis = []
  subs_ast = []
  cs_state = 0          # remaining members of an open cumulative set
  cs_jc = None
  prev_end = cursor
  for _ in range(nsubs):
    if len(ttis) >= MAX_TTI:
      break
    # user data block between subtitles
    if rng.random() < 0.08 and len(ttis) < MAX_TTI - 1:
      ttis.append({"sgn": 0, "sn": sn, "ebn": 0xFE, "cs": 0, "tci": label(cursor, rate, avoid_df), "tco": label(cursor + rate, rate, avoid_df),
                   "vp": 20, "jc": 2, "cf": 0, "tf": b"USERDATA" + bytes([rng.choice(ALNUM) for _ in range(6)])})
      sn += 1
    # cumulative status
    if irregular_cs:
      cs = rng.choice([0, 1, 2, 3, 2, 3])
    elif cs_state > 0:
      cs_state -= 1
      cs = 3 if cs_state == 0 else 2
    elif rng.random() < 0.15 and nsubs >= 2:
      cs_state = rng.choice([1, 1, 2, 3])
      cs = 1
      cs_jc = rng.choice([0, 1, 2, 3])
    else:
      cs = 0
    comment = cs == 0 and rng.random() < 0.09
    # times
    start = cursor + rng.choice([0, 0, 1, rate // 2, rate, 2 * rate, 5 * rate + 3, 37 * rate, 61 * rate + 1])
    if rng.random() < 0.12:
      start = max(0, prev_end - rng.choice([1, rate, 2 * rate]))      # overlap with the previous subtitle
    dur = rng.choice([0, 1, 2, rate - 1, rate, rate + 1, 2 * rate + 3, 3 * rate, 4 * rate + rate // 2, 70 * rate])
    tci, tco = label(start, rate, avoid_df), label(start + dur, rate, avoid_df)
    if index_of(tco, rate) < index_of(tci, rate):
      tco = tci
    cursor = start + (dur if cs == 0 or rng.random() < 0.5 else rng.choice([rate, 2 * rate]))
    prev_end = start + dur
    # text
    nlines = rng.choice([1, 1, 2, 2, 2, 3, 3, 4])
    tf = tg.text_field(nlines)
    if cs == 0 and rng.random() < 0.03:
      k = rng.choice([0, rng.randrange(0, len(tf) + 1)])
      tf = tf[:k] + b"\x8f" + tf[k:]                              # hostile filler inside / before the text
    if rng.random() < 0.04:
      tf = b""
    # layout
    if teletext:
      vp = rng.choice([rng.randrange(1, 6), rng.randrange(max(1, 24 - 2 * nlines - 3), max(2, 24 - nlines)), rng.randrange(1, 24 - nlines),
                       rng.choice([0, 23, 24, 40, 99])])
    else:
      top = int(mnr) if mnr.isdigit() else 23
      vp = rng.choice([rng.randrange(0, 4), rng.randrange(0, max(1, top - nlines + 2)), rng.randrange(max(1, top - 6), top + 1),
                       rng.choice([0, 1, top, 99, 120])])
    jc = cs_jc if cs in (1, 2, 3) and cs_jc is not None and not irregular_cs else rng.choice([0, 1, 2, 2, 3])
    sgn = 0 if rng.random() < 0.8 else rng.choice([1, 2])
    # split into blocks
    pieces = []
    rest = tf
    want_ext = rng.random() < 0.18
    while len(rest) > TF_SIZE or (want_ext and len(rest) > 1 and len(pieces) < 2):
      k = rng.randrange(1, min(TF_SIZE, len(rest) - 1) + 1) if want_ext else TF_SIZE
      pieces.append(rest[:k])
      rest = rest[k:]
    pieces.append(rest)
    if len(ttis) + len(pieces) > MAX_TTI:
      break
    # extension block numbers run 00h..EFh (F0h..FDh reserved, FEh user data, FFh last block): mostly from 0, sometimes ending at EFh
    n_ext = len(pieces) - 1
    base = 0 if (n_ext == 0 or rng.random() < 0.7) else rng.choice([0xF0 - n_ext, 0xF0 - n_ext, 0xEF - n_ext, 0x7F])
    for j, piece in enumerate(pieces):
      last = j == len(pieces) - 1
      ttis.append({"sgn": sgn, "sn": sn, "ebn": 0xFF if last else base + j, "cs": cs, "tci": tci, "tco": tco, "vp": vp, "jc": jc,
                   "cf": 1 if comment else 0, "tf": piece})
      if not last and rng.random() < 0.04 and len(ttis) + (len(pieces) - j) < MAX_TTI:
        ttis.append({"sgn": sgn, "sn": sn, "ebn": rng.choice([0xF0, 0xF7, 0xFD]), "cs": cs, "tci": tci, "tco": tco, "vp": vp, "jc": jc, "cf": 0,
                     "tf": b"RESERVED"})
      if not last and rng.random() < 0.05 and len(ttis) + (len(pieces) - j) < MAX_TTI:
        ttis.append({"sgn": sgn, "sn": sn, "ebn": 0xFE, "cs": cs, "tci": tci, "tco": tco, "vp": vp, "jc": jc, "cf": 0,
                     "tf": b"UDINCHAIN"})
    subs_ast.append({"sn": sn, "cs": cs, "comment": comment, "blocks": len(pieces), "tci": list(tci), "tco": list(tco), "vp": vp,
                     "jc": jc, "tf": tf.hex()})
    sn += rng.choice([1, 1, 1, 2, 7])
  if not ttis:
    ttis.append({"sgn": 0, "sn": sn, "ebn": 0xFF, "cs": 0, "tci": label(cursor, rate, avoid_df), "tco": label(cursor + rate, rate, avoid_df),
                 "vp": 20, "jc": 2, "cf": 0, "tf": b"x"})
  gsi_kw = {"dfc": dfc, "dsc": dsc, "cct": cct, "lc": rng.choice(["09", "0F", "08", "7E", "00"]), "tcp": tcp, "mnr": mnr}
  data = assemble(gsi_kw, ttis)
  ast = {"gsi": gsi_kw, "t0": list(t0), "rate": rate, "n_tti": len(ttis), "subs": subs_ast, "irregular_cs": irregular_cs,
         "tcp_bad": tcp_bad, "mnr_bad": mnr_bad}
  return data, ast


def gen_dh_file(rng, dsc=None):
  """Directed class: teletext file of double-height subtitles, some with empty double-height rows (runs of four newline
  codes), at positions that fit the 23 rows; several share their last occupied row with a differently shaped one."""
  rate = 25
  ttis, subs_ast = [], []
  t = 2
  sn = 1
  lasts = []
  for k in range(rng.choice([6, 8, 10])):
    nlines = rng.choice([1, 2, 2, 3])
    runs = [rng.choice([2, 2, 4]) for _ in range(nlines - 1)]
    if k % 3 == 1 and nlines > 1:
      runs[rng.randrange(len(runs))] = rng.choice([4, 4, 6])
    nn = sum(runs)
    # last occupied row: sometimes the one of an earlier subtitle (other shape, same anchor)
    if lasts and rng.random() < 0.5 and rng.choice(lasts) - nn - 1 >= 1:
      last = rng.choice([x for x in lasts if x - nn - 1 >= 1])
    else:
      last = rng.randrange(nn + 2, 24)
    lasts.append(last)
    vp = last - nn - 1
    tf = b""
    for j in range(nlines):
      if j:
        tf += b"\x8a" * runs[j - 1]
      tf += b"\x0d" + bytes(rng.choice(b"ABCDEFGHJKLMNPRSTUVWXYZ") for _ in range(rng.choice([2, 3, 5]))) + b"%d" % (k * 10 + j)
    tci, tco = label(t * rate, rate, False), label((t + 2) * rate, rate, False)
    ttis.append({"sgn": 0, "sn": sn, "ebn": 0xFF, "cs": 0, "tci": tci, "tco": tco, "vp": vp, "jc": rng.choice([1, 2, 2, 3]), "cf": 0, "tf": tf})
    subs_ast.append({"sn": sn, "cs": 0, "comment": False, "blocks": 1, "tci": list(tci), "tco": list(tco), "vp": vp, "jc": 2, "tf": tf.hex(),
                     "newline_runs": runs})
    sn += 1
    t += 3
  gsi_kw = {"dfc": "STL25.01", "dsc": rng.choice(["1", "2"]) if dsc is None else dsc, "cct": "00", "lc": "09", "tcp": "00000000", "mnr": "23"}
  data = assemble(gsi_kw, ttis)
  ast = {"gsi": gsi_kw, "t0": [0, 0, 0, 0], "rate": rate, "n_tti": len(ttis), "subs": subs_ast, "irregular_cs": False,
         "tcp_bad": False, "mnr_bad": False}
  return data, ast


def gen_config(rng, ast: dict) -> dict:
  rate = ast["rate"]
  r = rng.random()
  if r < 0.4:
    start = None
  elif r < 0.65:
    start = "TCP"
  else:
    base = index_of(tuple(ast["t0"]), rate) + rng.choice([0, 0, 0, 1, rate, -1, 3 * rate])
    lab = label(max(0, base), rate, ast["gsi"]["dfc"] == "STL30.01")
    start = "%02d:%02d:%02d:%02d" % lab
  mrc = rng.choice([None, None, "MNR", "MNR", 11, 23, 30, 99])
  return {
    "program_start_tc": start,
    "max_row_count": mrc,
    "disable_fill_line_gap": rng.random() < 0.3,
    "disable_line_padding": rng.random() < 0.3,
    "font_stack": rng.choice([None, None, ["Arial"], ["Courier New", "monospace"]]),
  }
