"""Token-soup generators for the robustness workload (C18): syntactically plausible files whose tokens come in an
order no authoring tool would emit (control codes before any caption mode, tags with valueless / empty / duplicated
attributes, timing lines in odd places). They complement the valid-file generators (which only ever emit
well-ordered streams) and the byte/token mutators (which rarely assemble a specific unusual *sequence*)."""
from vt.gen import scc as gscc

# ---- SCC: every class of two-byte code in any order --------------------------------------------------------------------

_CTL = [0x1420, 0x1421, 0x1422, 0x1423, 0x1424, 0x1425, 0x1426, 0x1427, 0x1428, 0x1429, 0x142a, 0x142b, 0x142c, 0x142d, 0x142e, 0x142f,
        0x1721, 0x1722, 0x1723, 0x1724, 0x1725, 0x1726, 0x1727, 0x172d, 0x172e, 0x172f]


def _scc_word(rng):
  r = rng.random()
  if r < 0.30:
    v = rng.choice(_CTL)
  elif r < 0.45:   # PACs: 0x11-0x17 / 0x40-0x7f
    v = (rng.choice([0x10, 0x11, 0x12, 0x13, 0x14, 0x15, 0x16, 0x17]) << 8) | rng.randrange(0x40, 0x80)
  elif r < 0.55:   # mid-row 0x11 0x20-0x2f
    v = 0x1100 | rng.randrange(0x20, 0x30)
  elif r < 0.62:   # special 0x11 0x30-0x3f
    v = 0x1100 | rng.randrange(0x30, 0x40)
  elif r < 0.70:   # extended 0x12/0x13 0x20-0x3f
    v = (rng.choice([0x12, 0x13]) << 8) | rng.randrange(0x20, 0x40)
  elif r < 0.74:   # background / attribute codes 0x10 0x20-0x2f, 0x17 0x2d-0x2f
    v = 0x1000 | rng.randrange(0x20, 0x30)
  elif r < 0.78:   # second channel variants
    v = rng.choice(_CTL) | 0x0800
  elif r < 0.95:
    v = (rng.randrange(0x20, 0x80) << 8) | rng.choice([0x00, rng.randrange(0x20, 0x80)])
  else:
    v = rng.randrange(0x10000)
  return v


def scc_soup(rng):
  lines = ["Scenarist_SCC V1.0", ""]
  f = rng.randrange(0, 100)
  for _ in range(rng.randrange(1, 7)):
    words = []
    for _ in range(rng.choice([1, 2, 2, 3, 4, 6, 10])):
      v = _scc_word(rng)
      w = gscc.apply_parity(v, "odd") if rng.random() < 0.9 else v
      words.append("%04x" % w)
      if rng.random() < 0.3 and (v >> 8) < 0x20:
        words.append("%04x" % w)      # doubled control code
    tc = "%02d:%02d:%02d%s%02d" % (0, f // 60 % 60, f % 60, rng.choice([":", ":", ";"]), rng.randrange(0, 30))
    lines += [tc + "\t" + " ".join(words), ""]
    f += rng.randrange(0, 4)
  return "\n".join(lines) + "\n"


# ---- SRT / VTT: tag soup --------------------------------------------------------------------------------------------------

_SRT_TAGS = ["b", "i", "u", "font", "bold", "italic", "underline", "B", "FONT", "s", "span", "br", "a", "ruby", "rt", "c", "v"]
_ATTR_NAMES = ["color", "COLOR", "face", "size", "class", "style", "href", "x"]
_ATTR_VALUES = ["red", "#ff0000", "#ff0000ff", "#fff", "rgb(1,2,3)", "rgba(1,2,3,4)", "", " ", "nope", "#gggggg", "255", "transparent", "Red ", "'", "\""]
_WORDS = ["a", "word", "two words", "x<y", "&amp;", "&", "&#x41;", "&#65", "{", "}", "{b}", "{/b}", "{\\an8}", "{i", "-->", "<", ">", "</", "<>", "</>", "<!--", "-->",
          "<![CDATA[", "]]>", "<?x", "?>", "<!x", "日本", "‏", "\t", " "]


def _attr(rng):
  n = rng.choice(_ATTR_NAMES)
  r = rng.random()
  if r < 0.25:
    return n                                     # valueless
  v = rng.choice(_ATTR_VALUES)
  if r < 0.5:
    return f"{n}={v}"                             # unquoted
  q = rng.choice("\"'")
  return f"{n}={q}{v}{q}"


def _tag(rng, tags):
  t = rng.choice(tags)
  r = rng.random()
  if r < 0.35:
    return f"</{t}>"
  attrs = "".join(" " + _attr(rng) for _ in range(rng.choice([0, 0, 1, 1, 2, 3])))
  if r < 0.45:
    return f"<{t}{attrs}/>"
  if r < 0.5:
    return f"<{t}{attrs}"                          # unterminated
  return f"<{t}{attrs}>"


# SGML / XML constructs that an HTML-style tag parser treats specially: declarations, marked sections (known and unknown
# keywords, unterminated), processing instructions, comments, character references with odd terminators
_MARKUP_DECLS = ["<![CDATA[ x ]]>", "<![foo[ x ]]>", "<![ [x]]>", "<![if gte mso 9]>x<![endif]>", "<![", "<![foo", "<![1[", "<![-[>", "<![temp[",
                 "<!DOCTYPE html>", "<!DOCTYPE x [ <!ENTITY a 'b'> ]>", "<!ELEMENT", "<!x", "<!>", "<!", "<!-- c -->", "<!-- unterminated", "<!--->", "<?pi?>", "<?pi",
                 "<? ?>", "&#;", "&#x;", "&#99999999999;", "&#xD800;", "&#0;", "&amp", "&;", "</>", "<>", "< b>", "<b/>", "<b / >", "</b x=1>", "<a:b>", "<b\n>"]


def _payload(rng, tags):
  out = []
  for _ in range(rng.choice([0, 1, 2, 3, 5, 8])):
    r = rng.random()
    if r < 0.08:
      out.append(rng.choice(_MARKUP_DECLS))
    elif r < 0.5:
      out.append(_tag(rng, tags))
    elif r < 0.9:
      out.append(rng.choice(_WORDS))
    else:
      out.append("\n")
  return "".join(out)


def srt_soup(rng):
  blocks = []
  t = 0
  for i in range(rng.randrange(1, 5)):
    b, e = t + rng.randrange(0, 3000), 0
    e = b + rng.randrange(0, 3000)
    t = e
    ts = lambda ms: "%02d:%02d:%02d%s%03d" % (ms // 3600000, ms // 60000 % 60, ms // 1000 % 60, rng.choice([",", ",", "."]), ms % 1000)
    head = rng.choice([str(i + 1) + "\n", str(i + 1) + "\n", "", "x\n", "0\n", "-1\n"])
    timing = f"{ts(b)} --> {ts(e)}" + rng.choice(["", "", " X1:1 X2:2 Y1:3 Y2:4", " ", " align:start"])
    blocks.append(head + timing + "\n" + _payload(rng, _SRT_TAGS) + "\n")
  return rng.choice(["", "", "﻿", "\n"]) + rng.choice(["\n", "\n", "\n\n", ""]).join(blocks)


_VTT_TAGS = ["b", "i", "u", "c", "v", "lang", "ruby", "rt", "c.red", "c.bg_blue", "c.", "c..x", "v.loud Bob", "v ", "lang en", "lang ", "00:00:01.000", "00:01.000", "1", "rb", "span", "br", "font"]
_VTT_SETTINGS = ["line:0", "line:-1", "line:0%", "line:100%,end", "line:50%,middle", "line:,", "line:", "line:1e3", "position:50%", "position:50%,line-left", "position:101%",
                 "position:", "size:0%", "size:100%", "size:x", "align:start", "align:middle", "align:", "vertical:rl", "vertical:lr", "vertical:", "region:r1", "region:",
                 "foo:bar", ":", "x", "line:5 line:6", "line:-0", "line:99999999999999999999", "position:-1%", "size:50.5%", "line:12.5%,start"]


def _vtt_tag(rng):
  t = rng.choice(_VTT_TAGS)
  r = rng.random()
  if r < 0.4:
    return "</" + t.split(".")[0].split(" ")[0] + ">"
  if r < 0.45:
    return "<" + t
  return "<" + t + ">"


def vtt_soup(rng):
  out = [rng.choice(["WEBVTT", "WEBVTT", "WEBVTT - x", "WEBVTT\tx", "﻿WEBVTT", "WEBVTTx", "webvtt"]), rng.choice(["\n\n", "\n\n", "\n", "\nKind: x\n\n"])]
  t = 0
  for i in range(rng.randrange(1, 5)):
    r = rng.random()
    if r < 0.15:
      out.append(rng.choice(["NOTE", "NOTE x", "NOTE\nx", "NOTEx", "STYLE\n::cue { color: red }", "REGION\nid:r1\nwidth:40%\nlines:3", "REGION\nid:", "STYLE", "NOTE -->"]) + "\n\n")
      continue
    b = t + rng.randrange(0, 3000)
    e = b + rng.randrange(0, 3000)
    t = e
    ts = lambda ms: rng.choice(["%02d:%02d:%02d.%03d" % (ms // 3600000, ms // 60000 % 60, ms // 1000 % 60, ms % 1000), "%02d:%02d.%03d" % (ms // 60000 % 60, ms // 1000 % 60, ms % 1000)])
    head = rng.choice(["", "", "id\n", "1\n", "NOTE\n", "WEBVTT\n", "a --> b\n"])
    settings = "".join(" " + rng.choice(_VTT_SETTINGS) for _ in range(rng.choice([0, 0, 1, 2, 4])))
    body = []
    for _ in range(rng.choice([0, 1, 2, 3, 5, 8])):
      q = rng.random()
      body.append(_vtt_tag(rng) if q < 0.5 else (rng.choice(_WORDS) if q < 0.9 else "\n"))
    out.append(head + f"{ts(b)} --> {ts(e)}{settings}\n" + "".join(body) + rng.choice(["\n\n", "\n\n", "\n", ""]))
  return "".join(out)


# ---- STL: text fields made of every class of TF byte in any order ----------------------------------------------------------

def _tf_byte(rng):
  r = rng.random()
  if r < 0.15:
    return rng.randrange(0x00, 0x20)           # teletext control codes (colours, double height, start/end box ...)
  if r < 0.45:
    return rng.randrange(0x20, 0x80)           # printable
  if r < 0.6:
    return rng.choice([0x80, 0x81, 0x82, 0x83, 0x84, 0x85, 0x8a, 0x8a, 0x8f, 0x86, 0x89, 0x8b, 0x8e])
  if r < 0.75:
    return rng.randrange(0xc1, 0xd0)           # non-spacing diacritical marks
  if r < 0.9:
    return rng.randrange(0xa0, 0x100)
  return rng.randrange(0x100)


def stl_soup(rng, data: bytes) -> bytes:
  """`data`: a valid STL file; the text field of some TTI blocks is replaced by a soup of TF bytes."""
  b = bytearray(data)
  nblocks = max(0, (len(b) - 1024) // 128)
  for k in range(nblocks):
    if rng.random() < 0.6:
      off = 1024 + 128 * k + 16
      n = rng.choice([0, 1, 2, 5, 20, 60, 112])
      tf = bytes(_tf_byte(rng) for _ in range(n))
      b[off:off + 112] = (tf + b"\x8f" * 112)[:112]
      if rng.random() < 0.2:
        b[off - 16 + 3] = rng.choice([0x00, 0x01, 0xfe, 0xff, 0x05])      # EBN: extension / user data / last
      if rng.random() < 0.2:
        b[off - 16 + 4] = rng.choice([0, 1, 2, 3, 9])                      # CS
      if rng.random() < 0.2:
        b[off - 16 + 13] = rng.choice([0, 1, 12, 23, 24, 99, 255])         # VP
      if rng.random() < 0.2:
        b[off - 16 + 14] = rng.choice([0, 1, 2, 3, 4, 255])                # JC
  return bytes(b)


def gen(rng, fmt):
  return {"scc": scc_soup, "srt": srt_soup, "vtt": vtt_soup}[fmt](rng).encode("utf-8", "replace")


# ---- TTML: structurally hostile documents (well-formed XML, invalid or unusual TTML) --------------------------------------------

def ttml_soup(rng):
  """A schema-generated document with 1-3 structural mutations: reference loops, misplaced elements, children below
  elements that have none, duplicated ids, deep nesting. Returns (xml bytes, list of mutation names)."""
  import copy
  from vt.gen import ttml as gt
  _, root, pretty, _ = gt.generate(rng)
  N = gt.N
  nodes = list(root.walk())
  by_tag = {}
  for n in nodes:
    by_tag.setdefault(n.tag, []).append(n)
  done = []
  for _ in range(rng.choice([1, 1, 2, 3])):
    op = rng.choice(["style-loop", "style-self", "misplace", "set-kids", "br-kids", "dup-id", "deep", "deep", "region-in-content", "initial-anywhere",
                     "nested-tt", "empty-containers", "text-in-block", "seq-anywhere", "seq-anywhere"])
    content = [n for n in nodes if n.tag in ("div", "p", "span", "body")]
    if "deep" in done and op in ("misplace", "nested-tt", "deep"):
      continue      # (copying a very deep subtree would exhaust the generator's own stack)
    if op in ("style-loop", "style-self"):
      styling = (by_tag.get("styling") or [None])[0]
      if styling is None:
        head = (by_tag.get("head") or [None])[0]
        if head is None:
          continue
        styling = N("styling")
        head.kids.insert(0, styling)
        by_tag.setdefault("styling", []).append(styling)
      a, b = "zz1", "zz2"
      if op == "style-self":
        styling.kids.append(N("style", [["xml:id", a], ["style", a + " " + a], ["tts:color", "red"]]))
      else:
        k = rng.choice([2, 3])
        ids = [f"zz{i}" for i in range(k)]
        for i, sid in enumerate(ids):
          styling.kids.append(N("style", [["xml:id", sid], ["style", ids[(i + 1) % k]], ["tts:fontStyle", "italic"]]))
        a = ids[0]
      for n in rng.sample(content, min(len(content), 2)) + (by_tag.get("region") or [])[:1]:
        n.set("style", ((n.get("style") or "") + " " + a).strip())
    elif op == "misplace" and len(nodes) > 3:
      src = rng.choice(nodes[1:])
      dst = rng.choice(nodes)
      if dst is not src and dst not in list(src.walk()):
        dst.kids.insert(rng.randrange(len(dst.kids) + 1), copy.deepcopy(src))
    elif op in ("set-kids", "br-kids"):
      host = rng.choice(content) if content else None
      if host is not None:
        kid = N("set" if op == "set-kids" else "br", [["tts:color", "red"]] if op == "set-kids" else [],
                [rng.choice(["text", N("span", [], ["x"]), N("p", [], ["y"]), N("set", [["tts:color", "blue"]]), N("br")])])
        host.kids.insert(rng.randrange(len(host.kids) + 1), kid)
    elif op == "dup-id":
      withid = [n for n in nodes if n.get("xml:id")]
      if len(withid) >= 2:
        a, b = rng.sample(withid, 2)
        b.set("xml:id", a.get("xml:id"))
    elif op == "deep":
      host = rng.choice([n for n in nodes if n.tag in ("p", "span")] or content or [root])
      depth = rng.choice([30, 120, 250, 330, 400, 700])
      tag = rng.choice(["span", "span", "div"]) if host.tag != "p" or True else "span"
      top = cur = N(tag)
      for _ in range(depth - 1):
        nxt = N(tag)
        cur.kids.append(nxt)
        cur = nxt
      cur.kids.append("deep")
      host.kids.append(top)
    elif op == "region-in-content" and content:
      rng.choice(content).kids.insert(0, N("region", [["xml:id", "rX"], ["tts:extent", "10% 10%"]]))
    elif op == "initial-anywhere":
      rng.choice(nodes).kids.insert(0, N("initial", [["tts:color", rng.choice(["red", "", "nope"])]]))
    elif op == "nested-tt":
      rng.choice(nodes).kids.append(copy.deepcopy(root) if len(nodes) < 40 else N("tt"))
    elif op == "empty-containers":
      for n in nodes:
        if n.tag in ("head", "styling", "layout", "body", "div") and rng.random() < 0.5:
          n.kids = []
    elif op == "seq-anywhere":
      # timeContainer="seq" on elements that rarely carry it (region, br, set, span ...), each with a timed child
      for n in rng.sample(nodes, min(len(nodes), 4)) + (by_tag.get("region") or [])[:2]:
        if n.tag in ("region", "br", "set", "span", "p", "div", "body"):
          n.set("timeContainer", "seq")
          if n.tag in ("region", "br", "set"):
            n.kids.append(N("set", [["begin", "1s"], ["end", "2s"], ["tts:backgroundColor", "red"]]))
            if rng.random() < 0.5:
              n.kids.append(N("set", [["dur", "1s"], ["tts:opacity", "0.5"]]))
    elif op == "text-in-block":
      blk = [n for n in nodes if n.tag in ("tt", "head", "styling", "layout", "body", "div", "region")]
      if blk:
        rng.choice(blk).kids.insert(0, "stray text")
    done.append(op)
  return gt.to_xml(root, pretty).encode("utf-8"), done


def deep_text(rng, fmt):
  """SRT / WebVTT cue whose payload nests one tag to a depth of up to 1300."""
  depth = rng.choice([100, 300, 600, 950, 1100, 1300])
  tag = rng.choice(["b", "i", "u"] + (["c.red", "v Bob", "lang en"] if fmt == "vtt" else ["font color=\"red\""]))
  body = ("<" + tag + ">") * depth + "deep" + ("</" + tag.split(" ")[0].split(".")[0] + ">") * rng.choice([depth, depth, 0, depth // 2])
  if fmt == "vtt":
    return ("WEBVTT\n\n00:00:00.000 --> 00:00:01.000\n" + body + "\n\n00:00:02.000 --> 00:00:03.000\nx\n").encode("utf-8")
  return ("1\n00:00:00,000 --> 00:00:01,000\n" + body + "\n\n2\n00:00:02,000 --> 00:00:03,000\nx\n").encode("utf-8")


def nesting_depth(fmt, data: bytes) -> int:
  """Maximum number of simultaneously open tags / elements in the input (best effort, used to attribute D-DEEP-NESTING)."""
  import re
  try:
    text = data.decode("utf-8", "replace")
  except Exception:  # pylint: disable=broad-except
    return 0
  depth = best = 0
  for m in re.finditer(r"<(/?)([A-Za-z][^<>]*?)(/?)>", text):
    if m.group(3):
      continue
    if m.group(1):
      depth = max(0, depth - 1)
    else:
      depth += 1
      best = max(best, depth)
  return best
