"""Strict SRT / WebVTT parsers (written from the WebVTT file / cue-text grammar and the de-facto SubRip grammar) and
the expected-cue computation from the reference ISD (vt/ref/isd.py).  Used by C06 (cue text and intervals) and C07
(grammar, tags vs computed styles, cue settings)."""
from __future__ import annotations

import dataclasses
import re
import typing
from fractions import Fraction

from vt.ref import isd as refisd
from vt.ref.absdoc import dfield


class GrammarError(Exception):
  def __init__(self, mech, msg):
    super().__init__(msg)
    self.mech = mech


@dataclasses.dataclass
class Cue:
  ident: typing.Optional[str]
  begin_ms: int
  end_ms: int
  settings: typing.Dict[str, str]
  payload: str            # raw payload (lines joined with \n)
  lines: typing.List[str] = dataclasses.field(default_factory=list)


# -------------------------------------------------------------------------------------------------------------
# SubRip
# -------------------------------------------------------------------------------------------------------------
_SRT_TIME = re.compile(r"^(\d{2,}):(\d{2}):(\d{2}),(\d{3}) --> (\d{2,}):(\d{2}):(\d{2}),(\d{3})$")


def _ms(h, m, s, ms):
  h, m, s, ms = int(h), int(m), int(s), int(ms)
  if m > 59 or s > 59:
    raise GrammarError("time-field-range", f"minutes/seconds out of range: {h}:{m}:{s}")
  return ((h * 60 + m) * 60 + s) * 1000 + ms


def parse_srt(text: str) -> typing.List[Cue]:
  """Strict SubRip: blocks separated by exactly one blank line; counter, timing line, >= 1 non-empty payload line."""
  if text == "":
    return []
  if not text.endswith("\n"):
    raise GrammarError("no-final-newline", "file does not end with a newline")
  if "\r" in text:
    raise GrammarError("carriage-return", "carriage return in output")
  blocks = text[:-1].split("\n\n")
  cues = []
  for i, b in enumerate(blocks):
    lines = b.split("\n")
    if len(lines) < 3:
      raise GrammarError("srt-block-shape", f"block {i + 1} has {len(lines)} lines: {b!r}")
    if lines[0] != str(i + 1):
      raise GrammarError("srt-numbering", f"block {i + 1} is numbered {lines[0]!r}")
    m = _SRT_TIME.match(lines[1])
    if not m:
      raise GrammarError("srt-timing-line", f"bad timing line {lines[1]!r}")
    b_ms, e_ms = _ms(*m.groups()[:4]), _ms(*m.groups()[4:])
    payload = lines[2:]
    for ln in payload:
      if ln == "":
        raise GrammarError("empty-line-in-payload", f"empty line inside the payload of cue {i + 1}")
      if "-->" in ln:
        raise GrammarError("arrow-in-payload", f"'-->' inside the payload of cue {i + 1}: {ln!r}")
    cues.append(Cue(lines[0], b_ms, e_ms, {}, "\n".join(payload), payload))
  return cues


# -------------------------------------------------------------------------------------------------------------
# WebVTT
# -------------------------------------------------------------------------------------------------------------
_VTT_TIME = re.compile(r"^(?:(\d{2,}):)?(\d{2}):(\d{2})\.(\d{3}) --> (?:(\d{2,}):)?(\d{2}):(\d{2})\.(\d{3})((?: [^\s:]+:[^\s]+)*)$")
_CUE_RULE = re.compile(r"^::cue(?:\(\.([A-Za-z0-9_\-]+)\))? \{$")


@dataclasses.dataclass
class VttFile:
  cues: typing.List[Cue]
  css: typing.Dict[str, typing.Dict[str, str]]   # class name -> {property: value}; "" = ::cue
  has_style: bool


def parse_vtt(text: str) -> VttFile:
  if not text.startswith("WEBVTT\n"):
    raise GrammarError("vtt-header", f"file starts with {text[:20]!r}")
  if "\r" in text:
    raise GrammarError("carriage-return", "carriage return in output")
  if not text.endswith("\n"):
    raise GrammarError("no-final-newline", "file does not end with a newline")
  body = text[len("WEBVTT\n"):]
  if body == "\n" or body == "":
    return VttFile([], {}, False)
  if not body.startswith("\n"):
    raise GrammarError("vtt-header", "no blank line after the WEBVTT header")
  stripped = body[1:].rstrip("\n")      # trailing line terminators are allowed by the file grammar
  blocks = stripped.split("\n\n") if stripped else []
  cues = []
  css: typing.Dict[str, typing.Dict[str, str]] = {}
  has_style = False
  seen_cue = False
  for i, b in enumerate(blocks):
    if b == "":
      raise GrammarError("vtt-blank-run", "two consecutive blank lines / empty block")
    lines = b.split("\n")
    if lines[0] == "STYLE":
      if seen_cue:
        raise GrammarError("style-after-cue", "STYLE block after the first cue")
      has_style = True
      cur = None
      for ln in lines[1:]:
        m = _CUE_RULE.match(ln)
        if m:
          cur = m.group(1) or ""
          if cur in css:
            raise GrammarError("css-duplicate-rule", f"two rules for class {cur!r}")
          css[cur] = {}
        elif ln == "}":
          cur = None
        elif cur is not None and re.match(r"^  [a-z\-]+: [^;]+;$", ln):
          k, v = ln.strip()[:-1].split(": ", 1)
          css[cur][k] = v
        else:
          raise GrammarError("style-block-syntax", f"unexpected line in STYLE block: {ln!r}")
      continue
    if lines[0].startswith("NOTE") or lines[0] == "REGION":
      continue
    seen_cue = True
    ident = None
    if "-->" not in lines[0]:
      ident = lines[0]
      lines = lines[1:]
      if not lines:
        raise GrammarError("vtt-cue-shape", f"identifier {ident!r} without timing line")
    m = _VTT_TIME.match(lines[0])
    if not m:
      raise GrammarError("vtt-timing-line", f"bad timing line {lines[0]!r}")
    g = m.groups()
    b_ms, e_ms = _ms(g[0] or 0, g[1], g[2], g[3]), _ms(g[4] or 0, g[5], g[6], g[7])
    settings = {}
    for s in g[8].split():
      k, v = s.split(":", 1)
      if k in settings:
        raise GrammarError("vtt-setting-duplicate", f"setting {k} given twice")
      settings[k] = v
    payload = lines[1:]
    for ln in payload:
      if ln == "":
        raise GrammarError("empty-line-in-payload", "empty line inside a payload")
      if "-->" in ln:
        raise GrammarError("arrow-in-payload", f"'-->' inside a payload: {ln!r}")
    if not payload:
      raise GrammarError("vtt-empty-cue", f"cue at {lines[0]!r} has no payload")
    cues.append(Cue(ident, b_ms, e_ms, settings, "\n".join(payload), payload))
  return VttFile(cues, css, has_style)


def check_cue_order(cues: typing.List[Cue], allow_simultaneous=False):
  """begin < end; non-decreasing non-overlapping order. Returns list of (mech, msg)."""
  out = []
  prev = None
  for c in cues:
    if not c.begin_ms < c.end_ms:
      out.append(("cue-begin-not-before-end", f"cue {c.ident}: {c.begin_ms} ms --> {c.end_ms} ms"))
    if prev is not None:
      if c.begin_ms < prev.begin_ms:
        out.append(("cue-order", f"cue {c.ident} begins at {c.begin_ms} ms before the previous cue ({prev.begin_ms} ms)"))
      elif c.begin_ms < prev.end_ms and not (allow_simultaneous and (c.begin_ms, c.end_ms) == (prev.begin_ms, prev.end_ms)):
        out.append(("cue-overlap", f"cue {c.ident} [{c.begin_ms},{c.end_ms}) overlaps the previous cue [{prev.begin_ms},{prev.end_ms})"))
    prev = c
  return out


def check_ids(cues: typing.List[Cue], expect_ids: bool):
  out = []
  for i, c in enumerate(cues):
    if expect_ids and c.ident != str(i + 1):
      out.append(("cue-numbering", f"cue {i + 1} has identifier {c.ident!r}"))
    if not expect_ids and c.ident is not None:
      out.append(("cue-id-present", f"cue {i + 1} has identifier {c.ident!r} although cue ids are disabled"))
  return out


# -------------------------------------------------------------------------------------------------------------
# payload markup -> per-character attribute runs
# -------------------------------------------------------------------------------------------------------------
_SRT_TAG = re.compile(r"<(/?)(b|i|u|font)(?: color=\"(#[0-9a-f]{8})\")?>")
_VTT_TAG = re.compile(r"<(/?)(b|i|u|c)((?:\.[A-Za-z0-9_\-]+)*)>")
_VTT_ENT = re.compile(r"&(amp|lt|gt|nbsp|lrm|rlm);")
_ENT = {"amp": "&", "lt": "<", "gt": ">", "nbsp": " ", "lrm": "‎", "rlm": "‏"}


@dataclasses.dataclass(frozen=True)
class CharAttr:
  bold: bool = False
  italic: bool = False
  underline: bool = False
  color: typing.Optional[tuple] = None      # RGBA or None (no colour markup in effect)
  bg: typing.Optional[tuple] = None
  # markup that only restates a default (every colour tag in effect says opaque white / every background class is fully
  # transparent): tags must enclose exactly the characters whose computed style DIFFERS from the defaults
  redundant: tuple = dataclasses.field(default=(), compare=False)


def _hex_rgba(s):
  return tuple(int(s[i:i + 2], 16) for i in (1, 3, 5, 7))


def srt_runs(payload: str, formatting: bool):
  """Returns (text, [CharAttr per character]). Raises GrammarError on unbalanced / crossing tags."""
  out_text = []
  attrs = []
  stack = []
  pos = 0
  for m in _SRT_TAG.finditer(payload):
    for ch in payload[pos:m.start()]:
      out_text.append(ch)
      attrs.append(_attr_from_stack(stack))
    pos = m.end()
    if not formatting:
      raise GrammarError("tag-with-formatting-disabled", f"tag {m.group(0)!r} emitted although text formatting is disabled")
    closing, name, color = m.group(1) == "/", m.group(2), m.group(3)
    if not closing:
      if name == "font" and color is None:
        raise GrammarError("font-without-color", f"{m.group(0)!r}")
      stack.append((name, _hex_rgba(color) if color else None))
    else:
      if not stack:
        raise GrammarError("tag-unbalanced", f"closing {m.group(0)!r} without opening tag")
      if stack[-1][0] != name:
        raise GrammarError("tag-crossing", f"closing {m.group(0)!r} while <{stack[-1][0]}> is open")
      stack.pop()
  for ch in payload[pos:]:
    out_text.append(ch)
    attrs.append(_attr_from_stack(stack))
  if stack:
    raise GrammarError("tag-unbalanced", f"unclosed tags {[s[0] for s in stack]}")
  return "".join(out_text), attrs


def _attr_from_stack(stack):
  bold = any(s[0] == "b" for s in stack)
  italic = any(s[0] == "i" for s in stack)
  under = any(s[0] == "u" for s in stack)
  color = None
  bg = None
  colors, bgs = [], []
  for s in stack:
    if s[0] == "font":
      color = s[1]
      colors.append(tuple(s[1]))
    elif s[0] == "c":
      for kind, val in s[1]:
        if kind == "color":
          color = val
          colors.append(tuple(val))
        else:
          bgs.append(tuple(val))
          if val[3] != 0:
            # every element paints its own background over its ancestors': a fully transparent one leaves the ancestor's visible
            bg = val
  red = []
  if colors and all(c == (255, 255, 255, 255) for c in colors):
    red.append("color")
  if bgs and all(b == (0, 0, 0, 0) for b in bgs):
    red.append("background")
  return CharAttr(bold, italic, under, color, bg, tuple(red))


def _css_color(v: str):
  v = v.strip()
  if re.match(r"^#[0-9a-fA-F]{8}$", v):
    return _hex_rgba(v.lower())
  if re.match(r"^#[0-9a-fA-F]{6}$", v):
    return _hex_rgba(v.lower() + "ff")
  if v == "transparent":
    return (0, 0, 0, 0)
  raise GrammarError("css-color-syntax", f"unsupported CSS colour {v!r}")


def vtt_runs(payload: str, css):
  """WebVTT cue text: tags b/i/u/c.class, entities; '&' and '<' must be escaped."""
  out_text = []
  attrs = []
  stack = []
  i = 0
  n = len(payload)
  while i < n:
    ch = payload[i]
    if ch == "<":
      m = _VTT_TAG.match(payload, i)
      if not m:
        raise GrammarError("vtt-unescaped-lt", f"'<' that is not a known tag at {payload[i:i + 12]!r}")
      closing, name, classes = m.group(1) == "/", m.group(2), [c for c in m.group(3).split(".") if c]
      if not closing:
        vals = []
        if name == "c":
          if not classes:
            raise GrammarError("class-tag-without-class", m.group(0))
          for c in classes:
            if c not in css:
              raise GrammarError("css-class-undefined", f"class {c!r} used but no ::cue(.{c}) rule")
            rule = css[c]
            if "color" in rule:
              vals.append(("color", _css_color(rule["color"])))
            if "background-color" in rule:
              vals.append(("bg", _css_color(rule["background-color"])))
        stack.append((name, vals))
      else:
        if classes:
          raise GrammarError("vtt-end-tag-classes", m.group(0))
        if not stack:
          raise GrammarError("tag-unbalanced", f"closing {m.group(0)!r} without opening tag")
        if stack[-1][0] != name:
          raise GrammarError("tag-crossing", f"closing {m.group(0)!r} while <{stack[-1][0]}> is open")
        stack.pop()
      i = m.end()
      continue
    if ch == "&":
      m = _VTT_ENT.match(payload, i)
      if not m:
        raise GrammarError("vtt-unescaped-amp", f"'&' that is not a character reference at {payload[i:i + 10]!r}")
      out_text.append(_ENT[m.group(1)])
      attrs.append(_attr_from_stack(stack))
      i = m.end()
      continue
    out_text.append(ch)
    attrs.append(_attr_from_stack(stack))
    i += 1
  if stack:
    raise GrammarError("tag-unbalanced", f"unclosed tags {[s[0] for s in stack]}")
  return "".join(out_text), attrs


# -------------------------------------------------------------------------------------------------------------
# expected cues from the reference ISD
# -------------------------------------------------------------------------------------------------------------
@dataclasses.dataclass
class ExpChar:
  ch: str
  attr: CharAttr
  optional: bool = False     # ruby annotation text (rt / rp): may or may not be written
  oblique: bool = False
  anc_on: tuple = (False, False, False)   # (bold, italic, underline) switched on by an inline ancestor of the char's span


def _span_attr(node: refisd.RefNode):
  """CharAttr a text node's parent span computes to; None components when not certain."""
  st = node.styles
  fw = st["FontWeight"][0]
  fs = st["FontStyle"][0]
  td = st["TextDecoration"][0]
  col = st["Color"][0]
  # background: innermost inline ancestor with a non-transparent background
  bg = None
  p = node
  while p is not None and p.kind not in ("P", "Div", "Body", "Region"):
    b = p.styles["BackgroundColor"][0]
    if b[1][3] != 0:
      # backgrounds of ruby containers / bases are not judged (the statement speaks of span-level tags)
      bg = tuple(b[1]) if p.kind == "Span" else "not-judged"
      break
    p = getattr(p, "_parent", None)
  # does an inline ancestor (below the paragraph) switch the attribute on?  (mechanism of D-NESTED-STYLE-RESET)
  anc = [False, False, False]
  p = getattr(node, "_parent", None)
  while p is not None and p.kind not in ("P", "Div", "Body", "Region"):
    anc[0] = anc[0] or p.styles["FontWeight"][0][2] == "bold"
    anc[1] = anc[1] or p.styles["FontStyle"][0][2] == "italic"
    anc[2] = anc[2] or dfield(p.styles["TextDecoration"][0], "underline") is True
    p = getattr(p, "_parent", None)
  # is the colour the default (opaque white) on the whole inheritance chain?  Only then is colour markup around the text redundant
  chain_default = True
  p = node
  while p is not None:
    if tuple(p.styles["Color"][0][1]) != (255, 255, 255, 255):
      chain_default = False
      break
    p = getattr(p, "_parent", None)
  return CharAttr(bold=fw[2] == "bold", italic=fs[2] == "italic", underline=dfield(td, "underline") is True,
                  color=tuple(col[1]), bg=bg, redundant=("chain-default",) if chain_default else ()), (fs[2] == "oblique", tuple(anc))


def flatten_region(region: refisd.RefNode):
  """Returns list of paragraphs; each paragraph is a list of ExpChar with '\n' ExpChar for br."""
  paras = []

  def inline(n, out, optional):
    if n.kind == "Text":
      attr, (obl, anc) = _span_attr(n._parent)  # pylint: disable=protected-access
      for ch in n.text or "":
        out.append(ExpChar(ch, attr, optional, obl, anc))
    elif n.kind == "Br":
      out.append(ExpChar("\n", CharAttr(), optional))
    else:
      opt = optional or n.kind in ("Rt", "Rtc", "Rp")
      for c in n.children:
        inline(c, out, opt)

  def block(n):
    if n.kind == "P":
      out = []
      for c in n.children:
        inline(c, out, False)
      paras.append((n, out))
    else:
      for c in n.children:
        block(c)
  for b in region.children:
    block(b)
  return paras


def ms_round(t: Fraction):
  """Nearest millisecond; returns the tuple of acceptable values (two at exact ties)."""
  x = t * 1000
  lo = x.numerator // x.denominator
  fr = x - lo
  if fr < Fraction(1, 2):
    return (lo,)
  if fr > Fraction(1, 2):
    return (lo + 1,)
  return (lo, lo + 1)


def lines_of(chars: typing.List[ExpChar], with_optional: bool):
  """Token lines: [[token, ...], ...] splitting on newline characters, dropping blank lines."""
  s = "".join(c.ch for c in chars if with_optional or not c.optional)
  return [toks(ln) for ln in re.split(r"\n+", s) if toks(ln)]


def toks(line: str):
  """Tokens of one line, split on XML white space only: other Unicode spaces (U+00A0, U+3000 ...) are characters of the text."""
  return [t for t in re.split(r"[ \t\r\n]+", line) if t]
