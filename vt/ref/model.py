"""Abstract (plain-dict) model of the ttconv canonical-model API for C15.

Written from TTML2 (8.1 content model, 10.2.35 tts:ruby, 10.2 style value syntax), from ttconv's published
doc/data_model.md and from the docstrings of the public API - not from the method bodies.

A *state* is the plain-data snapshot produced by vt.mon.wf.snapshot():
  {"el":  {name: {"kind", "parent", "children": [names], "doc", "region", "styles": {prop: repr}, "anims": [(prop, begin, end, value reprs)],
                  "begin", "end", "id", "lang", "space", "text", "links": (...)}},
   "doc": {name: {"regions": {id: name}, "body", "initials": {prop: repr}, "misc": (...)}}}
An *op* is a JSON-able list: [opname, target, args...] naming universe objects symbolically.

classify(state, op, pools) -> short flavour string describing the call relative to the pre-state (used in mech keys and
                              coverage counters; it never decides accept/reject)
predict(state, op, pools)  -> None (abstain) or (expected_post_state, wildcards) for a call that was ACCEPTED, where
                              wildcards is a set of ("el"|"doc", name, field) paths the model does not constrain
single_element(state, op)  -> whether a rejected call must leave the public state unchanged
seq_ok / seq_strict        -> content model of child-kind sequences
value_ok(prop, value)      -> reference validity of a style / animation / initial value
"""
import numbers
import re

# ------------------------------------------------------------------------------------------------------------------
# content model
# ------------------------------------------------------------------------------------------------------------------

KINDS = ("Body", "Div", "P", "Span", "Br", "Ruby", "Rb", "Rt", "Rp", "Rbc", "Rtc", "Text", "Region")

# kind -> kinds allowed as children wherever they appear (sequence constraints of Ruby / Rtc handled separately)
ALLOWED = {
  "Body": frozenset(["Div"]),
  "Div": frozenset(["Div", "P"]),
  "P": frozenset(["Span", "Br", "Ruby"]),
  "Span": frozenset(["Span", "Br", "Text"]),
  "Br": frozenset(),
  "Text": frozenset(),
  "Region": frozenset(),
  "Rb": frozenset(["Span"]),
  "Rt": frozenset(["Span"]),
  "Rp": frozenset(["Span"]),
  "Rbc": frozenset(["Rb"]),
  "Ruby": frozenset(["Rb", "Rt", "Rp", "Rbc", "Rtc"]),
  "Rtc": frozenset(["Rt", "Rp"]),
}

_LETTER = {"Rb": "b", "Rt": "t", "Rp": "p", "Rbc": "B", "Rtc": "T"}

# TTML2 10.2.35: container = (base text) | (base delimiter text delimiter) | (baseContainer textContainer textContainer?)
_RUBY_STRICT = re.compile(r"bt|bptp|BTT?")
#   textContainer = text+ | delimiter text+ delimiter
_RTC_STRICT = re.compile(r"t+|pt+p")
# ttconv doc/data_model.md publishes a looser grammar (Rb? Rt? | Rb? Rp Rt? Rp | Rbc Rtc Rtc? ; Rt* | Rp Rt* Rp); an Rtc is
# built child by child through push_child, so proper prefixes of "Rp Rt* Rp" are reachable by design.
_RUBY_LOOSE = re.compile(r"b?t?|b?pt?p|BTT?")
_RTC_LOOSE = re.compile(r"t*|pt*p?")


def _letters(kinds):
  return "".join(_LETTER.get(k, "x") for k in kinds)


def seq_ok(kind, kinds):
  """Whether a parent of `kind` may have exactly the child kinds `kinds` (in order). Lenient: a sequence is refused only
  when both TTML2 and ttconv's published data model refuse it."""
  allowed = ALLOWED.get(kind)
  if allowed is None:
    return True  # unknown parent kind: abstain
  if any(k not in allowed for k in kinds):
    return False
  if kind == "Ruby":
    s = _letters(kinds)
    return bool(_RUBY_STRICT.fullmatch(s) or _RUBY_LOOSE.fullmatch(s))
  if kind == "Rtc":
    s = _letters(kinds)
    return bool(_RTC_STRICT.fullmatch(s) or _RTC_LOOSE.fullmatch(s))
  return True


def seq_strict(kind, kinds):
  """TTML2-strict variant (complete ruby / rtc patterns, empty allowed because constructors create empty containers)."""
  if not seq_ok(kind, kinds):
    return False
  if not kinds:
    return True
  if kind == "Ruby":
    return bool(_RUBY_STRICT.fullmatch(_letters(kinds)))
  if kind == "Rtc":
    return bool(_RTC_STRICT.fullmatch(_letters(kinds)))
  return True


# ------------------------------------------------------------------------------------------------------------------
# reference validity of style values (TTML2 10.2 / IMSC 1.1 value syntax expressed on ttconv's value vocabulary)
# ------------------------------------------------------------------------------------------------------------------

_SP = None


def _sp():
  global _SP  # pylint: disable=global-statement
  if _SP is None:
    import ttconv.style_properties as sp  # pylint: disable=import-outside-toplevel
    _SP = sp
  return _SP


def _length(v, units=None):
  sp = _sp()
  if not isinstance(v, sp.LengthType):
    return False
  if not isinstance(v.value, numbers.Number) or isinstance(v.value, bool):
    return False
  if not isinstance(v.units, sp.LengthType.Units):
    return False
  return units is None or v.units.value in units

_ROOT_UNITS = ("c", "%", "rh", "rw", "px")   # doc/data_model.md: extent, origin, position lengths


def _enum(name):
  return lambda v: isinstance(v, getattr(_sp(), name))


def _number(v):
  return isinstance(v, numbers.Number) and not isinstance(v, bool)


def _special(member):
  return lambda v: isinstance(v, _sp().SpecialValues) and v is getattr(_sp().SpecialValues, member)


def _either(*fs):
  return lambda v: any(f(v) for f in fs)


def _font_family(v):
  sp = _sp()
  return isinstance(v, tuple) and all(isinstance(i, (str, sp.GenericFontFamilyType)) for i in v)


def _extent(v):
  return isinstance(v, _sp().ExtentType) and _length(v.width, _ROOT_UNITS) and _length(v.height, _ROOT_UNITS)


def _origin(v):
  return isinstance(v, _sp().CoordinateType) and _length(v.x, _ROOT_UNITS) and _length(v.y, _ROOT_UNITS)


def _position(v):
  sp = _sp()
  return isinstance(v, sp.PositionType) and _length(v.h_offset, _ROOT_UNITS) and _length(v.v_offset, _ROOT_UNITS) \
    and isinstance(v.h_edge, sp.PositionType.HEdge) and isinstance(v.v_edge, sp.PositionType.VEdge)


def _padding(v):
  return isinstance(v, _sp().PaddingType) and all(_length(x) for x in (v.before, v.end, v.after, v.start))


def _ruby_reserve(v):
  sp = _sp()
  return isinstance(v, sp.RubyReserveType) and isinstance(v.position, sp.RubyReserveType.Position) \
    and (v.length is None or _length(v.length))


def _text_shadow(v):
  sp = _sp()
  return isinstance(v, sp.TextShadowType) and isinstance(v.shadows, (tuple, list)) \
    and all(isinstance(s, sp.TextShadowType.Shadow) for s in v.shadows)


_VALID = {
  "BackgroundColor": lambda v: isinstance(v, _sp().ColorType),
  "Color": lambda v: isinstance(v, _sp().ColorType),
  "Direction": _enum("DirectionType"),
  "Disparity": _length,
  "Display": _enum("DisplayType"),
  "DisplayAlign": _enum("DisplayAlignType"),
  "Extent": _extent,
  "FillLineGap": lambda v: isinstance(v, bool),
  "FontFamily": _font_family,
  "FontSize": _length,
  "FontStyle": _enum("FontStyleType"),
  "FontWeight": _enum("FontWeightType"),
  "LineHeight": _either(_special("normal"), _length),
  "LinePadding": _length,
  "LuminanceGain": _number,
  "MultiRowAlign": _enum("MultiRowAlignType"),
  "Opacity": _number,
  "Origin": _origin,
  "Overflow": _enum("OverflowType"),
  "Padding": _padding,
  "Position": _position,
  "RubyAlign": _enum("RubyAlignType"),
  "RubyPosition": _enum("AnnotationPositionType"),
  "RubyReserve": _either(_special("none"), _ruby_reserve),
  "Shear": _number,
  "ShowBackground": _enum("ShowBackgroundType"),
  "TextAlign": _enum("TextAlignType"),
  "TextCombine": _enum("TextCombineType"),
  "TextDecoration": _either(_special("none"), lambda v: isinstance(v, _sp().TextDecorationType)),
  "TextEmphasis": _either(_special("none"), lambda v: isinstance(v, _sp().TextEmphasisType)),
  "TextOutline": _either(_special("none"), lambda v: isinstance(v, _sp().TextOutlineType)),
  "TextShadow": _either(_special("none"), _text_shadow),
  "UnicodeBidi": _enum("UnicodeBidiType"),
  "Visibility": _enum("VisibilityType"),
  "WrapOption": _enum("WrapOptionType"),
  "WritingMode": _enum("WritingModeType"),
}

PROPERTY_NAMES = tuple(sorted(_VALID))


def prop_name(prop):
  """Name of a ttconv style property class if it is one of the 36 defined ones, else None."""
  sp = _sp()
  n = getattr(prop, "__name__", None)
  if isinstance(n, str) and n in _VALID and getattr(sp.StyleProperties, n, None) is prop:
    return n
  return None


def value_ok(pname, value):
  """Reference validity; None (abstain) for a property this table does not know."""
  f = _VALID.get(pname)
  if f is None:
    return None
  try:
    return bool(f(value))
  except Exception:  # pylint: disable=broad-except
    return False


# ------------------------------------------------------------------------------------------------------------------
# state helpers
# ------------------------------------------------------------------------------------------------------------------

def clone(s):
  """Copy of a state deep enough for predict() to edit."""
  return {
    "el": {n: {**e, "children": list(e["children"]), "styles": dict(e["styles"]), "anims": list(e["anims"])}
           for n, e in s["el"].items()},
    "doc": {n: {**d, "regions": dict(d["regions"]), "initials": dict(d["initials"])} for n, d in s["doc"].items()},
  }


def ancestors(s, x):
  """Proper ancestors of x following `parent` (bounded)."""
  out = []
  el = s["el"]
  cur = el[x]["parent"] if x in el else None
  while cur is not None and cur in el and cur not in out and len(out) <= len(el):
    out.append(cur)
    cur = el[cur]["parent"]
  return out


def subtree(s, x):
  """x and its descendants following `children` (bounded, duplicates dropped)."""
  out, todo = [], [x]
  el = s["el"]
  while todo and len(out) <= len(el):
    n = todo.pop()
    if n in out or n not in el:
      continue
    out.append(n)
    todo.extend(reversed(el[n]["children"]))
  return out


def _is_el(s, n):
  return isinstance(n, str) and n in s["el"]


def _is_region(s, n):
  return _is_el(s, n) and s["el"][n]["kind"] == "Region"


def _child_plain(s, p, c, seen=()):
  """None when pushing c under p is the documented plain case, else the reason."""
  el = s["el"]
  if not _is_el(s, c):
    return "not-an-element"
  if c == p:
    return "self"
  if c in ancestors(s, p):
    return "ancestor"
  if el[c]["parent"] is not None:
    return "has-parent"
  if c in seen:
    return "duplicate"
  if el[c]["doc"] != el[p]["doc"]:
    return "doc-mismatch"
  if el[c]["kind"] not in ALLOWED.get(el[p]["kind"], frozenset()):
    return "kind"
  return None


def off_body(s, n):
  """Whether element n is outside the body tree of its document: its root (top of the parent chain) is not the body
  of the document it belongs to."""
  el = s["el"]
  anc = ancestors(s, n)
  root = anc[-1] if anc else n
  d = el[n]["doc"]
  return d is None or d not in s["doc"] or s["doc"][d]["body"] != root


def _refs(s, d, rid):
  """Elements of document d referencing a region whose id is rid -> (names, how many of them are in the body tree)."""
  el = s["el"]
  names = [n for n, e in el.items() if e["doc"] == d and e["region"] is not None and _is_el(s, e["region"])
           and el[e["region"]]["id"] == rid]
  return names, sum(1 for n in names if not off_body(s, n))


def _ref_where(names, n_in):
  if n_in == len(names):
    return "in-body"
  return "off-body" if n_in == 0 else "in-and-off-body"


SINGLE_OPS = frozenset(["push_child", "remove_child", "remove", "set_region", "set_body", "set_style",
                        "add_animation_step", "put_initial_value", "put_region"])


def single_element(s, op):
  """A rejected call of this kind must leave the public state unchanged (property statement, last sentence)."""
  name = op[0]
  if name in SINGLE_OPS:
    return True
  if name == "set_doc":
    return _is_el(s, op[1]) and not s["el"][op[1]]["children"]
  return False


# ------------------------------------------------------------------------------------------------------------------
# classification of a call relative to the pre-state
# ------------------------------------------------------------------------------------------------------------------

def classify(s, op, pools):
  name = op[0]
  el, docs = s["el"], s["doc"]
  if name == "push_child":
    p, c = op[1], op[2]
    why = _child_plain(s, p, c)
    if why is not None:
      return why
    kinds = [el[x]["kind"] for x in el[p]["children"]] + [el[c]["kind"]]
    return "plain" if seq_ok(el[p]["kind"], kinds) else "sequence"
  if name == "push_children":
    p, cs = op[1], op[2]
    k = el[p]["kind"]
    if k not in ("Ruby", "Rtc"):
      k = "generic"          # only Ruby and Rtc constrain the order of their children
    seen = []
    reasons = []
    for c in cs:
      why = _child_plain(s, p, c, seen)
      if why is not None:
        reasons.append(why)
      seen.append(c)
    if "self" in reasons or "ancestor" in reasons:
      return k + ":ancestor"
    if reasons:
      return k + ":irregular"
    kinds = [el[x]["kind"] for x in el[p]["children"]] + [el[c]["kind"] for c in cs]
    if not seq_ok(el[p]["kind"], kinds):
      return k + ":sequence"
    return k + (":plain" if cs else ":empty")
  if name == "remove":
    return "root" if el[op[1]]["parent"] is None else "plain"
  if name == "remove_child":
    return "plain" if _is_el(s, op[2]) and el[op[2]]["parent"] == op[1] and op[2] in el[op[1]]["children"] else "not-child"
  if name == "remove_children":
    return "plain" if el[op[1]]["children"] else "childless"
  if name == "set_doc":
    x, d = op[1], op[2]
    cur = el[x]["doc"]
    if d == cur:
      f = "same"
    elif d is None:
      f = "detach"
    elif cur is None:
      f = "attach"
    else:
      f = "move"
    if el[x]["parent"] is not None:
      f += "-child"
    if el[x]["children"]:
      f += "-subtree"
    return f
  if name == "set_region":
    x, r = op[1], op[2]
    if r is None:
      return "clear"
    if not _is_region(s, r):
      return "not-a-region"
    d = el[x]["doc"]
    if d is None:
      return "no-doc"
    reg = docs[d]["regions"].get(el[r]["id"])
    if reg == r:
      return "registered"
    if reg is None:
      return "unknown-id"
    return "same-id-foreign-doc" if el[r]["doc"] != d else "same-id-unregistered-object"
  if name == "put_region":
    d, r = op[1], op[2]
    if not _is_region(s, r):
      return "not-a-region"
    if el[r]["doc"] != d:
      return "foreign-doc"
    cur = docs[d]["regions"].get(el[r]["id"])
    if cur is None:
      return "new"
    if cur == r:
      return "same"
    refs, n_in = _refs(s, d, el[r]["id"])
    return "replace-referenced-" + _ref_where(refs, n_in) if refs else "replace-unreferenced"
  if name == "remove_region":
    d, rid = op[1], op[2]
    if rid not in docs[d]["regions"]:
      return "unknown-id"
    refs, n_in = _refs(s, d, rid)
    if not refs:
      return "unreferenced"
    return "referenced-" + _ref_where(refs, n_in)
  if name == "set_body":
    d, b = op[1], op[2]
    if b is None:
      return "clear"
    if not _is_el(s, b) or el[b]["kind"] != "Body":
      return "not-a-body"
    if el[b]["parent"] is not None:
      return "has-parent"
    if el[b]["doc"] != d:
      return "foreign-doc"
    return "plain"
  if name in ("set_style", "put_initial_value"):
    pname, vname = op[2], op[3]
    if pname not in _VALID:
      return "not-a-property"
    if vname == "None":
      return "remove"
    return "valid" if value_ok(pname, pools["values"][vname]) else "invalid-value"
  if name == "add_animation_step":
    spec = pools["steps"].get(op[2])
    if spec is None or spec[0] == "raw":
      return "not-a-step"
    pname, _b, _e, vname = spec
    if pname not in _VALID:
      return "not-a-property"
    return "valid" if vname != "None" and value_ok(pname, pools["values"][vname]) else "invalid-value"
  if name == "copy_to":
    return "same-object" if op[1] == op[2] else "plain"
  if name == "doc_copy_to":
    return "same-object" if op[1] == op[2] else "plain"
  return "?"


# ------------------------------------------------------------------------------------------------------------------
# predicted post-state of ACCEPTED calls (documented effect + frame condition "nothing else changes")
# ------------------------------------------------------------------------------------------------------------------

def predict(s, op, pools, flavor=None):
  """Returns (expected, wildcards) or None when the model has no opinion (the call is outside the documented plain
  case, so only the invariant walker judges the result)."""
  name = op[0]
  f = flavor if flavor is not None else classify(s, op, pools)
  wild = set()
  if name == "push_child":
    if f != "plain":
      return None
    t = clone(s)
    t["el"][op[1]]["children"].append(op[2])
    t["el"][op[2]]["parent"] = op[1]
    return t, wild
  if name == "push_children":
    if not f.endswith(":plain") and not f.endswith(":empty"):
      return None
    t = clone(s)
    for c in op[2]:
      t["el"][op[1]]["children"].append(c)
      t["el"][c]["parent"] = op[1]
    return t, wild
  if name == "remove":
    t = clone(s)
    p = s["el"][op[1]]["parent"]
    if p is not None:
      t["el"][p]["children"] = [c for c in t["el"][p]["children"] if c != op[1]]
      t["el"][op[1]]["parent"] = None
    return t, wild
  if name == "remove_child":
    if f != "plain":
      return None
    t = clone(s)
    t["el"][op[1]]["children"] = [c for c in t["el"][op[1]]["children"] if c != op[2]]
    t["el"][op[2]]["parent"] = None
    return t, wild
  if name == "remove_children":
    t = clone(s)
    for c in s["el"][op[1]]["children"]:
      t["el"][c]["parent"] = None
    t["el"][op[1]]["children"] = []
    return t, wild
  if name == "set_doc":
    x, d = op[1], op[2]
    if s["el"][x]["parent"] is not None:
      return None
    t = clone(s)
    cur = s["el"][x]["doc"]
    for n in subtree(s, x):
      t["el"][n]["doc"] = d
      if d != s["el"][n]["doc"]:
        wild.add(("el", n, "region"))      # a region reference may be dropped (it must be, the walker decides)
    if cur is not None and d != cur:
      if s["doc"][cur]["body"] == x:
        wild.add(("doc", cur, "body"))
      if s["el"][x]["kind"] == "Region":
        wild.add(("doc", cur, "regions"))  # abstain: whether a leaving region is unregistered
        for n, e in s["el"].items():
          if e["region"] == x:
            wild.add(("el", n, "region"))
    return t, wild
  if name == "set_region":
    if f not in ("clear", "registered"):
      return None
    t = clone(s)
    t["el"][op[1]]["region"] = op[2]
    return t, wild
  if name == "put_region":
    if f not in ("new", "same", "replace-unreferenced") and not f.startswith("replace-referenced"):
      return None
    t = clone(s)
    rid = s["el"][op[2]]["id"]
    t["doc"][op[1]]["regions"][rid] = op[2]
    if f.startswith("replace-referenced"):
      for n in _refs(s, op[1], rid)[0]:
        wild.add(("el", n, "region"))
    return t, wild
  if name == "remove_region":
    t = clone(s)
    t["doc"][op[1]]["regions"].pop(op[2], None)
    for n in _refs(s, op[1], op[2])[0]:
      wild.add(("el", n, "region"))
    return t, wild
  if name == "set_body":
    if f not in ("clear", "plain"):
      return None
    t = clone(s)
    t["doc"][op[1]]["body"] = op[2]
    return t, wild
  if name in ("set_style", "put_initial_value"):
    if f not in ("valid", "remove"):
      return None
    t = clone(s)
    tgt = t["el"][op[1]]["styles"] if name == "set_style" else t["doc"][op[1]]["initials"]
    if name == "set_style" and s["el"][op[1]]["kind"] == "Text":
      return t, wild       # Text nodes carry no styles: accepted removal is a no-op; an accepted store is judged by the walker
    if f == "remove":
      tgt.pop(op[2], None)
    else:
      tgt[op[2]] = repr(pools["values"][op[3]])
    return t, wild
  if name == "add_animation_step":
    if f != "valid":
      return None
    t = clone(s)
    pname, b, e, vname = pools["steps"][op[2]]
    t["el"][op[1]]["anims"].append((pname, repr(b), repr(e), repr(pools["values"][vname])))
    return t, wild
  if name == "copy_to":
    # "Copy all information but children": the structure of the whole universe is unchanged; what is copied onto the
    # destination (merge or replace) is not judged.
    t = clone(s)
    if _is_el(s, op[2]):
      for fld in ("styles", "anims", "begin", "end", "id", "lang", "space", "text"):
        wild.add(("el", op[2], fld))
    return t, wild
  if name == "doc_copy_to":
    t = clone(s)
    wild.add(("doc", op[2], "initials"))
    wild.add(("doc", op[2], "misc"))
    return t, wild
  return None


ABSTRACT_EL_FIELDS = ("kind", "parent", "children", "doc", "region", "styles", "anims", "begin", "end", "id", "lang",
                      "space", "text")
ABSTRACT_DOC_FIELDS = ("regions", "body", "initials", "misc")
STRUCT_EL_FIELDS = ("parent", "children", "doc", "region")
STRUCT_DOC_FIELDS = ("regions", "body")


def compare(expected, observed, wild=frozenset()):
  """Differences between a predicted and an observed state on the abstract fields (raw link fields are the walker's)."""
  diffs = []
  for n, e in expected["el"].items():
    o = observed["el"][n]
    for fld in ABSTRACT_EL_FIELDS:
      if ("el", n, fld) in wild:
        continue
      ev, ov = e[fld], o[fld]
      if ev != ov:
        diffs.append(f"{n}.{fld}: expected {ev!r}, observed {ov!r}")
  for n, e in expected["doc"].items():
    o = observed["doc"][n]
    for fld in ABSTRACT_DOC_FIELDS:
      if ("doc", n, fld) in wild:
        continue
      if e[fld] != o[fld]:
        diffs.append(f"{n}.{fld}: expected {e[fld]!r}, observed {o[fld]!r}")
  return diffs


def structure_changed(a, b):
  """Whether two states differ in tree structure / ownership / region wiring (the non-triviality rule of C15)."""
  for n, e in a["el"].items():
    o = b["el"][n]
    for fld in STRUCT_EL_FIELDS:
      if e[fld] != o[fld]:
        return True
  for n, e in a["doc"].items():
    o = b["doc"][n]
    for fld in STRUCT_DOC_FIELDS:
      if e[fld] != o[fld]:
        return True
  return False
