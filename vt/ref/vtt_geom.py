"""Reference mapping WebVTT cue settings -> what a TTML-like region must satisfy.
Written from W3C WebVTT: section 4.4/6.3 (cue settings: vertical, line, position, size, align and their defaults),
section 3.1-3.2 (computed line / computed position / computed position alignment) and section 7.2 (processing cue
settings: maximum size, size, x/y position, line alignment).  Nothing here is taken from ttconv.

All numbers are fractions.Fraction percentages of the video viewport ( = TTML root container).

cue_box(settings) : the box the WebVTT rendering rules give for cues that do not snap to lines (percentage line) and the
                    inline-direction placement for all cues.  Used for diagnostics and for the percentage-line clause.
expectations(settings) : the facts C11 judges (see each field) - everything else is an abstention.
"""
from fractions import Fraction

F = Fraction


def pct(s):
  assert s.endswith("%")
  return F(s[:-1])


def parse(settings):
  """settings: list of [name, value] pairs from the generator's AST (values are the printed strings)."""
  d = {"vertical": None, "line": None, "line_is_pct": False, "line_align": None, "position": None, "position_align": None,
       "size": F(100), "align": "center", "size_set": False, "align_set": False}
  for name, value in settings:
    if name == "vertical":
      d["vertical"] = value
    elif name == "line":
      v, _, al = value.partition(",")
      if v.endswith("%"):
        d["line"] = pct(v)
        d["line_is_pct"] = True
      else:
        d["line"] = int(v)
      d["line_align"] = al or None
    elif name == "position":
      v, _, al = value.partition(",")
      d["position"] = pct(v)
      d["position_align"] = al or None
    elif name == "size":
      d["size"] = pct(value)
      d["size_set"] = True
    elif name == "align":
      d["align"] = value
      d["align_set"] = True
    else:
      raise ValueError(name)
  return d


def inline_box(d, ltr=True):
  """WebVTT 7.2 steps 2-5 (+ 3.2 computed position / computed position alignment): offset and size of the cue box
  along the inline direction (x for horizontal cues, y for vertical cues), in % of that dimension."""
  align = d["align"]
  # computed position
  if d["position"] is not None:
    position = d["position"]
  elif align == "left" or (align == "start" and ltr) or (align == "end" and not ltr):
    position = F(0)
  elif align == "right" or (align == "end" and ltr) or (align == "start" and not ltr):
    position = F(100)
  else:
    position = F(50)
  # computed position alignment
  pa = d["position_align"]
  if pa is None:
    if align == "left" or (align == "start" and ltr) or (align == "end" and not ltr):
      pa = "line-left"
    elif align == "right" or (align == "end" and ltr) or (align == "start" and not ltr):
      pa = "line-right"
    else:
      pa = "center"
  if pa == "line-left":
    max_size = 100 - position
  elif pa == "line-right":
    max_size = position
  else:
    max_size = position * 2 if position <= 50 else (100 - position) * 2
  size = min(d["size"], max_size)
  if pa == "line-left":
    offset = position
  elif pa == "center":
    offset = position - size / 2
  else:
    offset = position - size
  return offset, size


def expectations(settings):
  """Facts judged by C11 clause 6.
    writing_mode : 'lrtb' (no vertical), 'tbrl' (vertical:rl, lines stack right to left), 'tblr' (vertical:lr)
    text_align   : set of acceptable TTML values for left-to-right text
    display_align: 'before' | 'center' | 'after' | None (abstain)
    edge         : None, or (which, value %, tolerance): the region's block-direction edge that WebVTT pins for a
                   percentage line on a horizontal cue: 'top' (line align start), 'middle' (center), 'bottom' (end);
                   also for the line numbers 0 (top at 0 %) and -1 (bottom at 100 %), with or without a line alignment
  """
  d = parse(settings)
  e = {"writing_mode": {None: "lrtb", "rl": "tbrl", "lr": "tblr"}[d["vertical"]]}
  e["text_align"] = {"start": {"start", "left"}, "left": {"start", "left"}, "center": {"center"},
                     "end": {"end", "right"}, "right": {"end", "right"}}[d["align"]]
  e["display_align"] = None
  e["edge"] = None
  if d["line"] is None:
    # line 'auto': computed line is -(n+1) with snap-to-lines: the cue sits on the last line (bottom for horizontal cues,
    # the end of the block progression for vertical ones) and further lines grow away from that edge.
    e["display_align"] = "after"
  elif d["line_is_pct"]:
    la = d["line_align"] or "start"
    e["display_align"] = {"start": "before", "center": "center", "end": "after"}[la]
    if d["vertical"] is None:
      tol = F(1, 1000000) if d["line"].denominator == 1 else F(1, 2) + F(1, 1000000)
      e["edge"] = ({"start": "top", "center": "middle", "end": "bottom"}[la], d["line"], tol)
  elif d["vertical"] is None:
    # (an explicit line alignment is not used when snapping to lines: same facts as without it)
    # line number, snap-to-lines (7.2 'adjust the positions of boxes'): position = step * line, plus the full height and
    # growing upwards when line < 0.  Whatever the line height: line 0 puts the top of the cue at 0 % and line -1 puts
    # the bottom of its first line at 100 %.  Other numbers depend on the line height (abstain).
    if d["line"] == 0:
      e["edge"] = ("top", F(0), F(1, 1000000))
    elif d["line"] == -1:
      e["edge"] = ("bottom", F(100), F(1, 1000000))
  return e


def canonical(settings):
  """Cue settings are a set of name:value pairs: equality does not depend on the order they are printed in."""
  return tuple(sorted((n, v) for n, v in settings))
