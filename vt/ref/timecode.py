"""Integer-only SMPTE ST 12-1 reference arithmetic and exact millisecond rounding (no ttconv imports)."""
from fractions import Fraction

INT_RATES = (24, 25, 30, 50, 60)
DF_RATES = {Fraction(30000, 1001): (30, 2), Fraction(60000, 1001): (60, 4)}
R2398 = Fraction(24000, 1001)
ALL_RATES = tuple(Fraction(r) for r in INT_RATES) + tuple(DF_RATES) + (R2398,)


def nominal(rate: Fraction) -> int:
  """Nominal integer count rate of the time-code labels."""
  return -(-rate.numerator // rate.denominator)


def is_df(rate: Fraction) -> bool:
  return rate in DF_RATES


def label(n: int, rate: Fraction):
  """Label (h, m, s, f) of frame count n."""
  R = nominal(rate)
  if rate in DF_RATES:
    _, D = DF_RATES[rate]
    per10 = 600 * R - 9 * D
    per1 = 60 * R - D
    d, m = divmod(n, per10)
    n += 9 * D * d
    if m >= D:
      n += D * ((m - D) // per1)
  f = n % R
  s = (n // R) % 60
  mi = (n // (60 * R)) % 60
  h = n // (3600 * R)
  return (h, mi, s, f)


def label_valid(lab, rate: Fraction) -> bool:
  h, m, s, f = lab
  R = nominal(rate)
  if not (h >= 0 and 0 <= m < 60 and 0 <= s < 60 and 0 <= f < R):
    return False
  if rate in DF_RATES:
    _, D = DF_RATES[rate]
    if s == 0 and f < D and m % 10 != 0:
      return False
  return True


def count(lab, rate: Fraction) -> int:
  """Frame count of a valid label."""
  h, m, s, f = lab
  R = nominal(rate)
  n = ((h * 60 + m) * 60 + s) * R + f
  if rate in DF_RATES:
    _, D = DF_RATES[rate]
    tm = h * 60 + m
    n -= D * (tm - tm // 10)
  return n


def nearest_ms(x) -> tuple:
  """Exact nearest-millisecond candidates (a tuple of one or, at exact .5 ties, two integers)."""
  fx = Fraction(x) * 1000
  lo = fx.numerator // fx.denominator
  frac = fx - lo
  if frac < Fraction(1, 2):
    return (lo,)
  if frac > Fraction(1, 2):
    return (lo + 1,)
  return (lo, lo + 1)
