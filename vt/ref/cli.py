"""C19 reference: the harness's own composition of the ttconv *library* (reader -> named document filters in order ->
writer) and the table of documented configuration values, both written from /repo/README.md and the property text -
not from tt.py.

Two ways of obtaining a module configuration:
  mode "parse"  : config_class.parse(json[name])            (what the property statement names)
  mode "direct" : the configuration object built with the dataclass constructor from the harness's own decoding of
                  the documented value syntax (README), with the README defaults for absent keys.
Absent module key: reader/writer is called without configuration (library default); a filter gets config_class().
"""
import io
import os
import re
from fractions import Fraction

IN_TYPES = ("ttml", "scc", "stl", "srt", "vtt")     # README "Input Formats"
OUT_TYPES = ("ttml", "srt", "vtt")                  # README "Output Formats"
READER_MODULE = {"scc": "scc_reader", "stl": "stl_reader"}
WRITER_MODULE = {"ttml": "imsc_writer", "srt": "srt_writer", "vtt": "vtt_writer"}
FILTER_NAMES = ("lcd",)


class Unsupported(Exception):
  """The selected type is not a documented one."""


def infer_type(explicit, path):
  """Statement: types come from --itype/--otype or else from the file extension, case-insensitively."""
  if explicit is not None:
    return explicit.lower()
  ext = os.path.splitext(path)[1]
  return ext[1:].lower() if ext.startswith(".") else ext.lower()


def used_modules(in_type, out_type, filters):
  mods = ["general"]
  if in_type in READER_MODULE:
    mods.append(READER_MODULE[in_type])
  mods.extend(f for f in filters if f not in mods)
  if out_type in WRITER_MODULE:
    mods.append(WRITER_MODULE[out_type])
  return mods


# ------------------------------------------------------------------------------------------------------------------
# documented value syntax (README.md)

NAMED_COLORS = {  # TTML2 10.3.12 <named-color>
  "transparent": (0, 0, 0, 0), "black": (0, 0, 0, 255), "silver": (192, 192, 192, 255), "gray": (128, 128, 128, 255),
  "white": (255, 255, 255, 255), "maroon": (128, 0, 0, 255), "red": (255, 0, 0, 255), "purple": (128, 0, 128, 255),
  "fuchsia": (255, 0, 255, 255), "magenta": (255, 0, 255, 255), "green": (0, 128, 0, 255), "lime": (0, 255, 0, 255),
  "olive": (128, 128, 0, 255), "yellow": (255, 255, 0, 255), "navy": (0, 0, 128, 255), "blue": (0, 0, 255, 255),
  "teal": (0, 128, 128, 255), "aqua": (0, 255, 255, 255), "cyan": (0, 255, 255, 255),
}
GENERIC_FAMILIES = ("default", "monospace", "sansSerif", "serif", "monospaceSansSerif", "monospaceSerif",
                    "proportionalSansSerif", "proportionalSerif")


def ref_color(s):
  """TTML2 <color> -> (r, g, b, a) for the syntaxes used in the table."""
  m = re.fullmatch(r"#([0-9a-fA-F]{2})([0-9a-fA-F]{2})([0-9a-fA-F]{2})([0-9a-fA-F]{2})?", s)
  if m:
    return tuple(int(x, 16) for x in m.groups("ff"))
  m = re.fullmatch(r"rgb\(\s*(\d+)\s*,\s*(\d+)\s*,\s*(\d+)\s*\)", s)
  if m:
    return tuple(int(x) for x in m.groups()) + (255,)
  m = re.fullmatch(r"rgba\(\s*(\d+)\s*,\s*(\d+)\s*,\s*(\d+)\s*,\s*(\d+)\s*\)", s)
  if m:
    return tuple(int(x) for x in m.groups())
  return NAMED_COLORS[s]


def ref_font_families(s):
  from ttconv.style_properties import GenericFontFamilyType
  out = []
  for part in s.split(","):
    part = part.strip()
    if len(part) >= 2 and part[0] == part[-1] and part[0] in "\"'":
      out.append(part[1:-1])
    elif part in GENERIC_FAMILIES:
      out.append(GenericFontFamilyType(part))
    else:
      out.append(part)
  return tuple(out)


BOOL_LENIENT = [("false", False), ("False", False), ("true", True), ("True", True)]
BOOL_JUNK = ["maybe", "", [], {"a": 1}, None]        # JSON null is not `true | false` either


def _bool_key(default):
  return {"type": "bool", "default": default, "valid": [True, False], "lenient": list(BOOL_LENIENT),
          "invalid": [(v, "bool-junk-accepted") for v in BOOL_JUNK]}


# (module, key) -> documented values. "valid": documented-valid JSON values (first ones are the boundaries);
# "invalid": (documented-invalid JSON value, mechanism key); "lenient": (undocumented value, the only reading under
# which silently accepting it is tolerable) - the CLI may reject it or must behave as for that reading.
TABLE = {
  ("general", "progress_bar"): dict(_bool_key(True), invalid=[(v, "progress-bar-junk-accepted") for v in BOOL_JUNK]),
  ("general", "log_level"): {"type": "enum", "default": "INFO", "valid": ["INFO", "WARN", "ERROR"],
                             "invalid": [("bogus", "invalid-accepted:log_level"), ("verbose", "invalid-accepted:log_level"),
                                         (["INFO"], "invalid-accepted:log_level")]},
  ("general", "document_lang"): {"type": "lang", "default": None,
                                 "valid": ["es-419", "fr", "en-US", "ja", "pt-BR", "zh-Hant-TW", "de", "", ""],   # "" = no language (xml:lang=""), accepted by set_lang
                                 "invalid": [(5, "invalid-accepted:document_lang"), (["en"], "invalid-accepted:document_lang"),
                                             ({"lang": "en"}, "invalid-accepted:document_lang"),
                                             (True, "invalid-accepted:document_lang")]},
  ("imsc_writer", "time_format"): {"type": "enum", "default": None, "valid": ["clock_time", "frames", "clock_time_with_frames"],
                                   "invalid": [(v, "invalid-accepted:time_format") for v in ("clock", "smpte", "", "hh:mm:ss", 5, ["frames"])]},
  ("imsc_writer", "fps"): {"type": "fps", "default": None,
                           "valid": ["25/1", "30000/1001", "24/1", "30/1", "24000/1001", "50/1", "60/1", "60000/1001", "1/1"],
                           "invalid": [(v, "invalid-accepted:fps") for v in ("25", "abc/def", "25/1/1", "2.5/1", "", "25:1", 25, ["25/1"], "25/0")]},
  ("stl_reader", "disable_fill_line_gap"): _bool_key(False),
  ("stl_reader", "disable_line_padding"): _bool_key(False),
  ("stl_reader", "program_start_tc"): {"type": "str", "default": "00:00:00:00",
                                       "valid": ["TCP", "00:00:00:00", "23:59:59:24", "10:00:00:00", "00:00:01:00", "01:00:00:00"],
                                       "invalid": [(v, "invalid-accepted:program_start_tc") for v in ("abc", "10:00:00", "1:2:3:4", "", 5, ["TCP"])]
                                                  + [("10-00-00-00", "start-tc-any-separator"), ("10x00y00z00", "start-tc-any-separator")]
                                                  + [("10:00:00:00:00", "start-tc-trailing-garbage"), ("00:00:00:00xyz", "start-tc-trailing-garbage")]},
  ("stl_reader", "font_stack"): {"type": "fonts", "default": "Verdana, Arial, Tiresias, sansSerif",
                                 "valid": ["Verdana, Arial, Tiresias, sansSerif", "monospace", "Arial", "\"Times New Roman\", serif",
                                           "Helvetica, proportionalSansSerif"],
                                 "invalid": [(v, "invalid-accepted:font_stack") for v in (5, ["Arial"], {"a": 1})]},
  ("stl_reader", "max_row_count"): {"type": "rows", "default": 23, "valid": ["MNR", 23, 11, 15, 2, 99],
                                    "invalid": [(v, "invalid-accepted:max_row_count") for v in ("abc", "23", "", [23], {"a": 1}, 0, -5, True)]},
  ("srt_writer", "text_formatting"): _bool_key(True),
  ("vtt_writer", "line_position"): _bool_key(False),
  ("vtt_writer", "text_align"): _bool_key(False),
  ("vtt_writer", "cue_id"): _bool_key(True),
  ("scc_reader", "text_align"): {"type": "enum", "default": "auto", "valid": ["auto", "left", "center", "right"],
                                 "invalid": [(v, "invalid-accepted:scc.text_align") for v in ("justify", "start", "", "middle", 5, ["left"], None)]},
  ("lcd", "safe_area"): {"type": "int", "default": 10, "valid": [0, 30, 1, 29, 10, 5, 15, 20],
                         "invalid": [(v, "lcd-safe-area-range") for v in (-5, 31, 50, -1, 100)]
                                    + [(v, "invalid-accepted:safe_area") for v in ("abc", [10], {"a": 1}, "", None)]},
  ("lcd", "color"): {"type": "color", "default": None,
                     "valid": [None, "#FFFFFF", "white", "#FF0000", "transparent", "black", "#ff000080", "rgb(255,0,0)", "rgba(0,255,0,128)", "yellow", "#00ffff"],
                     "invalid": [(v, "invalid-accepted:color") for v in ("notacolor", "#FFF", "#GGGGGG", "", "rgb(1,2)", 5, ["white"], "#12345")]},
  ("lcd", "bg_color"): {"type": "color", "default": None,
                        "valid": [None, "#FF0000", "transparent", "black", "#000000c0", "rgb(0,0,0)", "blue"],
                        "invalid": [(v, "invalid-accepted:color") for v in ("notacolor", "#FFF", "", 5, ["black"], "rgba(1,2,3)")]},
  ("lcd", "preserve_text_align"): _bool_key(False),
}
MODULE_KEYS = {}
for (_m, _k) in TABLE:
  MODULE_KEYS.setdefault(_m, []).append(_k)
ALL_MODULES = ("general", "imsc_writer", "stl_reader", "srt_writer", "vtt_writer", "scc_reader", "lcd")


def _eq(a, b):
  return type(a) is type(b) and a == b


def classify_value(module, key, value):
  """-> ("valid", None) | ("invalid", mech) | ("lenient", reading) | ("unknown", None)"""
  ent = TABLE.get((module, key))
  if ent is None:
    return ("unknown", None)
  for v in ent["valid"]:
    if _eq(v, value):
      return ("valid", None)
  for v, mech in ent["invalid"]:
    if _eq(v, value):
      return ("invalid", mech)
  for v, reading in ent.get("lenient", []):
    if _eq(v, value):
      return ("lenient", reading)
  return ("unknown", None)


def imsc_combination(modcfg):
  """README: fps is required when time_format is frames or clock_time_with_frames. -> "valid" | "invalid" | "unknown" """
  tf, fps = modcfg.get("time_format"), modcfg.get("fps")
  if tf in ("frames", "clock_time_with_frames") and fps is None:
    return "invalid"
  if tf == "clock_time_with_frames" and isinstance(fps, str) and not fps.endswith("/1"):
    return "unknown"   # README silent on HH:MM:SS:FF with a fractional rate
  return "valid"


def decode_value(module, key, value):
  """The harness's own decoding of a documented-valid value into the object the module configuration carries."""
  t = TABLE[(module, key)]["type"]
  if value is None:
    return None
  if t == "bool":
    if not isinstance(value, bool):
      raise ValueError("not a JSON boolean")
    return value
  if t == "enum" and module == "imsc_writer":
    from ttconv.imsc.attributes import TimeExpressionSyntaxEnum
    return [e for e in TimeExpressionSyntaxEnum if e.value == value][0]
  if t == "enum" and module == "scc_reader":
    from ttconv.scc.config import TextAlignment
    return [e for e in TextAlignment if e.label == value][0]
  if t == "fps":
    num, den = value.split("/")
    return Fraction(int(num), int(den))
  if t == "fonts":
    return ref_font_families(value)
  if t == "color":
    from ttconv.style_properties import ColorType
    return ColorType(ref_color(value))
  return value    # str / lang / rows / int / log level


def config_class(module):
  if module == "general":
    from ttconv.config import GeneralConfiguration as c
  elif module == "imsc_writer":
    from ttconv.imsc.config import IMSCWriterConfiguration as c
  elif module == "stl_reader":
    from ttconv.stl.config import STLReaderConfiguration as c
  elif module == "scc_reader":
    from ttconv.scc.config import SccReaderConfiguration as c
  elif module == "srt_writer":
    from ttconv.srt.config import SRTWriterConfiguration as c
  elif module == "vtt_writer":
    from ttconv.vtt.config import VTTWriterConfiguration as c
  elif module == "lcd":
    from ttconv.filters.doc.lcd import LCDDocFilterConfig as c
  elif module in PROBE_NAMES:
    c = probe_filters()[module][1]
  else:
    raise KeyError(module)
  return c


_PROBES = {}
PROBE_NAMES = ("vta", "vtb")


def probe_filters():
  """Two harness-defined document filters registered through the library's public extension point (subclassing
  DocumentFilter registers the class under its configuration name). They append a configurable suffix to every text
  node, so that the order of application and the configuration look-up by filter name are observable in every output
  format. -> {name: (filter class, config class)}"""
  if _PROBES:
    return _PROBES
  import dataclasses
  from ttconv.config import ModuleConfiguration
  from ttconv.filters.document_filter import DocumentFilter
  from ttconv.model import Text

  def make(tag):
    @dataclasses.dataclass
    class ProbeConfig(ModuleConfiguration):
      """suffix appended to every text node"""
      suffix: "Optional[str]" = tag[-1].upper()

      @classmethod
      def name(cls):
        return tag

    class ProbeFilter(DocumentFilter):
      """appends config.suffix to every text node"""

      @classmethod
      def get_config_class(cls):
        return ProbeConfig

      def process(self, doc):
        def walk(e):
          for c in list(e):
            if isinstance(c, Text):
              c.set_text(c.get_text() + self.config.suffix)
            else:
              walk(c)
        if doc.get_body() is not None:
          walk(doc.get_body())

    return ProbeFilter, ProbeConfig

  for tag in PROBE_NAMES:
    _PROBES[tag] = make(tag)
  return _PROBES


def filter_class(name):
  if name == "lcd":
    from ttconv.filters.doc.lcd import LCDDocFilter
    return LCDDocFilter
  if name in PROBE_NAMES:
    return probe_filters()[name][0]
  raise KeyError(name)


def direct_config(module, modcfg, readme_defaults=True):
  """Configuration object from documented values only (constructor, not parse)."""
  if module in PROBE_NAMES:
    return config_class(module)(**(modcfg or {}))
  kwargs = {}
  for key in MODULE_KEYS[module]:
    if modcfg is not None and key in modcfg:
      kwargs[key] = decode_value(module, key, modcfg[key])
    elif readme_defaults:
      kwargs[key] = decode_value(module, key, TABLE[(module, key)]["default"])
  return config_class(module)(**kwargs)


def get_config(module, cfg, mode):
  """cfg: the effective JSON dictionary (or None)."""
  present = isinstance(cfg, dict) and module in cfg
  if mode == "parse":
    return config_class(module).parse(cfg[module]) if present else None
  return direct_config(module, cfg[module] if present else None)


def compose(in_path, in_type, out_type, filters, cfg, mode="parse"):
  """reader -> document_lang -> named document filters in order -> writer; returns the bytes of the output file.
  Raises Unsupported for undocumented types; any other exception comes from the library."""
  import xml.etree.ElementTree as et
  if in_type not in IN_TYPES:
    raise Unsupported("input type " + repr(in_type))
  if out_type not in OUT_TYPES:
    raise Unsupported("output type " + repr(out_type))

  general = get_config("general", cfg, mode)

  if in_type == "ttml":
    import ttconv.imsc.reader as r
    doc = r.to_model(et.parse(in_path))
  elif in_type == "scc":
    import ttconv.scc.reader as r
    with open(in_path, "r", encoding="utf-8") as f:
      text = f.read()
    doc = r.to_model(text, get_config("scc_reader", cfg, mode))
  elif in_type == "stl":
    import ttconv.stl.reader as r
    with open(in_path, "rb") as f:
      doc = r.to_model(f, get_config("stl_reader", cfg, mode))
  elif in_type == "srt":
    import ttconv.srt.reader as r
    with open(in_path, "r", encoding="utf-8") as f:
      doc = r.to_model(f)
  else:
    import ttconv.vtt.reader as r
    with open(in_path, "r", encoding="utf-8") as f:
      doc = r.to_model(f)

  if general is not None and general.document_lang is not None:
    doc.set_lang(general.document_lang)

  for name in filters:
    fc = get_config(name, cfg, mode)
    if fc is None:
      fc = config_class(name)()
    filter_class(name)(fc).process(doc)

  if out_type == "ttml":
    import ttconv.imsc.writer as w
    tree = w.from_model(doc, get_config("imsc_writer", cfg, mode))
    buf = io.BytesIO()
    tree.write(buf, encoding="utf-8")
    return buf.getvalue()
  if out_type == "srt":
    import ttconv.srt.writer as w
    return w.from_model(doc, get_config("srt_writer", cfg, mode)).encode("utf-8")
  import ttconv.vtt.writer as w
  return w.from_model(doc, get_config("vtt_writer", cfg, mode)).encode("utf-8")
