"""Reference construction of a TTML2 intermediate synchronic document (ISD) and style resolution over an AbsDoc.
Written from TTML2 (sections 10.4.4 style resolution, 11.3.1.3/11.3.1.4 ISD construction, 12 timing) and
IMSC 1.1 - not from ttconv.  All arithmetic in Fractions.

compute_isd(adoc, t) -> RefISD(regions=[RefNode...])   (regions in document order; absent regions omitted)

Each computed style value is stored as (plain_value, certain); `certain == False` marks values for which the
standards are ambiguous or the property statement is silent - comparisons skip them (abstention, never alarm).
"""
from __future__ import annotations

import dataclasses
import re
import typing
from fractions import Fraction

from vt.ref.absdoc import AbsDoc, AbsEl, L, is_len, dfield, dmake, dreplace

DEFAULT_REGION_ID = "default_region"


def E(cls, name):
  return ("E", cls, name)


def C(r, g, b, a):
  return ("C", (r, g, b, a))


NORMAL = E("SpecialValues", "normal")
NONE = E("SpecialValues", "none")

# ------------------------------------------------------------------------------------------------------------
# Style property table (TTML2 section 10.2 / IMSC 1.1 section 8): name -> (inherited, default plain value)
# ------------------------------------------------------------------------------------------------------------
PROPS = {
  "BackgroundColor": (False, C(0, 0, 0, 0)),
  "Color": (True, C(255, 255, 255, 255)),
  "Direction": (True, E("DirectionType", "ltr")),
  "Disparity": (False, L(0, "%")),
  "Display": (False, E("DisplayType", "auto")),
  "DisplayAlign": (False, E("DisplayAlignType", "before")),
  "Extent": (False, dmake("ExtentType", height=L(100, "%"), width=L(100, "%"))),
  "FillLineGap": (True, False),
  "FontFamily": (True, ("T", (E("GenericFontFamilyType", "default"),))),
  "FontSize": (True, L(1, "c")),
  "FontStyle": (True, E("FontStyleType", "normal")),
  "FontWeight": (True, E("FontWeightType", "normal")),
  "LineHeight": (True, NORMAL),
  "LinePadding": (True, L(0, "c")),
  "LuminanceGain": (False, 1.0),
  "MultiRowAlign": (True, E("MultiRowAlignType", "auto")),
  "Opacity": (False, 1.0),
  "Origin": (False, dmake("CoordinateType", x=L(0, "%"), y=L(0, "%"))),
  "Overflow": (False, E("OverflowType", "hidden")),
  "Padding": (False, dmake("PaddingType", before=L(0, "%"), end=L(0, "%"), after=L(0, "%"), start=L(0, "%"))),
  "Position": (False, None),   # derived from Origin when not specified
  "RubyAlign": (True, E("RubyAlignType", "center")),
  "RubyPosition": (True, E("AnnotationPositionType", "outside")),
  "RubyReserve": (True, NONE),
  "Shear": (True, 0.0),
  "ShowBackground": (False, E("ShowBackgroundType", "always")),
  "TextAlign": (True, E("TextAlignType", "start")),
  "TextCombine": (True, E("TextCombineType", "none")),
  "TextDecoration": (True, dmake("TextDecorationType", underline=False, line_through=False, overline=False)),
  "TextEmphasis": (True, NONE),
  "TextOutline": (True, NONE),
  "TextShadow": (True, NONE),
  "UnicodeBidi": (False, E("UnicodeBidiType", "normal")),
  "Visibility": (True, E("VisibilityType", "visible")),
  "WrapOption": (True, E("WrapOptionType", "wrap")),
  "WritingMode": (False, E("WritingModeType", "lrtb")),
}
assert len(PROPS) == 36

_BLOCK = {"BackgroundColor", "Display", "Opacity", "Visibility"}
_P = _BLOCK | {"Direction", "FillLineGap", "FontFamily", "FontSize", "FontStyle", "FontWeight", "LineHeight", "LinePadding",
               "MultiRowAlign", "RubyReserve", "Shear", "TextAlign", "UnicodeBidi"}
_SPAN = _BLOCK | {"Color", "Direction", "FontFamily", "FontSize", "FontStyle", "FontWeight", "TextCombine", "TextDecoration",
                  "TextEmphasis", "TextOutline", "TextShadow", "UnicodeBidi", "WrapOption"}
_REGION = _BLOCK | {"Disparity", "DisplayAlign", "Extent", "LuminanceGain", "Origin", "Overflow", "Padding", "Position",
                    "ShowBackground", "WritingMode"}
_RUBYC = _BLOCK | {"Direction"}

# kind -> (must have, may additionally have)  [TTML2 "Applies to" clauses; ruby containers are spans in TTML2 but
# the canonical model documents a reduced set for them: both readings accepted]
APPLICABLE = {
  "Body": (_BLOCK, set()),
  "Div": (_BLOCK, set()),
  "P": (_P, set()),
  "Span": (_SPAN, set()),
  "Rb": (_SPAN, set()),
  "Rp": (_SPAN, set()),
  "Rt": (_SPAN | {"RubyPosition"}, set()),
  "Ruby": (_RUBYC | {"RubyAlign"}, _SPAN),
  "Rbc": (_RUBYC, _SPAN),
  "Rtc": (_RUBYC | {"RubyPosition"}, _SPAN),
  "Region": (_REGION, set()),
  "Br": (set(), set(PROPS)),
  "Text": (set(), set()),
}


@dataclasses.dataclass
class RefNode:
  kind: str
  id: typing.Optional[str]
  src_uid: int
  styles: typing.Dict[str, tuple] = dataclasses.field(default_factory=dict)   # prop -> (plain, certain)
  sources: typing.Dict[str, str] = dataclasses.field(default_factory=dict)    # prop -> anim|spec|inherit|initial|default|implied
  text: typing.Optional[str] = None
  space: str = "default"
  lang: str = ""
  children: typing.List["RefNode"] = dataclasses.field(default_factory=list)
  ws_certain: bool = True      # whether the exact white space of this text node is judged

  def walk(self):
    yield self
    for c in self.children:
      yield from c.walk()


@dataclasses.dataclass
class RefISD:
  regions: typing.List[RefNode]
  adoc: AbsDoc


def make_abs(begin, end, pbegin, pend):
  """TTML2 12.4: offsets relative to the parent's begin, end clipped by the parent's end. None = unbounded."""
  b = (pbegin or Fraction(0)) + (begin if begin is not None else Fraction(0))
  e = None if end is None else (pbegin or Fraction(0)) + end
  if e is None:
    e = pend
  elif pend is not None:
    e = min(e, pend)
  return b, e


def is_active(interval, t) -> bool:
  b, e = interval
  return b <= t and (e is None or t < e)


# ------------------------------------------------------------------------------------------------------------
# lengths
# ------------------------------------------------------------------------------------------------------------
def F(x) -> Fraction:
  return x if isinstance(x, Fraction) else Fraction(x)


def scale(length, ref):
  """length value x ref (a plain root-relative length) -> plain length in ref's unit"""
  return ("L", F(length[1]) * F(ref[1]), ref[2])


class Ctx:
  def __init__(self, adoc: AbsDoc):
    rows, cols = adoc.cell
    w, h = adoc.px
    self.c_h = ("L", Fraction(100, rows), "rh")
    self.c_w = ("L", Fraction(100, cols), "rw")
    self.px_h = ("L", Fraction(100, h), "rh")
    self.px_w = ("L", Fraction(100, w), "rw")


def resolve(length, pct_ref, em_ref, c_ref, px_ref):
  """Resolves a plain length to a root-relative one. Any ref may be None (then returns None = not judged)."""
  u = length[2]
  if u == "pct":
    return None if pct_ref is None else ("L", F(length[1]) * F(pct_ref[1]) / 100, pct_ref[2])
  if u == "em":
    return None if em_ref is None else scale(length, em_ref)
  if u == "c":
    return None if c_ref is None else scale(length, c_ref)
  if u == "px":
    return None if px_ref is None else scale(length, px_ref)
  return ("L", F(length[1]), u)   # rh / rw


# ------------------------------------------------------------------------------------------------------------
# style resolution for one element
# ------------------------------------------------------------------------------------------------------------
def active_anims(el: AbsEl, interval, t):
  out = {}
  for prop, b, e, value in el.anims:
    if is_active(make_abs(b, e, interval[0], interval[1]), t):
      out[prop] = value     # later steps override earlier ones
  return out


def resolve_styles(k: Ctx, adoc: AbsDoc, el: AbsEl, kind: str, interval, t, parent: typing.Optional[RefNode], node: RefNode):
  """Fills node.styles / node.sources for all 36 properties (pruning to applicable ones happens at comparison)."""
  anims = active_anims(el, interval, t) if el is not None else {}
  spec = el.styles if el is not None else {}
  vals: typing.Dict[str, tuple] = {}
  src: typing.Dict[str, str] = {}

  for prop, (inherited, default) in PROPS.items():
    if prop in anims:
      vals[prop], src[prop] = (anims[prop], True), "anim"
    elif prop in spec:
      vals[prop], src[prop] = (spec[prop], True), "spec"
    elif inherited and parent is not None and kind != "Region":
      vals[prop], src[prop] = parent.styles[prop], "inherit"
    elif prop in adoc.initials:
      vals[prop], src[prop] = (adoc.initials[prop], True), "initial"
    else:
      vals[prop], src[prop] = (default, True), "default"

  # --- text decoration: per-component merge with the parent's computed value (TTML2 10.2.40) ----------------
  if src["TextDecoration"] in ("anim", "spec") and parent is not None and kind != "Region":
    own = vals["TextDecoration"][0]
    pv, pc = parent.styles["TextDecoration"]
    merged = own
    certain = True
    for comp in ("underline", "line_through", "overline"):
      if dfield(own, comp) is None:
        merged = dreplace(merged, **{comp: dfield(pv, comp)})
        certain = certain and pc
    vals["TextDecoration"] = (merged, certain)
  elif src["TextDecoration"] in ("anim", "spec", "initial"):
    # components left unspecified at the root of inheritance: fall back to the TTML default (none)
    own = vals["TextDecoration"][0]
    merged = own
    for comp in ("underline", "line_through", "overline"):
      if dfield(own, comp) is None:
        merged = dreplace(merged, **{comp: False})
    # whether None components survive at the root is not stated anywhere: not judged unless fully specified
    vals["TextDecoration"] = (merged, merged == own)

  # --- ruby text font size: 50 % of the parent's when not specified (TTML2 10.2.15 / 10.2.37) ----------------
  if src["FontSize"] == "inherit" and (kind == "Rtc" or (kind == "Rt" and parent.kind != "Rtc")):
    pv, pc = parent.styles["FontSize"]
    vals["FontSize"], src["FontSize"] = (("L", F(pv[1]) / 2, pv[2]) if pv is not None else None, pc), "implied"

  # --- direction implied by writing mode on regions (TTML2 10.2.8 special semantics) ---------------------------
  if kind == "Region" and src["Direction"] not in ("anim", "spec"):
    wm_src = src["WritingMode"]
    wm = vals["WritingMode"][0]
    if wm_src == "spec" and wm in (E("WritingModeType", "lrtb"), E("WritingModeType", "rltb")):
      vals["Direction"] = (E("DirectionType", "ltr" if wm[2] == "lrtb" else "rtl"), True)
      src["Direction"] = "implied"
    elif wm_src in ("anim", "initial"):
      vals["Direction"] = (vals["Direction"][0], False)   # abstain: not stated whether these trigger / suppress the rule

  # --- computed values (order matters) --------------------------------------------------------------------------
  # font size
  fs, fs_c = vals["FontSize"]
  if src["FontSize"] in ("anim", "spec", "initial", "default") and fs is not None:
    if parent is not None and kind != "Region":
      pfs, pfs_c = parent.styles["FontSize"]
    else:
      pfs, pfs_c = k.c_h, True
    r = resolve(fs, pfs, pfs, k.c_h, k.px_h)
    vals["FontSize"] = (r, fs_c and pfs_c and r is not None)
  fs, fs_c = vals["FontSize"]

  def own_font(length, horizontal=False, either_axis=False):
    """% and em of the element's font size; c/px on the vertical axis (or horizontal)."""
    if length is None:
      return None, False
    if length[2] in ("pct", "em"):
      if fs is None:
        return None, False
      return resolve(length, fs, fs, None, None), fs_c
    r = resolve(length, None, None, k.c_w if horizontal else k.c_h, k.px_w if horizontal else k.px_h)
    return r, (not either_axis) or length[2] in ("rh", "rw")

  # extent (region): % of the root container, c / px per axis
  ext, ext_c = vals["Extent"]
  if kind == "Region" or src["Extent"] in ("anim", "spec"):
    h = resolve(dfield(ext, "height"), ("L", 100, "rh"), fs, k.c_h, k.px_h)
    w = resolve(dfield(ext, "width"), ("L", 100, "rw"), fs, k.c_w, k.px_w)
    em_used = dfield(ext, "height")[2] == "em" or dfield(ext, "width")[2] == "em"
    vals["Extent"] = (dmake("ExtentType", height=h, width=w), ext_c and h is not None and w is not None and not em_used)
  ext, ext_c = vals["Extent"]

  # origin
  org, org_c = vals["Origin"]
  y = resolve(dfield(org, "y"), ("L", 100, "rh"), None, k.c_h, k.px_h)
  x = resolve(dfield(org, "x"), ("L", 100, "rw"), None, k.c_w, k.px_w)
  vals["Origin"] = (dmake("CoordinateType", x=x, y=y), org_c and x is not None and y is not None)
  org, org_c = vals["Origin"]

  # position (TTML2 10.2.30): offsets from the named edges; percentages refer to (root - extent)
  pos, pos_c = vals["Position"]
  if pos is None:
    vals["Position"] = (dmake("PositionType", h_offset=dfield(org, "x"), v_offset=dfield(org, "y"),
                              h_edge=E("HEdge", "left"), v_edge=E("VEdge", "top")), org_c)
  else:
    eh, ew = dfield(ext, "height"), dfield(ext, "width")
    ok = ext_c and eh is not None and ew is not None and eh[2] == "rh" and ew[2] == "rw"
    if ok:
      v = resolve(dfield(pos, "v_offset"), ("L", 100 - F(eh[1]), "rh"), None, k.c_h, k.px_h)
      h_ = resolve(dfield(pos, "h_offset"), ("L", 100 - F(ew[1]), "rw"), None, k.c_w, k.px_w)
      ok = v is not None and h_ is not None and v[2] == "rh" and h_[2] == "rw"
    if ok:
      if dfield(pos, "v_edge") == E("VEdge", "bottom"):
        v = ("L", 100 - F(eh[1]) - F(v[1]), "rh")
      if dfield(pos, "h_edge") == E("HEdge", "right"):
        h_ = ("L", 100 - F(ew[1]) - F(h_[1]), "rw")
      # a position that only stems from the document's initial values while an origin is specified: not judged
      certain = pos_c and not (src["Position"] == "initial" and src["Origin"] in ("anim", "spec"))
      vals["Origin"] = (dmake("CoordinateType", x=h_, y=v), certain)
      vals["Position"] = (dmake("PositionType", h_offset=h_, v_offset=v, h_edge=E("HEdge", "left"), v_edge=E("VEdge", "top")), certain)
    else:
      vals["Origin"] = (vals["Origin"][0], False)
      vals["Position"] = (None, False)

  # line height
  lh, lh_c = vals["LineHeight"]
  if is_len(lh) and src["LineHeight"] != "inherit":
    r, c_ = own_font(lh)
    vals["LineHeight"] = (r, lh_c and c_ and r is not None)

  # line padding: c only; the axis of `c` is not fixed by the statement (EBU-TT-D: cell width; ttconv: cell height)
  lp, lp_c = vals["LinePadding"]
  if is_len(lp) and src["LinePadding"] != "inherit":
    r, c_ = own_font(lp)
    vals["LinePadding"] = (r, lp_c and c_ and r is not None and (lp[2] != "c" or F(lp[1]) == 0))
    if lp[2] == "c" and F(lp[1]) == 0:
      vals["LinePadding"] = (("L", Fraction(0), "rh"), False)   # zero: only unit family matters; judged by C13

  # disparity: a horizontal offset -> rw
  dp, dp_c = vals["Disparity"]
  if is_len(dp):
    if dp[2] == "em":
      # em: the element's own computed font size (a root-relative height)
      r, c_ = own_font(dp)
      vals["Disparity"] = (r, dp_c and c_ and r is not None)
    else:
      r = resolve(dp, ("L", 100, "rw"), None, k.c_w, k.px_w)
      vals["Disparity"] = (r, dp_c and r is not None)

  # ruby reserve
  rr, rr_c = vals["RubyReserve"]
  if rr != NONE and rr is not None and src["RubyReserve"] != "inherit":
    ln = dfield(rr, "length")
    if ln is None:
      r, c_ = (("L", F(fs[1]) / 2, fs[2]) if fs is not None else None), fs_c
    else:
      r, c_ = own_font(ln)
    vals["RubyReserve"] = (dreplace(rr, length=r), rr_c and c_ and r is not None)

  col, col_c = vals["Color"]

  # text outline
  to, to_c = vals["TextOutline"]
  if to != NONE and to is not None and src["TextOutline"] != "inherit":
    r, c_ = own_font(dfield(to, "thickness"))
    color = dfield(to, "color")
    cc = True
    if color is None:
      color, cc = col, col_c
    vals["TextOutline"] = (dreplace(to, thickness=r, color=color), to_c and c_ and cc and r is not None)

  # text shadow
  ts, ts_c = vals["TextShadow"]
  if ts != NONE and ts is not None and src["TextShadow"] != "inherit":
    shadows = []
    certain = ts_c
    for sh in dfield(ts, "shadows")[1]:
      xo, c1 = own_font(dfield(sh, "x_offset"), either_axis=True)
      yo, c2 = own_font(dfield(sh, "y_offset"))
      br = dfield(sh, "blur_radius")
      c3 = True
      if br is not None:
        br, c3 = own_font(br, either_axis=True)
      color = dfield(sh, "color")
      c4 = True
      if color is None:
        color, c4 = col, col_c
      certain = certain and c1 and c2 and c3 and c4 and xo is not None and yo is not None
      shadows.append(dreplace(sh, x_offset=xo, y_offset=yo, blur_radius=br, color=color))
    vals["TextShadow"] = (dmake("TextShadowType", shadows=("T", tuple(shadows))), certain)

  # text emphasis
  te, te_c = vals["TextEmphasis"]
  if te != NONE and te is not None and src["TextEmphasis"] != "inherit":
    color = dfield(te, "color")
    cc = True
    if color is None:
      color, cc = col, col_c
    style = dfield(te, "style")
    sc = True
    if style == E("Style", "auto"):
      root = node
      wm, wm_c = (vals["WritingMode"] if kind == "Region" else _root_wm(parent))
      style = E("Style", "filled_sesame" if wm in (E("WritingModeType", "tbrl"), E("WritingModeType", "tblr")) else "filled_circle")
      sc = wm_c
      del root
    vals["TextEmphasis"] = (dreplace(te, color=color, style=style), te_c and cc and sc)

  # padding (region): before/after on the block axis, start/end on the inline axis
  pd, pd_c = vals["Padding"]
  if kind == "Region" or src["Padding"] in ("anim", "spec"):
    wm, wm_c = vals["WritingMode"]
    vertical = wm in (E("WritingModeType", "tbrl"), E("WritingModeType", "tblr"))
    eh, ew = dfield(ext, "height"), dfield(ext, "width")
    blk = (ew, k.c_w, k.px_w) if vertical else (eh, k.c_h, k.px_h)
    inl = (eh, k.c_h, k.px_h) if vertical else (ew, k.c_w, k.px_w)
    out = {}
    ok = pd_c and wm_c
    for side, (pct, cr, pr) in (("before", blk), ("after", blk), ("start", inl), ("end", inl)):
      ln = dfield(pd, side)
      r = resolve(ln, pct, fs, cr, pr)
      if r is None or (ln[2] == "pct" and not ext_c) or (ln[2] == "em" and not fs_c):
        ok = False
      out[side] = r
    vals["Padding"] = (dmake("PaddingType", before=out["before"], end=out["end"], after=out["after"], start=out["start"]), ok)

  node.styles = vals
  node.sources = src


def _root_wm(parent: RefNode):
  p = parent
  while getattr(p, "_parent", None) is not None:
    p = p._parent  # pylint: disable=protected-access
  return p.styles["WritingMode"]


# ------------------------------------------------------------------------------------------------------------
# ISD construction
# ------------------------------------------------------------------------------------------------------------
_WS = re.compile(r"[ \t\r\n]+")


def compute_isd(adoc: AbsDoc, t: Fraction) -> RefISD:
  k = Ctx(adoc)
  out = []
  if adoc.regions:
    for r in adoc.regions:
      node = _process_region(k, adoc, r, r.id, t)
      if node is not None:
        out.append(node)
  else:
    node = _process_region(k, adoc, None, None, t)
    if node is not None:
      out.append(node)
  return RefISD(out, adoc)


def _process_region(k, adoc, r: typing.Optional[AbsEl], selected, t):
  if r is not None:
    interval = make_abs(r.begin, r.end, Fraction(0), None)
    if not is_active(interval, t):
      return None
    node = RefNode("Region", r.id, r.uid, space=r.space, lang=r.lang)
  else:
    interval = (Fraction(0), None)
    node = RefNode("Region", DEFAULT_REGION_ID, 0)
  node._parent = None  # pylint: disable=protected-access
  resolve_styles(k, adoc, r, "Region", interval, t, None, node)
  if node.styles["Display"][0] == E("DisplayType", "none"):
    return None
  if adoc.body is not None:
    b = _process(k, adoc, adoc.body, selected, None, node, (Fraction(0), None), t)
    if b is not None:
      node.children.append(b)
  if node.children:
    return node
  if node.styles["ShowBackground"][0] == E("ShowBackgroundType", "always"):
    return node
  return None


def _process(k, adoc, el: AbsEl, selected, inherited, parent: RefNode, pint, t):
  kind = el.kind
  if kind in ("Text", "Br"):
    interval = pint
  else:
    interval = make_abs(el.begin, el.end, pint[0], pint[1])
    if not is_active(interval, t):
      return None
  # region association (TTML2 11.3.1.3 [associate region])
  own = None
  if el.region_id is not None:
    own = ("id", el.region_id) if el.region_ok else ("dangling", el.region_id)
  assoc = own if own is not None else inherited
  sel = None if selected is None else ("id", selected)
  if assoc != sel and (not el.children or assoc is not None):
    return None
  node = RefNode(kind, el.id, el.uid, text=el.text, space=el.space, lang=el.lang)
  node._parent = parent  # pylint: disable=protected-access
  if kind == "Text":
    if parent is not None:
      node.space = parent.space
    return node
  resolve_styles(k, adoc, el, kind, interval, t, parent, node)
  if node.styles["Display"][0] == E("DisplayType", "none"):
    return None
  for c in el.children:
    cn = _process(k, adoc, c, selected, assoc, node, interval, t)
    if cn is not None:
      node.children.append(cn)
  if node.children and kind in ("P", "Rt", "Rtc"):
    _lwsp(node)
    _prune(node)
  if kind in ("Br", "Rb", "Rbc"):
    return node
  return node if node.children else None


def _text_list(node: RefNode, out):
  for c in node.children:
    if c.kind == "Br" or (c.kind == "Text" and c.text):
      out.append(c)
    elif c.kind not in ("Rt", "Rtc", "Rp"):
      _text_list(c, out)


def _lwsp(root: RefNode):
  """xml:space=default: collapse white-space runs, suppress at paragraph / line start and end (XSL-FO treatment as
  profiled by TTML2 10.2.? xml:space).  Text nodes under xml:space=preserve are untouched.  Exact results next to a
  preserved node are not judged (ws_certain=False)."""
  nodes = []
  _text_list(root, nodes)
  mixed = len({n.space for n in nodes if n.kind == "Text"}) > 1
  i = 0
  seq = list(nodes)
  while i < len(seq):
    n = seq[i]
    if n.kind == "Br" or n.space == "preserve":
      i += 1
      continue
    txt = _WS.sub(" ", n.text)
    if txt.startswith(" "):
      prev = seq[i - 1] if i > 0 else None
      if prev is None or prev.kind == "Br" or (prev.text and prev.text[-1] in " \t\r\n"):
        txt = txt[1:]
    n.text = txt
    if not txt:
      del seq[i]
    else:
      i += 1
  for i, n in enumerate(seq):
    if n.kind == "Br" or n.space == "preserve":
      continue
    if n.text.endswith(" "):
      nxt = seq[i + 1] if i + 1 < len(seq) else None
      if nxt is None or nxt.kind == "Br" or (nxt.text and nxt.text[0] in "\r\n"):
        n.text = n.text[:-1]
  if mixed:
    for n in nodes:
      n.ws_certain = False
  for n in nodes:
    if n.kind == "Text" and getattr(n._parent, "kind", None) == "Rp":  # pylint: disable=protected-access
      n.ws_certain = False


def _prune(node: RefNode):
  for c in list(node.children):
    _prune(c)
    if c.kind == "Text" and not c.text:
      node.children.remove(c)
    elif c.kind == "Span" and not c.children:
      node.children.remove(c)


# ------------------------------------------------------------------------------------------------------------
# candidate change points (for C01/C02 probe times)
# ------------------------------------------------------------------------------------------------------------
def boundaries(adoc: AbsDoc) -> typing.List[Fraction]:
  """All absolute begins / ends of regions, elements and animation steps as the reference computes them."""
  out = set()

  def visit(el: AbsEl, pint):
    if el.kind in ("Text", "Br"):
      interval = pint
    else:
      interval = make_abs(el.begin, el.end, pint[0], pint[1])
    for v in interval:
      if v is not None:
        out.add(v)
    for _p, b, e, _v in el.anims:
      for v in make_abs(b, e, interval[0], interval[1]):
        if v is not None:
          out.add(v)
    for c in el.children:
      visit(c, interval)

  for r in adoc.regions:
    visit(r, (Fraction(0), None))
  if adoc.body is not None:
    visit(adoc.body, (Fraction(0), None))
  return sorted(out)
