"""Reference TTML2 / IMSC 1.1 reader: XML (xml.etree element) -> AbsDoc (vt/ref/absdoc.py).

Written from TTML2 (section 8 parameters, 10.1-10.4 styling, 12.2-12.4 timing with the SMIL par / seq semantics profiled
there, Appendix on time expression semantics for the media time base) and IMSC 1.1 - NOT from ttconv's reader.

Canonical output (what the canonical model can express): every element carries `begin` = offset of its resolved begin
from the PARENT's resolved begin (None when 0) and `end` = offset of its resolved active end from the parent's begin
(None = indefinite); sequential containers are therefore flattened into offsets.  Children of a sequential container that
can never begin (a preceding sibling never ends) are omitted.

Attribute VALUE syntax is table driven: VALUES[qname] lists (xml string, plain value, tag) triples written per property
from the TTML2 value grammars; the generator draws from the same table and a string that is not in the table is
"unknown / malformed" and is ignored (the attribute is treated as absent).

Spec ambiguities are options of interpret(); the property check accepts the observed document if it agrees with any
variant (abstention, see vt/props/c04.py ASSUMPTIONS):
  ws_counts   white-space-only character content of p / span (xml:space=default) is an anonymous span for TIMING purposes
  set_counts  a `set` child takes part in the implicit duration of its parallel parent
"""
from __future__ import annotations

import dataclasses
import re
import typing
from fractions import Fraction

from vt.ref.absdoc import AbsDoc, AbsEl, L, dmake

NS_TT = "http://www.w3.org/ns/ttml"
NS_TTP = "http://www.w3.org/ns/ttml#parameter"
NS_TTS = "http://www.w3.org/ns/ttml#styling"
NS_TTM = "http://www.w3.org/ns/ttml#metadata"
NS_ITTP = "http://www.w3.org/ns/ttml/profile/imsc1#parameter"
NS_ITTS = "http://www.w3.org/ns/ttml/profile/imsc1#styling"
NS_EBUTTS = "urn:ebu:tt:style"
NS_XML = "http://www.w3.org/XML/1998/namespace"

PREFIX = {"tt": NS_TT, "ttp": NS_TTP, "tts": NS_TTS, "ttm": NS_TTM, "ittp": NS_ITTP, "itts": NS_ITTS, "ebutts": NS_EBUTTS, "xml": NS_XML}


def qn(name: str) -> str:
  """'tts:color' -> '{ns}color'; 'begin' -> 'begin'"""
  if ":" in name:
    p, l = name.split(":", 1)
    return "{%s}%s" % (PREFIX[p], l)
  return name


def tt(local):
  return "{%s}%s" % (NS_TT, local)


def E(cls, name):
  return ("E", cls, name)


def C(r, g, b, a=255):
  return ("C", (r, g, b, a))


NONE = E("SpecialValues", "none")
NORMAL = E("SpecialValues", "normal")

# ------------------------------------------------------------------------------------------------------------------
# value tables: (xml string, plain value, tag).  tag "" = ordinary; other tags name a syntactic form (coverage / mech keys)
# ------------------------------------------------------------------------------------------------------------------
_NUM = r"[+-]?(?:\d+|\d*\.\d+)"
_LIT = re.compile(r"^(%s)(px|em|c|%%|rh|rw)$" % _NUM)


def ln(lit: str):
  """plain length of a literal WRITTEN IN THIS FILE (table construction only, never applied to document text)"""
  m = _LIT.match(lit)
  assert m, lit
  return L(float(m.group(1)), m.group(2))


def lens(*lits):
  return [(s, ln(s)) for s in lits]


# <color>: #rrggbb | #rrggbbaa | rgb(r,g,b) | rgba(r,g,b,a) | named colour (TTML2 10.3.5 / 10.3.13)
COLORS = [
  ("transparent", C(0, 0, 0, 0)), ("black", C(0, 0, 0)), ("silver", C(192, 192, 192)), ("gray", C(128, 128, 128)),
  ("white", C(255, 255, 255)), ("maroon", C(128, 0, 0)), ("red", C(255, 0, 0)), ("purple", C(128, 0, 128)),
  ("fuchsia", C(255, 0, 255)), ("magenta", C(255, 0, 255)), ("green", C(0, 128, 0)), ("lime", C(0, 255, 0)),
  ("olive", C(128, 128, 0)), ("yellow", C(255, 255, 0)), ("navy", C(0, 0, 128)), ("blue", C(0, 0, 255)),
  ("teal", C(0, 128, 128)), ("aqua", C(0, 255, 255)), ("cyan", C(0, 255, 255)),
  ("#ff0000", C(255, 0, 0)), ("#FF8000", C(255, 128, 0)), ("#AbCdEf", C(0xab, 0xcd, 0xef)), ("#000000", C(0, 0, 0)),
  ("#00ff0080", C(0, 255, 0, 128)), ("#12345678", C(0x12, 0x34, 0x56, 0x78)), ("#00000000", C(0, 0, 0, 0)),
  ("#FFFFFFFF", C(255, 255, 255, 255)),
  ("rgb(255,0,0)", C(255, 0, 0)), ("rgb(12,34,56)", C(12, 34, 56)), ("rgb(0,0,0)", C(0, 0, 0)),
  ("rgba(255,255,255,128)", C(255, 255, 255, 128)), ("rgba(0,0,0,0)", C(0, 0, 0, 0)), ("rgba(1,2,3,255)", C(1, 2, 3, 255)),
]
# colours without commas / parentheses (safe inside space- and comma-separated composite values) and with them
COLORS_SIMPLE = [c for c in COLORS if "(" not in c[0]]
COLORS_FUNC = [c for c in COLORS if "(" in c[0]]

VALUES: typing.Dict[str, typing.List[tuple]] = {}


def table(name, entries):
  out = []
  seen = set()
  for e in entries:
    s, v = e[0], e[1]
    tag = e[2] if len(e) > 2 else ""
    assert s not in seen, (name, s)
    seen.add(s)
    out.append((s, v, tag))
  VALUES[qn(name)] = out


def enum(name, cls, members, aliases=()):
  table(name, [(m, E(cls, m)) for m in members] + [(a, E(cls, m), "alias") for a, m in aliases])


table("tts:backgroundColor", COLORS)
table("tts:color", COLORS)
enum("tts:direction", "DirectionType", ["ltr", "rtl"])
enum("tts:display", "DisplayType", ["auto", "none"])
enum("tts:displayAlign", "DisplayAlignType", ["before", "center", "after"])
table("tts:disparity", lens("2%", "-2%", "0%", "10px", "-4px", "0.5c", "-0.25c", "1rw", "+1.5%", ".5%"))

_EXT_W = lens("50%", "80%", "100%", "33.3%", "30%", "640px", "1280px", "20c", "50rw", "62.5rw")
_EXT_H = lens("20%", "10%", "100%", "30%", "12.5%", "480px", "108px", "5c", "50rh", "15rh")
table("tts:extent",
      [(f"{w[0]} {h[0]}", dmake("ExtentType", height=h[1], width=w[1])) for w in _EXT_W for h in _EXT_H] +
      # TTML2 10.2.14: auto = the extent of the root container region
      [("auto", dmake("ExtentType", height=L(100.0, "%"), width=L(100.0, "%")), "extent-auto")])

table("itts:fillLineGap", [("true", True), ("false", False)])

_G = lambda n: E("GenericFontFamilyType", n)  # noqa: E731
table("tts:fontFamily", [
  ("default", ("T", (_G("default"),))), ("monospace", ("T", (_G("monospace"),))), ("sansSerif", ("T", (_G("sansSerif"),))),
  ("serif", ("T", (_G("serif"),))), ("monospaceSansSerif", ("T", (_G("monospaceSansSerif"),))),
  ("monospaceSerif", ("T", (_G("monospaceSerif"),))), ("proportionalSansSerif", ("T", (_G("proportionalSansSerif"),))),
  ("proportionalSerif", ("T", (_G("proportionalSerif"),))),
  ("Arial", ("T", ("Arial",))),
  ("Arial,Helvetica,proportionalSansSerif", ("T", ("Arial", "Helvetica", _G("proportionalSansSerif")))),
  ("Arial, Helvetica, sansSerif", ("T", ("Arial", "Helvetica", _G("sansSerif")))),
  ("'Times New Roman', serif", ("T", ("Times New Roman", _G("serif"))), "quoted"),
  ('"Courier New"', ("T", ("Courier New",)), "quoted"),
  ('"Noto Sans JP", monospace', ("T", ("Noto Sans JP", _G("monospace"))), "quoted"),
  ("Times New Roman", ("T", ("Times New Roman",)), "unquoted-spaces"),
  ("'default'", ("T", ("default",)), "quoted-generic"),
  ("'a,b', monospace", ("T", ("a,b", _G("monospace"))), "quoted-comma"),
  ("Verdana, default", ("T", ("Verdana", _G("default")))),
  ("X, serif", ("T", ("X", _G("serif"))), "one-letter-family"),
  # TTML2 10.2.17 <quoted-string>/<escape>: a backslash escapes the next character, also a backslash before the closing quote
  ('"back\\\\slash"', ("T", ("back\\slash",)), "quoted-escape"),
  ('"end\\\\", serif', ("T", ("end\\", _G("serif"))), "quoted-escape"),
  ("'it\\'s', \"q\\\"uote\"", ("T", ("it's", 'q"uote')), "quoted-escape"),
  ('"serif", \'monospace\'', ("T", ("serif", "monospace")), "quoted-generic"),
])
table("tts:fontSize", lens("100%", "150%", "80%", "1c", "1.5c", "2c", "2em", "0.8em", "36px", "54px", "5rh", "7.5rh", "+1c", ".5em"))
enum("tts:fontStyle", "FontStyleType", ["normal", "italic", "oblique"])
enum("tts:fontWeight", "FontWeightType", ["normal", "bold"])
table("tts:lineHeight", [("normal", NORMAL)] + lens("125%", "100%", "25%", "1.25em", "2em", "2c", "1.5c", "40px", "6rh"))
table("ebutts:linePadding", lens("0.5c", "0c", "1c", ".25c", "0.25c"))
table("tts:luminanceGain", [("1", 1.0), ("1.0", 1.0), ("0.5", 0.5), ("2", 2.0), ("1.2", 1.2), (".75", 0.75)])
enum("ebutts:multiRowAlign", "MultiRowAlignType", ["start", "center", "end", "auto"])
table("tts:opacity", [("0", 0.0), ("1", 1.0), ("0.5", 0.5), ("0.25", 0.25), ("1.0", 1.0), (".5", 0.5), ("0.0", 0.0)])

_ORG_X = lens("10%", "65%", "0%", "12.5%", "25%", "10px", "96px", "2c", "5rw", "20rw")
_ORG_Y = lens("80%", "35%", "0%", "3%", "70%", "20px", "54px", "3c", "10rh", "75rh")
table("tts:origin",
      [(f"{x[0]} {y[0]}", dmake("CoordinateType", x=x[1], y=y[1])) for x in _ORG_X for y in _ORG_Y] +
      # TTML2 10.2.24: auto = the origin of the root container region
      [("auto", dmake("CoordinateType", x=L(0.0, "%"), y=L(0.0, "%")), "origin-auto")])
enum("tts:overflow", "OverflowType", ["visible", "hidden"])


def _pad(before, end, after, start):
  return dmake("PaddingType", before=before, end=end, after=after, start=start)


_PD = lens("0%", "5%", "10%", "1em", "0.5em", "1c", "0.5c", "10px", "4px", "2rh", "1rw", "0px")
_pad_entries = []
for _i, _a in enumerate(_PD):
  # one value: all four edges (TTML2 10.2.28)
  _pad_entries.append((_a[0], _pad(_a[1], _a[1], _a[1], _a[1]), "pad1"))
  _b = _PD[(_i + 3) % len(_PD)]
  _c = _PD[(_i + 5) % len(_PD)]
  _d = _PD[(_i + 7) % len(_PD)]
  # two values: first = before and after, second = start and end
  _pad_entries.append((f"{_a[0]} {_b[0]}", _pad(_a[1], _b[1], _a[1], _b[1]), "pad2"))
  # three values: before, start and end, after
  _pad_entries.append((f"{_a[0]} {_b[0]} {_c[0]}", _pad(_a[1], _b[1], _c[1], _b[1]), "pad3"))
  # four values: before, end, after, start
  _pad_entries.append((f"{_a[0]} {_b[0]} {_c[0]} {_d[0]}", _pad(_a[1], _b[1], _c[1], _d[1]), "pad4"))
table("tts:padding", _pad_entries)


def _pos(hedge, hoff, vedge, voff):
  return dmake("PositionType", h_offset=ln(hoff), v_offset=ln(voff), h_edge=E("HEdge", hedge), v_edge=E("VEdge", vedge))


# <position> (TTML2 10.3.22, after CSS background-position): 1 - 4 components
table("tts:position", [
  # one component: the other axis is centred
  ("center", _pos("left", "50%", "top", "50%"), "pos1"), ("left", _pos("left", "0%", "top", "50%"), "pos1"),
  ("right", _pos("right", "0%", "top", "50%"), "pos1"), ("top", _pos("left", "50%", "top", "0%"), "pos1"),
  ("bottom", _pos("left", "50%", "bottom", "0%"), "pos1"), ("25%", _pos("left", "25%", "top", "50%"), "pos1"),
  ("10c", _pos("left", "10c", "top", "50%"), "pos1"),
  # two components: horizontal then vertical (keywords may come in either order)
  ("10% 80%", _pos("left", "10%", "top", "80%"), "pos2"), ("75% 75%", _pos("left", "75%", "top", "75%"), "pos2"),
  ("5c 2c", _pos("left", "5c", "top", "2c"), "pos2"), ("96px 54px", _pos("left", "96px", "top", "54px"), "pos2"),
  ("10rw 20rh", _pos("left", "10rw", "top", "20rh"), "pos2"),
  ("center center", _pos("left", "50%", "top", "50%"), "pos2"), ("left top", _pos("left", "0%", "top", "0%"), "pos2"),
  ("right bottom", _pos("right", "0%", "bottom", "0%"), "pos2"), ("top left", _pos("left", "0%", "top", "0%"), "pos2"),
  ("bottom right", _pos("right", "0%", "bottom", "0%"), "pos2"), ("bottom center", _pos("left", "50%", "bottom", "0%"), "pos2"),
  ("center bottom", _pos("left", "50%", "bottom", "0%"), "pos2"), ("center top", _pos("left", "50%", "top", "0%"), "pos2"),
  ("left center", _pos("left", "0%", "top", "50%"), "pos2"), ("right center", _pos("right", "0%", "top", "50%"), "pos2"),
  ("center left", _pos("left", "0%", "top", "50%"), "pos2"), ("center right", _pos("right", "0%", "top", "50%"), "pos2"),
  ("top center", _pos("left", "50%", "top", "0%"), "pos2"),
  ("center 33%", _pos("left", "50%", "top", "33%"), "pos2"), ("left 45%", _pos("left", "0%", "top", "45%"), "pos2"),
  ("right 20%", _pos("right", "0%", "top", "20%"), "pos2"), ("75% center", _pos("left", "75%", "top", "50%"), "pos2"),
  ("75% top", _pos("left", "75%", "top", "0%"), "pos2"), ("75% bottom", _pos("left", "75%", "bottom", "0%"), "pos2"),
  # three components: an edge keyword may be followed by its offset
  ("left 12% bottom", _pos("left", "12%", "bottom", "0%"), "pos3"), ("left 13% center", _pos("left", "13%", "top", "50%"), "pos3"),
  ("left 14% top", _pos("left", "14%", "top", "0%"), "pos3"), ("right 17% bottom", _pos("right", "17%", "bottom", "0%"), "pos3"),
  ("right 18% center", _pos("right", "18%", "top", "50%"), "pos3"), ("left bottom 10%", _pos("left", "0%", "bottom", "10%"), "pos3"),
  ("left top 11%", _pos("left", "0%", "top", "11%"), "pos3"), ("right top 16%", _pos("right", "0%", "top", "16%"), "pos3"),
  ("center bottom 6%", _pos("left", "50%", "bottom", "6%"), "pos3"), ("center top 9%", _pos("left", "50%", "top", "9%"), "pos3"),
  ("center left 7%", _pos("left", "7%", "top", "50%"), "pos3"), ("center right 8%", _pos("right", "8%", "top", "50%"), "pos3"),
  ("bottom left 1%", _pos("left", "1%", "bottom", "0%"), "pos3"), ("bottom 3% center", _pos("left", "50%", "bottom", "3%"), "pos3"),
  ("bottom 4% left", _pos("left", "0%", "bottom", "4%"), "pos3"), ("top 24% right", _pos("right", "0%", "top", "24%"), "pos3"),
  ("top right 21%", _pos("right", "21%", "top", "0%"), "pos3"), ("right 2c bottom", _pos("right", "2c", "bottom", "0%"), "pos3"),
  # four components
  ("left 25% top 75%", _pos("left", "25%", "top", "75%"), "pos4"), ("right 10% bottom 10%", _pos("right", "10%", "bottom", "10%"), "pos4"),
  ("bottom 25% right 75%", _pos("right", "75%", "bottom", "25%"), "pos4"), ("top 25% left 75%", _pos("left", "75%", "top", "25%"), "pos4"),
  ("right 5c top 1c", _pos("right", "5c", "top", "1c"), "pos4"), ("left 96px bottom 54px", _pos("left", "96px", "bottom", "54px"), "pos4"),
  ("right 10rw bottom 5rh", _pos("right", "10rw", "bottom", "5rh"), "pos4"),
])
enum("tts:rubyAlign", "RubyAlignType", ["center", "spaceAround"])
enum("tts:rubyPosition", "AnnotationPositionType", ["before", "after", "outside"])
table("tts:rubyReserve",
      [("none", NONE)] +
      [(p, dmake("RubyReserveType", position=E("Position", p), length=None), "reserve-no-length") for p in ("both", "before", "after", "outside")] +
      [(f"{p} {l[0]}", dmake("RubyReserveType", position=E("Position", p), length=l[1]))
       for p in ("both", "before", "after", "outside") for l in lens("0.5em", "50%", "1c", "18px")])
# TTML2 10.2.37: |value| > 100% is interpreted as 100% with the same sign
table("tts:shear", [("0%", 0.0), ("16.6667%", 16.6667), ("-16.6667%", -16.6667), ("5%", 5.0), ("100%", 100.0), ("-100%", -100.0),
                    ("150%", 100.0, "shear-clamped"), ("-250%", -100.0, "shear-clamped")])
enum("tts:showBackground", "ShowBackgroundType", ["always", "whenActive"])
enum("tts:textAlign", "TextAlignType", ["start", "center", "end"])
enum("tts:textCombine", "TextCombineType", ["none", "all"])


def _td(u, lt, o):
  return dmake("TextDecorationType", underline=u, line_through=lt, overline=o)


table("tts:textDecoration", [
  ("none", _td(False, False, False)), ("underline", _td(True, None, None)), ("noUnderline", _td(False, None, None)),
  ("lineThrough", _td(None, True, None)), ("noLineThrough", _td(None, False, None)), ("overline", _td(None, None, True)),
  ("noOverline", _td(None, None, False)), ("underline lineThrough", _td(True, True, None)),
  ("overline underline", _td(True, None, True)), ("noUnderline overline", _td(False, None, True)),
  ("underline noLineThrough overline", _td(True, False, True)), ("lineThrough noOverline noUnderline", _td(False, True, False)),
])


def _te(style, color, position):
  return dmake("TextEmphasisType", style=E("Style", style), color=color, position=E("Position", position))


_RED = C(255, 0, 0)
table("tts:textEmphasis", [
  ("none", NONE), ("auto", _te("auto", None, "outside")), ("auto before", _te("auto", None, "before")),
  ("filled circle", _te("filled_circle", None, "outside")), ("open circle", _te("open_circle", None, "outside")),
  ("filled dot", _te("filled_dot", None, "outside")), ("open dot after", _te("open_dot", None, "after")),
  ("filled sesame", _te("filled_sesame", None, "outside")), ("open sesame before", _te("open_sesame", None, "before")),
  # a symbol alone is the filled symbol (TTML2 10.3.? <emphasis-style>, as CSS text-emphasis-style)
  ("circle", _te("filled_circle", None, "outside"), "symbol-only"), ("dot", _te("filled_dot", None, "outside"), "symbol-only"),
  ("sesame after", _te("filled_sesame", None, "after"), "symbol-only"),
  ("circle open", _te("open_circle", None, "outside"), "reordered"),
  ("filled sesame red outside", _te("filled_sesame", _RED, "outside")), ("dot #ff0000 before", _te("filled_dot", _RED, "before")),
  ("open circle #00ff0080", _te("open_circle", C(0, 255, 0, 128), "outside")),
  ("auto current", _te("auto", None, "outside"), "current"), ("filled dot current after", _te("filled_dot", None, "after"), "current"),
  ("before open dot", _te("open_dot", None, "before"), "reordered"), ("red auto", _te("auto", _RED, "outside"), "reordered"),
  ("auto rgb(255,0,0)", _te("auto", _RED, "outside"), "rgb-colour"),
])
table("tts:textOutline", [
  ("none", NONE), ("1px", dmake("TextOutlineType", thickness=ln("1px"), color=None)),
  ("10%", dmake("TextOutlineType", thickness=ln("10%"), color=None)), ("0.1em", dmake("TextOutlineType", thickness=ln("0.1em"), color=None)),
  ("0.05c", dmake("TextOutlineType", thickness=ln("0.05c"), color=None)),
  ("red 2px", dmake("TextOutlineType", thickness=ln("2px"), color=_RED)),
  ("black 0.05c", dmake("TextOutlineType", thickness=ln("0.05c"), color=C(0, 0, 0))),
  ("#ff000080 10%", dmake("TextOutlineType", thickness=ln("10%"), color=C(255, 0, 0, 128))),
  ("#000000 0.1em", dmake("TextOutlineType", thickness=ln("0.1em"), color=C(0, 0, 0))),
  ("rgba(0,0,0,128) 3px", dmake("TextOutlineType", thickness=ln("3px"), color=C(0, 0, 0, 128)), "rgb-colour"),
  ("rgb(255,0,0) 5%", dmake("TextOutlineType", thickness=ln("5%"), color=_RED), "rgb-colour"),
])


def _sh(x, y, blur=None, color=None):
  return dmake("Shadow", x_offset=ln(x), y_offset=ln(y), blur_radius=None if blur is None else ln(blur), color=color)


def _ts(*shadows):
  return dmake("TextShadowType", shadows=("T", tuple(shadows)))


# <shadow> = <length> <length> <length>? <color>?, comma separated list (TTML2 10.2.43 / 10.3.? <shadow>)
table("tts:textShadow", [
  ("none", NONE),
  ("1px 1px", _ts(_sh("1px", "1px")), "two-length"), ("0.1em 0.1em", _ts(_sh("0.1em", "0.1em")), "two-length"),
  ("-2% 2%", _ts(_sh("-2%", "2%")), "two-length"), ("5% 2px", _ts(_sh("5%", "2px")), "two-length"),
  ("10% 10% 5%", _ts(_sh("10%", "10%", "5%")), "three-length"), ("0.05em 0.05c 0.02em", _ts(_sh("0.05em", "0.05c", "0.02em")), "three-length"),
  ("2px 2px 1px", _ts(_sh("2px", "2px", "1px")), "three-length"),
  ("0.1em 1px red", _ts(_sh("0.1em", "1px", None, _RED)), "two-length-colour"),
  ("5% 5% #00000080", _ts(_sh("5%", "5%", None, C(0, 0, 0, 128))), "two-length-colour"),
  ("1% 2px 3% #00ff0080", _ts(_sh("1%", "2px", "3%", C(0, 255, 0, 128))), "three-length-colour"),
  ("0.1em -0.1em 0.05em black", _ts(_sh("0.1em", "-0.1em", "0.05em", C(0, 0, 0))), "three-length-colour"),
  ("0.1em 0.1em, -0.1em -0.1em black", _ts(_sh("0.1em", "0.1em"), _sh("-0.1em", "-0.1em", None, C(0, 0, 0))), "list"),
  ("2% 2px 1% red,4% 4px 2% blue", _ts(_sh("2%", "2px", "1%", _RED), _sh("4%", "4px", "2%", C(0, 0, 255))), "list"),
  ("1% 1%, 2% 2%, 3% 3% 1% white", _ts(_sh("1%", "1%"), _sh("2%", "2%"), _sh("3%", "3%", "1%", C(255, 255, 255))), "list"),
  ("0.1em 0.1em rgba(0,0,0,255)", _ts(_sh("0.1em", "0.1em", None, C(0, 0, 0, 255))), "shadow-rgb-colour"),
  ("3% 3% 2% rgb(255,0,0)", _ts(_sh("3%", "3%", "2%", _RED)), "shadow-rgb-colour"),
])
enum("tts:unicodeBidi", "UnicodeBidiType", ["normal", "embed", "bidiOverride"])
enum("tts:visibility", "VisibilityType", ["visible", "hidden"])
enum("tts:wrapOption", "WrapOptionType", ["wrap", "noWrap"])
# TTML2 10.2.52: lr = lrtb, rl = rltb, tb = tbrl
enum("tts:writingMode", "WritingModeType", ["lrtb", "rltb", "tbrl", "tblr"], aliases=[("lr", "lrtb"), ("rl", "rltb"), ("tb", "tbrl")])

# qname -> canonical property name
PROP_OF = {
  qn("tts:backgroundColor"): "BackgroundColor", qn("tts:color"): "Color", qn("tts:direction"): "Direction", qn("tts:disparity"): "Disparity",
  qn("tts:display"): "Display", qn("tts:displayAlign"): "DisplayAlign", qn("tts:extent"): "Extent", qn("itts:fillLineGap"): "FillLineGap",
  qn("tts:fontFamily"): "FontFamily", qn("tts:fontSize"): "FontSize", qn("tts:fontStyle"): "FontStyle", qn("tts:fontWeight"): "FontWeight",
  qn("tts:lineHeight"): "LineHeight", qn("ebutts:linePadding"): "LinePadding", qn("tts:luminanceGain"): "LuminanceGain",
  qn("ebutts:multiRowAlign"): "MultiRowAlign", qn("tts:opacity"): "Opacity", qn("tts:origin"): "Origin", qn("tts:overflow"): "Overflow",
  qn("tts:padding"): "Padding", qn("tts:position"): "Position", qn("tts:rubyAlign"): "RubyAlign", qn("tts:rubyPosition"): "RubyPosition",
  qn("tts:rubyReserve"): "RubyReserve", qn("tts:shear"): "Shear", qn("tts:showBackground"): "ShowBackground", qn("tts:textAlign"): "TextAlign",
  qn("tts:textCombine"): "TextCombine", qn("tts:textDecoration"): "TextDecoration", qn("tts:textEmphasis"): "TextEmphasis",
  qn("tts:textOutline"): "TextOutline", qn("tts:textShadow"): "TextShadow", qn("tts:unicodeBidi"): "UnicodeBidi",
  qn("tts:visibility"): "Visibility", qn("tts:wrapOption"): "WrapOption", qn("tts:writingMode"): "WritingMode",
}
assert set(PROP_OF) == set(VALUES) and len(PROP_OF) == 36
LOOKUP = {q: {s: v for s, v, _t in entries} for q, entries in VALUES.items()}
TAG_OF = {q: {s: t for s, _v, t in entries} for q, entries in VALUES.items()}

RUBY_KIND = {"container": "Ruby", "base": "Rb", "text": "Rt", "delimiter": "Rp", "baseContainer": "Rbc", "textContainer": "Rtc"}
Q_RUBY = qn("tts:ruby")
Q_LANG, Q_SPACE, Q_ID = qn("xml:lang"), qn("xml:space"), qn("xml:id")


def plain_uses_px(p) -> bool:
  if isinstance(p, tuple):
    if len(p) == 3 and p[0] == "L":
      return p[2] == "px"
    return any(plain_uses_px(x) for x in p)
  return False


# ------------------------------------------------------------------------------------------------------------------
# time expressions (TTML2 12.3.1 <time-expression>, Appendix "Time Expression Semantics", media time base)
# ------------------------------------------------------------------------------------------------------------------
_CLOCK = re.compile(r"^(\d{2,}):(\d{2}):(\d{2})(?:(\.\d+)|:(\d{2,}))?$")
_OFFSET = re.compile(r"^(\d+)(\.\d+)?(h|ms|m|s|f|t)$")


class Unsupported(Exception):
  """The document uses a construct on which the reference abstains."""


@dataclasses.dataclass
class TimeEnv:
  frame_rate: typing.Optional[int] = None          # ttp:frameRate (None: not specified)
  multiplier: Fraction = Fraction(1)                # ttp:frameRateMultiplier
  tick_rate: typing.Optional[int] = None            # ttp:tickRate (None: not specified)
  forms: set = dataclasses.field(default_factory=set)

  @property
  def nominal(self):
    """TTML2 ttp:frameRate: 'if not specified, the frame rate must be considered to be equal to 30'."""
    return 30 if self.frame_rate is None else self.frame_rate

  @property
  def effective(self):
    return self.nominal * self.multiplier


def parse_time(s: str, env: TimeEnv) -> typing.Optional[Fraction]:
  """Seconds as Fraction, or None when `s` is not a well-formed time expression (attribute ignored)."""
  m = _CLOCK.match(s)
  if m:
    h, mi, sec, frac, frames = m.groups()
    if int(mi) > 59 or int(sec) > 59:
      return None
    t = Fraction(int(h) * 3600 + int(mi) * 60 + int(sec))
    if frac is not None:
      t += Fraction(int(frac[1:]), 10 ** (len(frac) - 1))
      env.forms.add("clock-fraction")
    elif frames is not None:
      if int(frames) >= env.nominal:
        return None
      t += Fraction(int(frames)) / env.effective
      env.forms.add("clock-frames")
    else:
      env.forms.add("clock")
    return t
  m = _OFFSET.match(s)
  if m:
    count = Fraction(int(m.group(1)))
    if m.group(2):
      count += Fraction(int(m.group(2)[1:]), 10 ** (len(m.group(2)) - 1))
      env.forms.add("offset-fraction")
    metric = m.group(3)
    env.forms.add("offset-" + metric)
    if metric == "f":
      return count / env.effective
    if metric == "t":
      if env.tick_rate is None:
        raise Unsupported("ticks-without-tickRate")
      return count / env.tick_rate
    return count * {"h": 3600, "m": 60, "s": 1, "ms": Fraction(1, 1000)}[metric]
  return None


# ------------------------------------------------------------------------------------------------------------------
# parameters on tt (TTML2 section 7 / 8, IMSC 1.1 section 7)
# ------------------------------------------------------------------------------------------------------------------
_POSINT = re.compile(r"^[0-9]*[1-9][0-9]*$")
_TWO_POSINT = re.compile(r"^([0-9]*[1-9][0-9]*) ([0-9]*[1-9][0-9]*)$")
_TT_EXTENT = re.compile(r"^([0-9]*[1-9][0-9]*)px ([0-9]*[1-9][0-9]*)px$")
_PCT4 = re.compile(r"^(\d+(?:\.\d+)?)% (\d+(?:\.\d+)?)% (\d+(?:\.\d+)?)% (\d+(?:\.\d+)?)%$")


def two_posint(s):
  m = None if s is None else _TWO_POSINT.match(s)
  return None if m is None else (int(m.group(1)), int(m.group(2)))


# ------------------------------------------------------------------------------------------------------------------
@dataclasses.dataclass
class Info:
  classes: set = dataclasses.field(default_factory=set)
  style_loop: bool = False
  root_extent: bool = False
  time_forms: set = dataclasses.field(default_factory=set)
  elements: int = 0
  blocked: set = dataclasses.field(default_factory=set)   # document-order indexes of elements that can never begin (after a seq sibling that never ends)


class _Reader:
  def __init__(self, root, ws_counts=True, set_counts=True):
    self.root = root
    self.ws_counts = ws_counts
    self.set_counts = set_counts
    self.env = TimeEnv()
    self.info = Info()
    self.doc = AbsDoc()
    self.styles: typing.Dict[str, tuple] = {}   # id -> (own props dict, refs list)
    self.region_ids: typing.Set[str] = set()
    self.uid = 0
    self._index = None

  # -- small helpers ----------------------------------------------------------------------------------------------
  def next_uid(self):
    self.uid += 1
    return self.uid

  @staticmethod
  def space_of(x, inherited):
    v = x.get(Q_SPACE)
    return v if v in ("default", "preserve") else inherited

  @staticmethod
  def lang_of(x, inherited):
    v = x.get(Q_LANG)
    return v if v is not None else inherited

  def own_styles(self, x) -> dict:
    """Well-formed style attributes specified on `x` itself (unknown attributes and malformed values are ignored)."""
    out = {}
    for q, s in x.attrib.items():
      if q in LOOKUP and s in LOOKUP[q]:
        out[PROP_OF[q]] = LOOKUP[q][s]
        t = TAG_OF[q][s]
        if t:
          self.info.classes.add("value:" + t)
    return out

  @staticmethod
  def refs_of(x):
    v = x.get("style")
    return v.split() if v is not None else []

  def style_sss(self, sid, stack) -> dict:
    """Specified style set of a style element (TTML2 10.4.4.2 applied to `style`): referenced styles in order, then own.
    -> prop -> (plain value, depth) ; depth 1 = attribute of the style itself, > 1 = through chained references."""
    if sid in stack:
      self.info.style_loop = True
      return {}
    st = self.styles.get(sid)
    if st is None:
      self.info.classes.add("style-missing-ref")
      return {}
    own, refs = st
    out = {}
    if refs:
      self.info.classes.add("style-chain-%d" % min(len(stack) + 2, 4))
    for r in refs:
      for p, (v, d) in self.style_sss(r, stack + [sid]).items():
        out[p] = (v, d + 1)
    for p, v in own.items():
      out[p] = (v, 1)
    return out

  def specified(self, x, nested=(), src=None) -> dict:
    """[TTML2 10.4.4.2] referential (in attribute order, later overrides earlier), nested, inline.
    `src` (optional dict) receives prop -> origin of the winning value (naming of mechanisms only)."""
    out = {}
    src = {} if src is None else src
    refs = self.refs_of(x)
    if len(refs) > 1:
      self.info.classes.add("style-multi-ref")
    if len(set(refs)) < len(refs):
      self.info.classes.add("style-dup-ref")
    for r in refs:
      for p, (v, d) in self.style_sss(r, []).items():
        out[p] = v
        src[p] = "referenced" if d == 1 else "chained"
    nested_seen = set()
    for n in nested:
      nested_set = {}
      for r in self.refs_of(n):
        # a nested style element is a style element: its specified style set includes the styles it references
        self.info.classes.add("nested-style-with-refs")
        for p, (v, _d) in self.style_sss(r, []).items():
          nested_set[p] = (v, "referenced-by-nested")
      for p, v in self.own_styles(n).items():
        nested_set[p] = (v, "nested")
      if set(nested_set) & nested_seen:
        raise Unsupported("conflicting-nested-styles")
      nested_seen |= set(nested_set)
      if set(nested_set) & set(out):
        self.info.classes.add("nested-over-referential")
      for p, (v, o) in nested_set.items():
        out[p] = v
        src[p] = o
      self.info.classes.add("nested-style")
    inline = self.own_styles(x)
    if nested_seen & set(inline):
      self.info.classes.add("inline-over-nested")
    if refs and inline and set(inline) & set(out):
      self.info.classes.add("inline-over-referential")
    for p, v in inline.items():
      out[p] = v
      src[p] = "inline"
    return out

  def times_of(self, x):
    def one(name):
      v = x.get(name)
      return None if v is None else parse_time(v, self.env)
    return one("begin"), one("dur"), one("end")

  @staticmethod
  def active_end(sync, begin_abs, dur, end, implicit):
    """Offset of the active end from the parent's begin.  `sync` = syncbase, `begin_abs` = sync + begin,
    `implicit` = implicit duration (None = indefinite).  SMIL active duration: min(begin + dur, end)."""
    if dur is not None and end is not None:
      return min(begin_abs + dur, sync + end)
    if dur is not None:
      return begin_abs + dur
    if end is not None:
      return sync + end
    return None if implicit is None else begin_abs + implicit

  # -- document -------------------------------------------------------------------------------------------------------
  def read(self):
    root = self.root
    if root.tag != tt("tt"):
      raise Unsupported("root-not-tt")
    d = self.doc
    d.lang = root.get(Q_LANG) or ""
    space = self.space_of(root, "default")
    cr = two_posint(root.get(qn("ttp:cellResolution")))
    if cr is not None:
      d.cell = (cr[1], cr[0])              # "columns rows" -> (rows, columns)
      self.info.classes.add("param:cellResolution")
    m = _TT_EXTENT.match(root.get(qn("tts:extent")) or "")
    if m:
      d.px = (int(m.group(1)), int(m.group(2)))
      self.info.root_extent = True
      self.info.classes.add("param:extent")
    m = _PCT4.match(root.get(qn("ittp:activeArea")) or "")
    if m:
      aa = tuple(Fraction(g) / 100 for g in m.groups())
      if all(0 <= v <= 1 for v in aa):
        d.active_area = aa
        self.info.classes.add("param:activeArea")
    ar1 = two_posint(root.get(qn("ittp:aspectRatio")))
    ar2 = two_posint(root.get(qn("ttp:displayAspectRatio")))
    if ar1 is not None and ar2 is not None:
      raise Unsupported("both-aspect-ratio-attributes")
    if ar1 is not None or ar2 is not None:
      n, dd = ar1 or ar2
      d.dar = Fraction(n, dd)
      self.info.classes.add("param:aspectRatio")
    fr = root.get(qn("ttp:frameRate"))
    if fr is not None and _POSINT.match(fr):
      self.env.frame_rate = int(fr)
      self.info.classes.add("param:frameRate")
    frm = two_posint(root.get(qn("ttp:frameRateMultiplier")))
    if frm is not None:
      self.env.multiplier = Fraction(frm[0], frm[1])
      self.info.classes.add("param:frameRateMultiplier")
    tr = root.get(qn("ttp:tickRate"))
    if tr is not None and _POSINT.match(tr):
      self.env.tick_rate = int(tr)
      self.info.classes.add("param:tickRate")
    tb = root.get(qn("ttp:timeBase"))
    if tb not in (None, "media"):
      raise Unsupported("timeBase-" + tb)

    heads = [c for c in root if c.tag == tt("head")]
    bodies = [c for c in root if c.tag == tt("body")]
    if len(heads) > 1 or len(bodies) > 1:
      raise Unsupported("several-head-or-body")
    if heads:
      self.read_head(heads[0], d.lang, space)
    if bodies:
      el, _b, _e = self.content(bodies[0], "Body", False, Fraction(0), d.lang, space)
      d.body = el
    self.info.time_forms = set(self.env.forms)
    return d

  def read_head(self, head, lang, space):
    lang, space = self.lang_of(head, lang), self.space_of(head, space)
    stylings = [c for c in head if c.tag == tt("styling")]
    layouts = [c for c in head if c.tag == tt("layout")]
    if len(stylings) > 1 or len(layouts) > 1:
      raise Unsupported("several-styling-or-layout")
    if stylings:
      seen_initial = set()
      for c in stylings[0]:
        if c.tag == tt("initial"):
          for p, v in self.own_styles(c).items():
            if p in seen_initial:
              raise Unsupported("several-initial-for-one-property")
            seen_initial.add(p)
            self.doc.initials[p] = v
            self.info.classes.add("initial")
        elif c.tag == tt("style"):
          sid = c.get(Q_ID)
          if sid is None:
            continue
          if sid in self.styles:
            raise Unsupported("duplicate-style-id")
          self.styles[sid] = (self.own_styles(c), self.refs_of(c))
    if layouts:
      lay = layouts[0]
      llang, lspace = self.lang_of(lay, lang), self.space_of(lay, space)
      for c in lay:
        if c.tag == tt("region"):
          rid = c.get(Q_ID)
          if rid is None:
            raise Unsupported("region-without-id")
          if rid in self.region_ids:
            raise Unsupported("duplicate-region-id")
          self.region_ids.add(rid)
      for c in lay:
        if c.tag == tt("region"):
          self.doc.regions.append(self.region(c, llang, lspace))

  def anim(self, s, target: AbsEl, sync=None):
    """`set` child: one style attribute + begin / dur / end relative to the begin of the parent element.
    Returns the offset of its end from the parent element's begin (None = indefinite).
    `sync` is given for a set in a sequential container: its syncbase is the end of the previous child and its implicit
    duration is zero instead of indefinite."""
    b, dur, end = self.times_of(s)
    if sync is None:
      begin = b or Fraction(0)
      e = self.active_end(Fraction(0), begin, dur, end, None)
    else:
      begin = sync + (b or Fraction(0))
      e = self.active_end(sync, begin, dur, end, Fraction(0))
      b = begin if begin != 0 else None
    props = self.own_styles(s)
    n_style_attrs = sum(1 for q in s.attrib if q in LOOKUP)
    if n_style_attrs > 1:
      raise Unsupported("set-with-several-style-attributes")
    for p, v in props.items():
      target.anims.append((p, b, e, v))
      self.info.classes.add("set")
      if dur is not None:
        self.info.classes.add("set-dur")
    return e

  def region(self, x, lang, space) -> AbsEl:
    a = AbsEl("Region", id=x.get(Q_ID), uid=self.next_uid())
    a.lang, a.space = self.lang_of(x, lang), self.space_of(x, space)
    b, dur, end = self.times_of(x)
    begin = b or Fraction(0)
    # region timing is relative to the document; the implicit duration of a region is indefinite (TTML2 12.4)
    a.begin = begin if begin != 0 else None
    a.end = self.active_end(Fraction(0), begin, dur, end, None)
    if b is not None or dur is not None or end is not None:
      self.info.classes.add("region-timing")
    nested = [c for c in x if c.tag == tt("style")]
    a._src = {}  # pylint: disable=protected-access
    a.styles = self.specified(x, nested, a._src)  # pylint: disable=protected-access
    for c in x:
      if c.tag == tt("set"):
        self.anim(c, a)
        self.info.classes.add("set-on-region")
    return a

  # -- content ----------------------------------------------------------------------------------------------------------
  CHILDREN = {
    "Body": {"Div"}, "Div": {"Div", "P"}, "P": {"Span", "Br", "Ruby"}, "Span": {"Span", "Br"},
    "Ruby": {"Rb", "Rt", "Rp", "Rbc", "Rtc"}, "Rbc": {"Rb"}, "Rtc": {"Rt", "Rp"}, "Rb": {"Span"}, "Rt": {"Span"}, "Rp": {"Span"},
  }
  MIXED = {"P", "Span", "Rb", "Rt", "Rp"}

  def kind_of(self, x) -> typing.Optional[str]:
    if x.tag == tt("div"):
      return "Div"
    if x.tag == tt("p"):
      return "P"
    if x.tag == tt("br"):
      return "Br"
    if x.tag == tt("span"):
      r = x.get(Q_RUBY)
      if r is None or r not in RUBY_KIND:
        return "Span"            # an unknown tts:ruby token is ignored: an ordinary span
      return RUBY_KIND[r]
    if x.tag == tt("body"):
      return "Body"
    return None

  def anonymous(self, text, parent: AbsEl) -> AbsEl:
    t = AbsEl("Text", text=text, uid=self.next_uid())
    if parent.kind == "Span":
      return t
    return AbsEl("Span", space=parent.space, lang=parent.lang, children=[t], uid=self.next_uid())

  def content(self, x, kind, parent_seq: bool, sync: Fraction, lang, space):
    """Returns (AbsEl, begin offset, end offset or None) - offsets from the parent's begin."""
    self.info.elements += 1
    a = AbsEl(kind, uid=self.next_uid())
    a.id = x.get(Q_ID)
    a.lang, a.space = self.lang_of(x, lang), self.space_of(x, space)
    rid = x.get("region")
    if rid is not None:
      if rid not in self.region_ids:
        raise Unsupported("dangling-region-reference")
      a.region_id = rid
      self.info.classes.add("region-ref")
    a._src = {}  # pylint: disable=protected-access
    a.styles = self.specified(x, (), a._src)  # pylint: disable=protected-access
    if kind == "Br":
      for c in x:
        if c.tag == tt("set"):
          raise Unsupported("set-on-br")
      if parent_seq:
        # TTML2 12.4 / SMIL: in a sequential parent the implicit duration of br is zero, so it is never shown and the
        # children after it still begin at the same syncbase (timing attributes do not apply to br)
        self.info.classes.add("br-in-seq")
        a.begin = sync if sync != 0 else None
        a.end = sync
        return a, sync, sync
      return a, sync, None     # indefinite in a parallel container

    b, dur, end = self.times_of(x)
    begin = sync + (b or Fraction(0))
    tc = x.get("timeContainer")
    seq = tc == "seq"
    a._seq = seq  # pylint: disable=protected-access
    if seq:
      self.info.classes.add("seq")
      if parent_seq:
        self.info.classes.add("seq-in-seq")
    elif parent_seq:
      self.info.classes.add("par-in-seq")
    if a.space == "preserve":
      self.info.classes.add("preserve")
    if kind in RUBY_KIND.values():
      self.info.classes.add("ruby")

    # ---- children, in this element's own coordinate (offsets from `begin`) -------------------------------------------
    implicit: typing.Optional[Fraction] = Fraction(0)    # None = indefinite
    cur = Fraction(0)                                     # seq: syncbase of the next child (None: blocked)
    blocked = False
    has_timed_child_end = False

    def text_item(txt):
      nonlocal implicit
      if not txt:
        return
      ws_only = txt.strip(" \t\r\n") == ""
      if kind not in self.MIXED:
        if not ws_only:
          raise Unsupported("text-in-" + kind)
        return
      if seq:
        self.info.classes.add("text-in-seq")
        return            # anonymous span in a sequential container: zero duration, never shown
      a.children.append(self.anonymous(txt, a))
      if ws_only and a.space != "preserve":
        self.info.classes.add("ws-only-text")
        if not self.ws_counts:
          return
      implicit = None     # anonymous span in a parallel container: indefinite

    text_item(x.text)
    for c in x:
      ck = self.kind_of(c) if isinstance(c.tag, str) else None
      if c.tag == tt("set"):
        if seq:
          # a set takes part in the sequence like any other timed child (zero implicit duration)
          if blocked:
            self.skip_count(c)
          else:
            self.info.classes.add("set-in-seq")
            e = self.anim(c, a, sync=cur)
            if e < cur + (self.times_of(c)[0] or Fraction(0)):
              raise Unsupported("end-before-begin-in-seq")
            cur = e
            implicit = e
          text_item(c.tail)
          continue
        e = self.anim(c, a)
        if self.set_counts:
          implicit = None if (e is None or implicit is None) else max(implicit, e)
        if begin != 0:
          self.info.classes.add("set-on-offset-element")
      elif ck is None or ck == "Body":
        if isinstance(c.tag, str) and c.tag.startswith("{%s}" % NS_TT) and c.tag not in (tt("metadata"),):
          raise Unsupported("element-" + c.tag.split("}")[1] + "-in-" + kind)
        self.info.classes.add("foreign-or-metadata-element")
      else:
        if ck not in self.CHILDREN.get(kind, ()):
          raise Unsupported(f"{ck}-in-{kind}")
        if seq:
          if not blocked:
            el, cb, ce = self.content(c, ck, True, cur, a.lang, a.space)
            if ck != "Br":       # a br in a sequence has an empty interval: never presented (AbsEl carries no times for br)
              a.children.append(el)
            if ce is None:
              blocked = True
              implicit = None
              self.info.classes.add("seq-blocked")
            else:
              if ce < cb:
                raise Unsupported("end-before-begin-in-seq")
              cur = ce
              implicit = ce
          else:
            self.skip_count(c)
        else:
          el, cb, ce = self.content(c, ck, False, Fraction(0), a.lang, a.space)
          a.children.append(el)
          if ce is None:
            implicit = None
          else:
            has_timed_child_end = True
            if ce < cb and dur is None and end is None:
              raise Unsupported("end-before-begin-under-implicit-duration")
            if implicit is not None:
              implicit = max(implicit, ce)
      text_item(c.tail)

    e_off = self.active_end(sync, begin, dur, end, implicit)
    a.begin = begin if begin != 0 else None
    a.end = e_off
    # coverage classes
    if b is not None or dur is not None or end is not None:
      self.info.classes.add("timing:" + "".join(n for n, v in (("b", b), ("d", dur), ("e", end)) if v is not None))
    if dur is None and end is None and begin != 0 and implicit is not None and has_timed_child_end and implicit > 0:
      self.info.classes.add("offset-container-implicit-duration")
      if seq:
        self.info.classes.add("offset-seq-container-implicit-duration")
    if e_off is not None and e_off <= begin:
      self.info.classes.add("empty-interval")
    if parent_seq and sync != 0:
      self.info.classes.add("seq-child-after-sibling")
    return a, begin, e_off

  def skip_count(self, c):
    self.info.elements += sum(1 for _ in c.iter())
    if self._index is None:
      self._index = {id(e): i for i, e in enumerate(self.root.iter())}
    for e in c.iter():
      self.info.blocked.add(self._index[id(e)])


def interpret(root, ws_counts=True, set_counts=True):
  """root: xml.etree Element of a tt document -> (AbsDoc, Info).  Raises Unsupported on constructs the reference abstains on."""
  r = _Reader(root, ws_counts, set_counts)
  d = r.read()
  return d, r.info
