"""Plain-data snapshot of a ttconv ContentDocument (or ISD), taken through public getters only.
The reference interpreters (vt/ref/isd.py ...) work on this snapshot, never on live ttconv objects, so a mutating
defect in ttconv cannot corrupt the oracle's input.

Style values are converted generically into plain nested tuples:
  Enum member            -> ("E", EnumClassName, member_name)
  dataclass instance     -> ("D", ClassName, ((field, plain), ...))
  tuple / list           -> ("T", (plain, ...))
  numbers / str / bool / None -> themselves
LengthType is special-cased to ("L", value, unit_string) and ColorType to ("C", (r, g, b, a)).
"""
from __future__ import annotations

import dataclasses
import enum
import numbers
import typing
from fractions import Fraction

KINDS = ("Body", "Div", "P", "Span", "Br", "Ruby", "Rb", "Rt", "Rp", "Rbc", "Rtc", "Text", "Region")


def plain(v):
  if v is None or isinstance(v, (bool, str)):
    return v
  if isinstance(v, numbers.Number):
    return v
  if isinstance(v, enum.Enum):
    return ("E", type(v).__name__, v.name)
  if dataclasses.is_dataclass(v) and not isinstance(v, type):
    name = type(v).__name__
    if name == "LengthType":
      return ("L", v.value, plain(v.units)[2] if isinstance(v.units, enum.Enum) else repr(v.units))
    if name == "ColorType":
      return ("C", tuple(v.components))
    return ("D", name, tuple((f.name, plain(getattr(v, f.name))) for f in dataclasses.fields(v)))
  if isinstance(v, (tuple, list)):
    return ("T", tuple(plain(x) for x in v))
  return ("?", repr(v))


UNIT_STR = {"em": "em", "pct": "%", "rh": "rh", "rw": "rw", "c": "c", "px": "px"}


def L(value, unit):
  """Plain length. unit is one of em % rh rw c px (string as in TTML)."""
  return ("L", value, {"%": "pct"}.get(unit, unit))


def is_len(p):
  return isinstance(p, tuple) and len(p) == 3 and p[0] == "L"


def dfield(p, name):
  """Field of a plain dataclass."""
  assert p[0] == "D", p
  for k, v in p[2]:
    if k == name:
      return v
  raise KeyError(name)


def dmake(cls_name, **fields):
  return ("D", cls_name, tuple(fields.items()))


def dreplace(p, **changes):
  assert p[0] == "D"
  return ("D", p[1], tuple((k, changes.get(k, v)) for k, v in p[2]))


@dataclasses.dataclass
class AbsEl:
  kind: str
  id: typing.Optional[str] = None
  begin: typing.Optional[Fraction] = None
  end: typing.Optional[Fraction] = None
  region_id: typing.Optional[str] = None      # id of the referenced region object (None: no reference)
  region_ok: bool = True                      # referenced object is the one registered in the doc under that id
  styles: typing.Dict[str, typing.Any] = dataclasses.field(default_factory=dict)   # prop name -> plain value
  anims: typing.List[tuple] = dataclasses.field(default_factory=list)              # (prop, begin, end, plain value)
  space: str = "default"
  lang: str = ""
  text: typing.Optional[str] = None
  children: typing.List["AbsEl"] = dataclasses.field(default_factory=list)
  uid: int = 0   # position in document order (pre-order), unique within the AbsDoc; regions get negative uids

  def walk(self):
    yield self
    for c in self.children:
      yield from c.walk()


@dataclasses.dataclass
class AbsDoc:
  lang: str = ""
  cell: typing.Tuple[int, int] = (15, 32)            # rows, columns
  px: typing.Tuple[int, int] = (1920, 1080)          # width, height
  active_area: typing.Optional[tuple] = None
  dar: typing.Optional[Fraction] = None
  initials: typing.Dict[str, typing.Any] = dataclasses.field(default_factory=dict)
  regions: typing.List[AbsEl] = dataclasses.field(default_factory=list)
  body: typing.Optional[AbsEl] = None

  def params(self):
    return (self.lang, self.cell, self.px, self.active_area, self.dar)


def kind_of(e) -> str:
  name = type(e).__name__
  if name in KINDS:
    return name
  for k in type(e).__mro__:
    if k.__name__ in KINDS:
      return k.__name__
  return name


def prop_name(p) -> str:
  return p.__name__


def snap_element(e, doc, counter, max_nodes=200000) -> AbsEl:
  k = kind_of(e)
  a = AbsEl(kind=k)
  counter[0] += 1
  if counter[0] > max_nodes:
    raise RuntimeError("document too large or cyclic")
  a.uid = counter[0]
  a.id = e.get_id()
  if k == "Text":
    a.text = e.get_text()
  else:
    a.space = e.get_space().value if e.get_space() is not None else "default"
    a.lang = e.get_lang()
  if k not in ("Text", "Br"):
    a.begin = e.get_begin()
    a.end = e.get_end()
  if k not in ("Text",):
    for sp in e.iter_styles():
      a.styles[prop_name(sp)] = plain(e.get_style(sp))
    for st in e.iter_animation_steps():
      a.anims.append((prop_name(st.style_property), st.begin, st.end, plain(st.value)))
  if k not in ("Text", "Br", "Region"):
    r = e.get_region()
    if r is not None:
      a.region_id = r.get_id()
      a.region_ok = doc is not None and hasattr(doc, "get_region") and doc.get_region(r.get_id()) is r
  for c in e:
    a.children.append(snap_element(c, doc, counter, max_nodes))
  return a


def snap_doc_params(doc, a: AbsDoc):
  a.lang = doc.get_lang()
  cr = doc.get_cell_resolution()
  a.cell = (cr.rows, cr.columns)
  pr = doc.get_px_resolution()
  a.px = (pr.width, pr.height)
  aa = doc.get_active_area()
  a.active_area = None if aa is None else (aa.left_offset, aa.top_offset, aa.width, aa.height)
  a.dar = doc.get_display_aspect_ratio()


def snap_doc(doc) -> AbsDoc:
  """Snapshot of a ContentDocument."""
  a = AbsDoc()
  snap_doc_params(doc, a)
  for sp, v in doc.iter_initial_values():
    a.initials[prop_name(sp)] = plain(v)
  counter = [0]
  rc = [0]
  for r in doc.iter_regions():
    el = snap_element(r, doc, counter)
    rc[0] -= 1
    a.regions.append(el)
  body = doc.get_body()
  if body is not None:
    a.body = snap_element(body, doc, counter)
  return a


def snap_isd(isd) -> AbsDoc:
  """Snapshot of an ISD: regions carry their body as only child."""
  a = AbsDoc()
  snap_doc_params(isd, a)
  counter = [0]
  for r in isd.iter_regions():
    a.regions.append(snap_element(r, None, counter))
  return a


def fingerprint(doc) -> tuple:
  """Deep structural fingerprint of a ContentDocument through public getters (C14, C16, C19): hashable tuple."""
  a = snap_doc(doc)

  def fe(e: AbsEl):
    return (e.kind, e.id, e.begin, e.end, e.region_id, e.region_ok, tuple(sorted(e.styles.items(), key=lambda kv: kv[0])),
            tuple(e.anims), e.space, e.lang, e.text, tuple(fe(c) for c in e.children))
  return (a.params(), tuple(sorted(a.initials.items())), tuple(fe(r) for r in a.regions), None if a.body is None else fe(a.body))
