"""Reference EBU STL interpreter written from EBU Tech 3264-E (GSI / TTI layout, text-field codes, Appendix character
tables) and ISO/IEC 6937 - no ttconv imports, nothing copied from ttconv.

parse(data)                      -> RefFile (GSI fields + list of RefSub, one per subtitle, in file order)
RefFile.timing(start_cfg, interp) -> per-subtitle (begin, end) as Fractions or None when dropped / not judgeable
RefSub.lines                     -> list of lines; a line is a list of items
                                     ("c", accept, attrs)  one displayed character: accept = frozenset of acceptable
                                                           strings, or None (abstain: any 0..3 characters)
                                     ("g", n_real, n_ctrl) a run of real spaces (0x20) and control codes between characters
                                   attrs = (fg, bg, italic, underline), each a frozenset of acceptable values or None (any)

Abstentions are encoded in the data (None / several acceptable values), never decided by the comparator."""
from __future__ import annotations

import codecs
import unicodedata
from fractions import Fraction

GSI_SIZE = 1024
TTI_SIZE = 128
TF_SIZE = 112

# ------------------------------------------------------------------------------------------------------------------
# GSI layout (Tech 3264 section 4): (name, offset, length)
GSI_FIELDS = [
  ("CPN", 0, 3), ("DFC", 3, 8), ("DSC", 11, 1), ("CCT", 12, 2), ("LC", 14, 2), ("OPT", 16, 32), ("OET", 48, 32),
  ("TPT", 80, 32), ("TET", 112, 32), ("TN", 144, 32), ("TCD", 176, 32), ("SLR", 208, 16), ("CD", 224, 6), ("RD", 230, 6),
  ("RN", 236, 2), ("TNB", 238, 5), ("TNS", 243, 5), ("TNG", 248, 3), ("MNC", 251, 2), ("MNR", 253, 2), ("TCS", 255, 1),
  ("TCP", 256, 8), ("TCF", 264, 8), ("TND", 272, 1), ("DSN", 273, 1), ("CO", 274, 3), ("PUB", 277, 32), ("EN", 309, 32),
  ("ECD", 341, 32), ("SPARE", 373, 75), ("UDA", 448, 576),
]

# Disk format code -> (nominal label rate, list of timing interpretations)
# an interpretation is (name, drop_frame_labels: bool, seconds per counted frame)
DFC = {
  b"STL25.01": (25, [("25", False, Fraction(1, 25))]),
  b"STL30.01": (30, [("30000/1001-DF", True, Fraction(1001, 30000)),     # SMPTE ST 12-1 drop-frame labels (de-facto NTSC)
                     ("30", False, Fraction(1, 30)),                        # literal "30 frame/s" reading of Tech 3264
                     ("30000/1001-NDF", False, Fraction(1001, 30000))]),
  b"STL24.01": (24, [("24", False, Fraction(1, 24))]),
  b"STL50.01": (50, [("50", False, Fraction(1, 50))]),
  b"STL23.01": (24, [("24000/1001", False, Fraction(1001, 24000))]),      # nominal 24 labels, no drop-frame defined
}

BLACK, RED, GREEN, YELLOW, BLUE, MAGENTA, CYAN, WHITE = "black", "red", "green", "yellow", "blue", "magenta", "cyan", "white"
TELETEXT_COLORS = [BLACK, RED, GREEN, YELLOW, BLUE, MAGENTA, CYAN, WHITE]      # codes 00h..07h (alpha colours)
TRANSPARENT = "transparent"

# ------------------------------------------------------------------------------------------------------------------
# ISO 6937 (Tech 3264 Appendix, CCT 00).  Cells not listed are abstained from.
_S = {
  0xA1: "¡", 0xA2: "¢", 0xA3: "£", 0xA5: "¥", 0xA7: "§", 0xA8: "¤", 0xA9: "‘",
  0xAA: "“", 0xAB: "«", 0xAC: "←", 0xAD: "↑", 0xAE: "→", 0xAF: "↓",
  0xB0: "°", 0xB1: "±", 0xB2: "²", 0xB3: "³", 0xB4: "×", 0xB5: ("µ", "μ"), 0xB6: "¶",
  0xB7: "·", 0xB8: "÷", 0xB9: "’", 0xBA: "”", 0xBB: "»", 0xBC: "¼", 0xBD: "½",
  0xBE: "¾", 0xBF: "¿",
  0xD0: ("―", "—"), 0xD1: "¹", 0xD2: "®", 0xD3: "©", 0xD4: "™", 0xD5: "♪", 0xD6: "¬",
  0xD7: "¦", 0xDC: "⅛", 0xDD: "⅜", 0xDE: "⅝", 0xDF: "⅞",
  0xE0: ("Ω", "Ω"), 0xE1: "Æ", 0xE2: ("Đ", "Ð"), 0xE3: "ª", 0xE4: "Ħ", 0xE6: "Ĳ",
  0xE7: "Ŀ", 0xE8: "Ł", 0xE9: "Ø", 0xEA: "Œ", 0xEB: "º", 0xEC: "Þ", 0xED: "Ŧ",
  0xEE: "Ŋ", 0xEF: "ŉ",
  0xF0: "ĸ", 0xF1: "æ", 0xF2: "đ", 0xF3: "ð", 0xF4: "ħ", 0xF5: "ı", 0xF6: "ĳ",
  0xF7: "ŀ", 0xF8: "ł", 0xF9: "ø", 0xFA: "œ", 0xFB: "ß", 0xFC: "þ", 0xFD: "ŧ",
  0xFE: "ŋ", 0xFF: "­",
}
ISO6937_SINGLE = {k: frozenset((v,) if isinstance(v, str) else v) for k, v in _S.items()}
ISO6937_UNCERTAIN_SINGLE = (0x24, 0x7F, 0xA0, 0xA4, 0xA6, 0xD8, 0xD9, 0xDA, 0xDB, 0xE5)
ISO6937_UNCERTAIN_DIACRITIC = (0xC0, 0xC9, 0xCC)

# non-spacing diacritical marks C1h..CFh: (combining character, base letters of the ISO 6937 repertoire)
ISO6937_DIACRITICS = {
  0xC1: ("̀", "AEIOUaeiou"),                                   # grave
  0xC2: ("́", "ACEILNORSUYZacegilnorsuyz"),                    # acute
  0xC3: ("̂", "ACEGHIJOSUWYaceghijosuwy"),                     # circumflex
  0xC4: ("̃", "AINOUainou"),                                   # tilde
  0xC5: ("̄", "AEIOUaeiou"),                                   # macron
  0xC6: ("̆", "AGUagu"),                                       # breve
  0xC7: ("̇", "CEGIZcegz"),                                    # dot above
  0xC8: ("̈", "AEIOUYaeiouy"),                                 # diaeresis
  0xCA: ("̊", "AUau"),                                         # ring above
  0xCB: ("̧", "CGKLNRSTcklnrst"),                             # cedilla
  0xCD: ("̋", "OUou"),                                         # double acute
  0xCE: ("̨", "AEIUaeiu"),                                     # ogonek
  0xCF: ("̌", "CDELNRSTZcdelnrstz"),                           # caron
}


def iso6937_pair(diacritic: int, letter: int):
  """Acceptable strings for diacritic byte + letter byte, or None when outside the ISO 6937 repertoire."""
  d = ISO6937_DIACRITICS.get(diacritic)
  if d is None or chr(letter) not in d[1]:
    return None
  composed = unicodedata.normalize("NFC", chr(letter) + d[0])
  if len(composed) != 1:
    return None
  if diacritic == 0xC2 and letter == 0x67:
    # ISO 6937 codes the small g with cedilla (drawn with its mark above) as acute + g
    return frozenset((composed, "ģ"))
  return frozenset((composed,))


def iso6937_repertoire_pairs():
  return [(d, ord(ch)) for d, (_, letters) in sorted(ISO6937_DIACRITICS.items()) for ch in letters]


_CODECS = {b"01": "iso8859_5", b"02": "iso8859_6", b"03": "iso8859_7", b"04": "iso8859_8"}


def single_byte_char(cct: bytes, b: int):
  """Acceptable strings of one character byte (20h..7Fh, A0h..FFh) that is not an ISO 6937 diacritic, or None (abstain)."""
  if b == 0x7F or b == 0xA0:
    return None
  if cct == b"00":
    if b == 0x24:
      return None
    if 0x20 <= b <= 0x7E:
      return frozenset((chr(b),))
    return ISO6937_SINGLE.get(b)
  name = _CODECS.get(cct)
  if name is None:
    return None
  if 0x20 <= b <= 0x7E:
    return frozenset((chr(b),))
  try:
    s = codecs.decode(bytes([b]), name, "strict")
  except UnicodeDecodeError:
    return None
  return frozenset((unicodedata.normalize("NFC", s),))


# ------------------------------------------------------------------------------------------------------------------
def is_char_code(b: int) -> bool:
  return 0x20 <= b <= 0x7F or 0xA0 <= b <= 0xFF


ANY = None


def _fs(*v):
  return frozenset(v)


class _Attr:
  """Attribute automaton of one text field (Tech 3264 section 5 TF codes, teletext spacing attributes)."""

  def __init__(self, teletext: bool):
    self.teletext = teletext
    if teletext:
      self.row_start()
    else:
      # open / undefined subtitles: the colour of characters not preceded by a colour code is not defined -> abstain
      self.fg, self.bg, self.it, self.ul = ANY, ANY, _fs(False), _fs(False)

  def row_start(self):
    if self.teletext:
      # a teletext row starts alpha white on black; 80h-83h are treated alike
      self.fg, self.bg, self.it, self.ul = _fs(WHITE), _fs(BLACK), _fs(False), _fs(False)
    else:
      # open subtitles: Tech 3264 does not say whether attributes persist across CR/LF -> either
      self.fg, self.bg = ANY, ANY
      self.it = self.it | _fs(False) if self.it is not ANY else ANY
      self.ul = self.ul | _fs(False) if self.ul is not ANY else ANY

  def control(self, c: int):
    if 0x00 <= c <= 0x07:
      self.fg = _fs(TELETEXT_COLORS[c])
    elif c == 0x1C:
      self.bg = _fs(BLACK)
    elif c == 0x1D:
      self.bg = self.fg                 # new background: adopts the current foreground colour
    elif c == 0x80:
      self.it = _fs(True)
    elif c == 0x81:
      self.it = _fs(False)
    elif c == 0x82:
      self.ul = _fs(True)
    elif c == 0x83:
      self.ul = _fs(False)
    elif c in (0x84, 0x85, 0x0A, 0x0B):
      self.bg = ANY                     # boxing: effect on the background not judged

  def get(self):
    return (self.fg, self.bg, self.it, self.ul)


# control codes whose only judged effect is "may occupy one space cell"
_PLAIN_CONTROLS = set(range(0x00, 0x10)) | {0x1C, 0x1D} | set(range(0x80, 0x86))
# codes after which the rest of the row is not judged (mosaics, conceal, reserved)
_OPAQUE_CONTROLS = (set(range(0x10, 0x20)) - {0x1C, 0x1D}) | set(range(0x86, 0x8A)) | set(range(0x8B, 0x8F)) | set(range(0x90, 0xA0))


def interpret_tf(tf: bytes, teletext: bool, cct: bytes):
  """TF bytes (already cut at the unused-space code) -> (lines, flags).
  flags: has_control, has_newline, has_nonascii, double_height, opaque (row content not judged somewhere)"""
  st = _Attr(teletext)
  lines = [[]]
  flags = {"control": False, "newline": False, "nonascii": False, "double_height": False, "opaque": False,
           "wild": False, "n_newline_codes": 0, "diacritic_space": False}
  i, n = 0, len(tf)

  after_dspace = [False]      # the previous cell is diacritic + space: whether that space still separates words is not judged

  def gap(real, ctrl):
    if after_dspace[0]:
      real, ctrl = 0, real + ctrl
    cur = lines[-1]
    if cur and cur[-1][0] == "g":
      cur[-1] = ("g", cur[-1][1] + real, cur[-1][2] + ctrl)
    else:
      cur.append(("g", real, ctrl))

  while i < n:
    b = tf[i]
    if b == 0x8A:
      after_dspace[0] = False
      flags["newline"] = True
      flags["n_newline_codes"] += 1
      lines.append([])
      st.row_start()
    elif b == 0x20:
      gap(1, 0)
    elif b in _PLAIN_CONTROLS:
      flags["control"] = True
      if b == 0x0D or b == 0x0F:
        flags["double_height"] = True
      st.control(b)
      gap(0, 1)
    elif b in _OPAQUE_CONTROLS:
      flags["opaque"] = True
      lines[-1].append(("o",))
    elif is_char_code(b):
      if b >= 0x80:
        flags["nonascii"] = True
      if cct == b"00" and 0xC0 <= b <= 0xCF:
        nxt = tf[i + 1] if i + 1 < n else None
        if nxt is not None and is_char_code(nxt):
          # diacritic + space (free-standing accent) and pairs outside the repertoire: not judged
          acc = iso6937_pair(b, nxt) if nxt != 0x20 else None
          i += 1
          after_dspace[0] = False
          if nxt == 0x20:
            flags["diacritic_space"] = True
            after_dspace[0] = True
        else:
          acc = None                  # diacritic before a control code / end of field: not judged
          after_dspace[0] = False
        if acc is None:
          flags["wild"] = True
        lines[-1].append(("c", acc, st.get()))
      else:
        after_dspace[0] = False
        acc = single_byte_char(cct, b)
        if acc is None:
          flags["wild"] = True
        lines[-1].append(("c", acc, st.get()))
    else:
      flags["opaque"] = True
      lines[-1].append(("o",))
    i += 1
  return lines, flags


# ------------------------------------------------------------------------------------------------------------------
class RefSub:
  """One subtitle: the TTI blocks sharing a subtitle number, up to and including the block with EBN = FFh."""

  def __init__(self):
    self.index = -1
    self.sn = self.sgn = self.cs = self.vp = self.jc = None
    self.tci = self.tco = None           # labels (h, m, s, f)
    self.comment = False
    self.block_indices = []
    self.tf_variants = []                # acceptable readings of the concatenated text field
    self.irregular = []                  # reasons for which parts of this subtitle are not judged
    self.cum_set = None                  # id of the cumulative set, None when CS = 0
    self.cs_irregular = False
    self.readings = []                   # [(lines, flags)] one per tf variant
    self.layout_irregular = False
    self.inner_filler = False            # an unused-space code is followed by other bytes in some block
    self.raw_tfs = []

  def describe(self):
    return {"sn": self.sn, "cs": self.cs, "tci": list(self.tci), "tco": list(self.tco), "vp": self.vp, "jc": self.jc,
            "comment": self.comment, "blocks": self.block_indices, "tf": [v.hex() for v in self.tf_variants]}


class RefFile:
  def __init__(self):
    self.gsi = {}
    self.dfc_known = False
    self.nominal = None
    self.interps = []
    self.teletext = False
    self.cct = b"00"
    self.cct_known = True
    self.subs = []                        # RefSub in file order (comments included, flagged)
    self.n_tti = 0
    self.n_userdata = 0
    self.n_reserved = 0
    self.trailing_bytes = 0
    self.unterminated_chain = False

  # --- time -----------------------------------------------------------------------------------------------------
  def label_valid(self, lab, interp) -> bool:
    h, m, s, f = lab
    if not (0 <= h <= 23 and 0 <= m <= 59 and 0 <= s <= 59 and 0 <= f < self.nominal):
      return False
    if interp[1] and s == 0 and f < 2 and m % 10 != 0:
      return False                        # label skipped by drop-frame counting
    return True

  def label_seconds(self, lab, interp) -> Fraction:
    h, m, s, f = lab
    count = ((h * 60 + m) * 60 + s) * self.nominal + f
    if interp[1]:
      tm = h * 60 + m
      count -= 2 * (tm - tm // 10)
    return count * interp[2]

  def tcp_label(self):
    raw = self.gsi["TCP"]
    if len(raw) == 8 and all(0x30 <= c <= 0x39 for c in raw):
      s = raw.decode("ascii")
      return (int(s[0:2]), int(s[2:4]), int(s[4:6]), int(s[6:8]))
    return None

  def mnr(self):
    raw = self.gsi["MNR"]
    if len(raw) == 2 and all(0x30 <= c <= 0x39 for c in raw):
      return int(raw.decode("ascii"))
    return None

  def start_offset(self, start_cfg, interp):
    """Programme start in seconds: None -> 0 (documented default 00:00:00:00); 'TCP' -> GSI TCP; 'HH:MM:SS:FF'.
    Returns None when the configured start cannot be evaluated (abstain)."""
    if start_cfg is None:
      return Fraction(0)
    if start_cfg == "TCP":
      lab = self.tcp_label()
    else:
      parts = start_cfg.replace(";", ":").split(":")
      lab = tuple(int(p) for p in parts) if len(parts) == 4 and all(p.isdigit() for p in parts) else None
    if lab is None or not self.label_valid(lab, interp):
      return None
    return self.label_seconds(lab, interp)

  def timing(self, start_cfg, interp):
    """-> list parallel to self.subs of ('ok', begin, end) | ('dropped',) | ('unjudged', reason)."""
    off = self.start_offset(start_cfg, interp)
    out = []
    for s in self.subs:
      if off is None:
        out.append(("unjudged", "programme start not evaluable"))
        continue
      if not (self.label_valid(s.tci, interp) and self.label_valid(s.tco, interp)):
        out.append(("unjudged", "invalid time code label"))
        continue
      b = self.label_seconds(s.tci, interp) - off
      e = self.label_seconds(s.tco, interp) - off
      if e < b:
        out.append(("unjudged", "TCO < TCI"))
      elif b < 0:
        out.append(("dropped",))
      else:
        out.append(("ok", b, e))
    return out


def _cut(tf: bytes) -> bytes:
  k = tf.find(b"\x8f")
  return tf if k < 0 else tf[:k]


def parse(data: bytes) -> RefFile:
  rf = RefFile()
  gsi = data[:GSI_SIZE]
  if len(gsi) < GSI_SIZE:
    raise ValueError("short GSI block")
  for name, off, ln in GSI_FIELDS:
    rf.gsi[name] = gsi[off:off + ln]
  d = DFC.get(rf.gsi["DFC"])
  if d is not None:
    rf.dfc_known = True
    rf.nominal, rf.interps = d
  rf.teletext = rf.gsi["DSC"] in (b"1", b"2")
  rf.cct = rf.gsi["CCT"]
  rf.cct_known = rf.cct in (b"00", b"01", b"02", b"03", b"04")

  body = data[GSI_SIZE:]
  nblocks = len(body) // TTI_SIZE
  rf.trailing_bytes = len(body) - nblocks * TTI_SIZE
  rf.n_tti = nblocks

  cur = None            # open chain: (RefSub, [block TFs])
  chain_tfs = []
  for k in range(nblocks):
    blk = body[k * TTI_SIZE:(k + 1) * TTI_SIZE]
    sgn = blk[0]
    sn = blk[1] | (blk[2] << 8)            # low-order byte first
    ebn, cs = blk[3], blk[4]
    tci, tco = tuple(blk[5:9]), tuple(blk[9:13])
    vp, jc, cf = blk[13], blk[14], blk[15]
    tf = blk[16:16 + TF_SIZE]
    if ebn == 0xFE:
      rf.n_userdata += 1
      continue
    if 0xF0 <= ebn <= 0xFD:
      rf.n_reserved += 1
      continue
    if cur is not None and cur.sn != sn:
      # chain not terminated by EBN = FFh before the subtitle number changed: malformed, not judged
      cur.irregular.append("unterminated extension chain")
      rf.unterminated_chain = True
      _finish(rf, cur, chain_tfs)
      cur, chain_tfs = None, []
    if cur is None:
      cur = RefSub()
      cur.sn, cur.sgn, cur.cs, cur.tci, cur.tco, cur.vp, cur.jc = sn, sgn, cs, tci, tco, vp, jc
      cur.comment = cf == 1
      if cf not in (0, 1):
        cur.irregular.append("CF not 0/1")
      chain_tfs = []
    else:
      if (cs, tci, tco) != (cur.cs, cur.tci, cur.tco):
        cur.irregular.append("extension block CS/TCI/TCO differ")
      if (vp, jc) != (cur.vp, cur.jc):
        cur.layout_irregular = True       # which block's VP/JC applies is not defined: layout not judged
      if (cf == 1) != cur.comment:
        cur.irregular.append("extension block CF differs")
    cur.block_indices.append(k)
    chain_tfs.append(tf)
    if ebn == 0xFF:
      _finish(rf, cur, chain_tfs)
      cur, chain_tfs = None, []
  if cur is not None:
    cur.irregular.append("unterminated extension chain")
    rf.unterminated_chain = True
    _finish(rf, cur, chain_tfs)

  # cumulative sets: 01 first, 02 intermediate, 03 last
  open_set = None
  set_id = 0
  for s in rf.subs:
    if s.comment:
      continue
    if s.cs == 1:
      if open_set is not None:
        s.cs_irregular = True
      set_id += 1
      open_set = set_id
      s.cum_set = open_set
    elif s.cs in (2, 3):
      if open_set is None:
        s.cs_irregular = True
        set_id += 1
        open_set = set_id
      s.cum_set = open_set
      if s.cs == 3:
        open_set = None
    else:
      if open_set is not None:
        s.cs_irregular = True      # set never closed by CS = 03
      open_set = None
      if s.cs != 0:
        s.irregular.append("CS not 0..3")
  # mark whole sets irregular when any member is
  bad_sets = {s.cum_set for s in rf.subs if s.cs_irregular and s.cum_set is not None}
  for s in rf.subs:
    if s.cum_set in bad_sets:
      s.cs_irregular = True
  return rf


def _finish(rf: RefFile, sub: RefSub, tfs):
  sub.index = len(rf.subs)
  # reading A: every block's text field ends at its first unused-space code, then the blocks are concatenated
  a = b"".join(_cut(t) for t in tfs)
  # reading B: trailing filler removed per block, blocks concatenated, text ends at the first unused-space code
  b = _cut(b"".join(t.rstrip(b"\x8f") for t in tfs))
  # Tech 3264: the unused space of the text field OF EACH BLOCK is filled with 8Fh, so a block contributes its bytes up to its
  # first 8Fh whatever follows in that block (reading B was accepted at first; seeded change s-C09-1 showed that it lets the
  # text of all following extension blocks disappear)
  del b
  sub.tf_variants = [a]
  sub.inner_filler = any(t.rstrip(b"\x8f").find(b"\x8f") >= 0 for t in tfs)
  sub.raw_tfs = list(tfs)
  for v in sub.tf_variants:
    sub.readings.append(interpret_tf(v, rf.teletext, rf.cct if rf.cct_known else b"??"))
  rf.subs.append(sub)
