"""Reference classification of every 16-bit CEA-608 word, derived from the bit layout of
CEA-608-E / 47 CFR 15.119 (not from ttconv's enums).

classify(value) -> dict with keys
  cls      : 'padding' | 'chars' | 'pac' | 'midrow' | 'control' | 'attribute' | 'special' | 'extended' | 'unknown'
  channel  : 1 | 2 | None   (None: not a code, unknown, or a field-2 control code)
  + class specific attributes
"""

STANDARD_SUBST = {
  0x2A: "á", 0x5C: "é", 0x5E: "í", 0x5F: "ó", 0x60: "ú",
  0x7B: "ç", 0x7C: "÷", 0x7D: "Ñ", 0x7E: "ñ", 0x7F: "█",
}


def std_char(b: int) -> str:
  """Standard (basic north american) character set: ASCII with ten substitutions."""
  assert 0x20 <= b <= 0x7F
  return STANDARD_SUBST.get(b, chr(b))


SPECIAL = "®°½¿™¢£♪à èâêîôû"
assert len(SPECIAL) == 16

# Extended western european character set; each cell lists the acceptable renderings (the
# standard shows glyphs, and for a handful several Unicode code points are in common use).
EXT_12 = [
  "Á", "É", "Ó", "Ú", "Ü", "ü", "‘", "¡",
  "*", "'", ("—", "━", "─"), "©", "℠", ("•", "·"), "“", "”",
  "À", "Â", "Ç", "È", "Ê", "Ë", "ë", "Î",
  "Ï", "ï", "Ô", "Ù", "ù", "Û", "«", "»",
]
EXT_13 = [
  "Ã", "ã", "Í", "Ì", "ì", "Ò", "ò", "Õ",
  "õ", "{", "}", "\\", ("^", "ʌ", "ˆ"), "_", ("|", "¦"), "~",
  "Ä", "ä", "Ö", "ö", "ß", "¥", "¤", ("│", "┃", "|", "¦"),
  "Å", "å", "Ø", "ø", ("┌", "┏", "⎡"), ("┐", "┓", "⎤"),
  ("└", "┗", "⎣"), ("┘", "┛", "⎦"),
]
assert len(EXT_12) == 32 and len(EXT_13) == 32

COLORS7 = ["white", "green", "blue", "cyan", "red", "yellow", "magenta"]
RGB = {
  "white": (255, 255, 255), "green": (0, 255, 0), "blue": (0, 0, 255), "cyan": (0, 255, 255),
  "red": (255, 0, 0), "yellow": (255, 255, 0), "magenta": (255, 0, 255), "black": (0, 0, 0),
}
# the TTML named colour `green` is (0,128,0); CEA-608 green is full green. Either accepted.
RGB_ALT = {"green": (0, 128, 0)}

PAC_ROWS = {
  (0x11, 0): 1, (0x11, 1): 2, (0x12, 0): 3, (0x12, 1): 4, (0x15, 0): 5, (0x15, 1): 6,
  (0x16, 0): 7, (0x16, 1): 8, (0x17, 0): 9, (0x17, 1): 10, (0x10, 0): 11,
  (0x13, 0): 12, (0x13, 1): 13, (0x14, 0): 14, (0x14, 1): 15,
}

MISC = {
  0x20: "RCL", 0x21: "BS", 0x22: "AOF", 0x23: "AON", 0x24: "DER", 0x25: "RU2", 0x26: "RU3", 0x27: "RU4",
  0x28: "FON", 0x29: "RDC", 0x2A: "TR", 0x2B: "RTD", 0x2C: "EDM", 0x2D: "CR", 0x2E: "ENM", 0x2F: "EOC",
}


def classify(value: int) -> dict:
  b1 = (value >> 8) & 0x7F
  b2 = value & 0x7F
  if b1 == 0 and b2 == 0:
    return {"cls": "padding", "channel": None}
  if b1 >= 0x20:
    text = std_char(b1)
    if b2 >= 0x20:
      text += std_char(b2)
      sure = True
    else:
      sure = b2 == 0
    return {"cls": "chars", "channel": None, "text": text, "text_sure": sure}
  if b1 < 0x10:
    return {"cls": "unknown", "channel": None}
  chan = 2 if b1 & 0x08 else 1
  base = b1 & 0x17
  if 0x40 <= b2 <= 0x7F:
    row = PAC_ROWS.get((base, (b2 >> 5) & 1))
    if row is None:
      return {"cls": "unknown", "channel": None}
    a = b2 & 0x1F
    d = {"cls": "pac", "channel": chan, "row": row, "underline": bool(a & 1)}
    if a < 0x10:
      idx = a >> 1
      d["italic"] = idx == 7
      d["color"] = "white" if idx == 7 else COLORS7[idx]
      d["indent"] = 0
      d["is_indent"] = False
    else:
      d["italic"] = False
      d["color"] = "white"
      d["indent"] = ((a >> 1) & 7) * 4
      d["is_indent"] = True
    return d
  if base == 0x10 and 0x20 <= b2 <= 0x2F:
    idx = (b2 >> 1) & 7
    return {"cls": "attribute", "channel": chan, "background": True,
            "color": (COLORS7 + ["black"])[idx], "semi": bool(b2 & 1), "transparent": False, "underline": False}
  if base == 0x11 and 0x20 <= b2 <= 0x2F:
    idx = (b2 >> 1) & 7
    return {"cls": "midrow", "channel": chan, "italic": idx == 7,
            "color": None if idx == 7 else COLORS7[idx], "underline": bool(b2 & 1)}
  if base == 0x11 and 0x30 <= b2 <= 0x3F:
    return {"cls": "special", "channel": chan, "char": SPECIAL[b2 - 0x30]}
  if base in (0x12, 0x13) and 0x20 <= b2 <= 0x3F:
    cell = (EXT_12 if base == 0x12 else EXT_13)[b2 - 0x20]
    return {"cls": "extended", "channel": chan, "chars": cell if isinstance(cell, tuple) else (cell,)}
  if base == 0x14 and 0x20 <= b2 <= 0x2F:
    return {"cls": "control", "channel": chan, "name": MISC[b2], "field": 1}
  if base == 0x15 and 0x20 <= b2 <= 0x2F:
    return {"cls": "control", "channel": None, "name": MISC[b2], "field": 2}
  if base == 0x17 and 0x21 <= b2 <= 0x23:
    return {"cls": "control", "channel": chan, "name": "TO%d" % (b2 - 0x20), "field": 1}
  if base == 0x17 and b2 == 0x2D:
    return {"cls": "attribute", "channel": chan, "background": True, "color": None, "semi": False,
            "transparent": True, "underline": False}
  if base == 0x17 and b2 in (0x2E, 0x2F):
    return {"cls": "attribute", "channel": chan, "background": False, "color": "black", "semi": False,
            "transparent": False, "underline": b2 == 0x2F}
  return {"cls": "unknown", "channel": None}


def color_matches(name, components) -> bool:
  """components: RGBA tuple or None"""
  if components is None:
    return False
  rgb = tuple(components[:3])
  return rgb == RGB[name] or rgb == RGB_ALT.get(name)
