"""Reference CEA-608 caption decoder for field 1 / channel 1 (CC1), written from CEA-608-E sections 6-7 and
47 CFR 15.119 (d)-(i).  No ttconv imports; words are classified by vt.ref.c608_table (bit layout).

Model
  * 15 rows x 32 columns, a displayed and a non-displayed memory; a cell is None (transparent) or
    (alts, color, italic, underline, kind) with kind 'c' (character) or 'm' (mid-row code: shows as a blank);
    `alts` is the tuple of acceptable renderings of the glyph (several for a few extended characters).
  * modes: None (no mode command yet), 'pop', 'roll', 'paint', 'text' (TR/RTD: data belongs to T1, ignored).
  * parity bit stripped; words whose control pair carries the channel-2 bit, and the text that follows them, are
    ignored until the next channel-1 control pair; a control pair repeated immediately is acted on once.
  * frame accounting: word i of a line whose time code is frame T is transmitted in frame w = T + i (every word
    counts: suppressed duplicates, other-channel words and null padding included); its effect is on display from
    frame w + 1.  Change events are (w + 1, screen).

`strict_dup=True`: the redundant copy must be the very next word.  `strict_dup=False`: null padding and
other-channel words in between do not break the pair (some decoders).  Callers abstain when both readings differ.
"""
import bisect
import re

from vt.ref import c608_table as T
from vt.ref import timecode as TC
from fractions import Fraction

ROWS, COLS = 15, 32
FPS_NDF = Fraction(30)
FPS_DF = Fraction(30000, 1001)

LINE_RE = re.compile(r"^(\d\d):(\d\d):(\d\d)([:;])(\d\d)\t(.*)$")
BLANK_ROW = (None,) * COLS
BLANK_SCREEN = (BLANK_ROW,) * ROWS


def parse_scc(text):
  """-> (lines, df) ; lines = list of dict(tc=str, df=bool, T=frame count, words=[int]).  Raises ValueError on a
  line that looks like a caption line but is malformed.  Independent of ttconv's parser."""
  out = []
  for raw in text.splitlines():
    m = LINE_RE.match(raw)
    if m is None:
      continue
    h, mi, s, sep, f = int(m.group(1)), int(m.group(2)), int(m.group(3)), m.group(4), int(m.group(5))
    df = sep == ";"
    rate = FPS_DF if df else FPS_NDF
    if not TC.label_valid((h, mi, s, f), rate):
      raise ValueError("invalid time code label " + raw[:11])
    words = []
    for tok in m.group(6).split(" "):
      if not tok:
        continue
      if not re.fullmatch(r"[0-9a-fA-F]{4}", tok):
        raise ValueError("bad word " + tok)
      words.append(int(tok, 16))
    out.append({"tc": raw[:11], "df": df, "T": TC.count((h, mi, s, f), rate), "words": words})
  return out


def is_blank_cell(cell):
  return cell is None or cell[4] == "m" or cell[0] == (" ",)


def has_overflow(screen):
  """True when a row of the screen received more glyphs than fit (cell kind 'o' in column 32)."""
  return any(row is not BLANK_ROW and row[COLS - 1] is not None and row[COLS - 1][4] == "o" for row in screen)


def row_trim(row):
  """-> (first column, list of cells from the first to the last non-blank cell) or None for a blank row."""
  first = last = None
  for i, c in enumerate(row):
    if not is_blank_cell(c):
      if first is None:
        first = i
      last = i
  if first is None:
    return None
  return first, list(row[first:last + 1])


def screen_rows(screen):
  """-> list of (row number 1..15, first column, cells) for the non-blank rows, top to bottom."""
  out = []
  for r, row in enumerate(screen):
    if row is BLANK_ROW:
      continue
    t = row_trim(row)
    if t is not None:
      out.append((r + 1, t[0], t[1]))
  return out


def cells_text(cells):
  """Canonical text of a trimmed cell list (first alternative of each glyph, blanks as spaces)."""
  return "".join(" " if is_blank_cell(c) else c[0][0] for c in cells)


def screen_text(screen):
  return [(r, cells_text(cells)) for r, _, cells in screen_rows(screen)]


class Decoder:
  """Feed words with feed(w_frame, value, line_index, word_index)."""

  def __init__(self, strict_dup=True):
    self.strict_dup = strict_dup
    self.disp = [list(BLANK_ROW) for _ in range(ROWS)]
    self.nond = [list(BLANK_ROW) for _ in range(ROWS)]
    self.mode = None
    self.row, self.col = 15, 0
    self.pen = ("white", False, False)
    self.depth = 0
    self.base = 15
    self.chan = 1
    self.last_code = None
    self.dirty = False
    self.overflow = 0
    self.nond_was_displayed = False   # the non-displayed memory holds text that was on display before the last flip
    self.eoc_carry = False
    self._stuck = None
    self.words = []          # per word record
    self.events = [(-(10 ** 12), BLANK_SCREEN)]   # (frame from which the screen is on display, screen)
    self._event_frames = [self.events[0][0]]
    self._last_screen = BLANK_SCREEN

  # ---- memories ----------------------------------------------------------------------------------------------
  def _target(self):
    if self.mode == "pop":
      return self.nond
    if self.mode in ("roll", "paint"):
      return self.disp
    return None

  def _touch(self, mem):
    if mem is self.disp:
      self.dirty = True

  def _erase(self, mem):
    for r in range(ROWS):
      if any(c is not None for c in mem[r]):
        mem[r] = list(BLANK_ROW)
        self._touch(mem)

  def _put(self, alts, kind="c"):
    mem = self._target()
    if mem is None:
      return False
    if self.col == COLS - 1 and self._stuck == (id(mem), self.row):
      self.overflow += 1     # a second glyph written into column 32: the row is longer than the screen
      kind = "o"
    mem[self.row - 1][self.col] = (alts, self.pen[0], self.pen[1], self.pen[2], kind)
    self._touch(mem)
    if self.col < COLS - 1:
      self.col += 1
      self._stuck = None
    else:
      self._stuck = (id(mem), self.row)
    return True

  def _backspace(self):
    mem = self._target()
    if mem is None:
      return
    self._stuck = None
    if self.col > 0:
      self.col -= 1
      if mem[self.row - 1][self.col] is not None:
        mem[self.row - 1][self.col] = None
        self._touch(mem)

  # ---- words -------------------------------------------------------------------------------------------------
  def feed(self, w, value, line=None, idx=None):
    v = value & 0x7F7F
    c = T.classify(v)
    rec = {"w": w, "line": line, "idx": idx, "value": v, "cls": c["cls"], "name": c.get("name"), "suppressed": False,
           "ch1": False, "mode": self.mode, "mode_before": self.mode, "row": None, "chan": c.get("channel")}
    if c["cls"] == "pac":
      rec["pac_row"] = c["row"]
    self.words.append(rec)
    is_pair = 0x10 <= (v >> 8) <= 0x1F
    if is_pair:
      if self.last_code == v:
        rec["suppressed"] = True
        self.last_code = None
        return rec
    if c["cls"] == "padding":
      if self.strict_dup:
        self.last_code = None
      return rec
    if c["cls"] == "unknown":
      self.last_code = None
      return rec
    if c["cls"] == "chars":
      if self.strict_dup or self.chan == 1:
        self.last_code = None
      if self.chan == 1 and self.mode in ("pop", "roll", "paint"):
        rec["ch1"] = True
        rec["row"] = self.row
        rec["mem"] = "disp" if self._target() is self.disp else "nond"
        for b in ((v >> 8), v & 0xFF):
          if b >= 0x20:
            self._put((T.std_char(b),))
      self._after(w)
      return rec
    # control pair
    chan = c["channel"]
    if chan != 1:
      # channel 2 or a field-2 code: not ours; the text that follows is not ours either
      self.chan = chan if chan is not None else 0
      if self.strict_dup:
        self.last_code = v
      return rec
    self.last_code = v
    self.chan = 1
    rec["ch1"] = True
    cls = c["cls"]
    if cls == "control":
      self._control(c["name"])
      if c["name"] == "EOC":
        rec["swap_carry"] = self.eoc_carry   # a caption displayed before returns on screen with this flip
    elif self.mode == "text":
      pass
    elif cls == "pac":
      self._pac(c)
    elif cls == "midrow":
      color, italic, underline = self.pen
      if c["color"] is not None:
        color, italic = c["color"], False
      else:
        italic = True
      underline = c["underline"]
      # the code occupies a cell displayed as a blank; the new attributes apply to what follows
      self.pen = (color, italic, underline)
      rec["row"] = self.row
      self._put((" ",), "m")
    elif cls == "attribute":
      # optional background / black foreground attributes: replace the preceding blank by a blank; glyphs unchanged
      if not c["background"]:
        self.pen = ("black", False, c["underline"])
    elif cls == "special":
      rec["row"] = self.row
      self._put((c["char"],))
    elif cls == "extended":
      rec["row"] = self.row
      self._backspace()
      self._put(tuple(c["chars"]))
    rec["mode"] = self.mode
    if rec["row"] is not None:
      rec["mem"] = "disp" if self._target() is self.disp else "nond"
    self._after(w)
    return rec

  def _after(self, w):
    if self.dirty:
      self.dirty = False
      snap = tuple(BLANK_ROW if all(c is None for c in r) else tuple(r) for r in self.disp)
      if snap != self._last_screen:
        self._last_screen = snap
        self.events.append((w + 1, snap))
        self._event_frames.append(w + 1)

  def _control(self, name):
    if name == "RCL":
      self.mode = "pop"
    elif name == "RDC":
      self.mode = "paint"
    elif name in ("RU2", "RU3", "RU4"):
      depth = int(name[2])
      if self.mode != "roll":
        self._erase(self.disp)
        self._erase(self.nond)
        self.nond_was_displayed = False
        self.base = 15
        self.row, self.col = 15, 0
        self.pen = ("white", False, False)
      elif depth < self.depth:
        for r in range(1, self.base - depth + 1):
          if any(c is not None for c in self.disp[r - 1]):
            self.disp[r - 1] = list(BLANK_ROW)
            self.dirty = True
      self.mode = "roll"
      self.depth = depth
    elif name in ("TR", "RTD"):
      self.mode = "text"
    elif name == "EDM":
      self._erase(self.disp)
    elif name == "ENM":
      self._erase(self.nond)
      self.nond_was_displayed = False
    elif name == "EOC":
      # memory swap: what was displayed becomes the non-displayed memory (it is NOT erased)
      self.eoc_carry = self.nond_was_displayed and any(c is not None for r in self.nond for c in r)
      self.disp, self.nond = self.nond, self.disp
      self.nond_was_displayed = any(c is not None for r in self.nond for c in r)
      self.dirty = True
      self.mode = "pop"
    elif self.mode == "text":
      return
    elif name == "CR":
      if self.mode == "roll":
        top = max(1, self.base - self.depth + 1)
        for r in range(top, self.base):
          self.disp[r - 1] = self.disp[r]
        self.disp[self.base - 1] = list(BLANK_ROW)
        self.dirty = True
        self.row, self.col = self.base, 0
        self._stuck = None
        self.pen = ("white", False, False)
    elif name == "BS":
      self._backspace()
    elif name == "DER":
      mem = self._target()
      if mem is not None:
        for cidx in range(self.col, COLS):
          if mem[self.row - 1][cidx] is not None:
            mem[self.row - 1][cidx] = None
            self._touch(mem)
    elif name in ("TO1", "TO2", "TO3"):
      self.col = min(COLS - 1, self.col + int(name[2]))
    # AOF, AON, FON: no effect on the glyphs

  def _pac(self, c):
    if self.mode is None:
      return
    r = c["row"]
    if self.mode == "roll":
      if r != self.base:
        # the window moves with its content to the new base row
        top_old = max(1, self.base - self.depth + 1)
        content = [self.disp[x - 1] for x in range(top_old, self.base + 1)]
        for x in range(top_old, self.base + 1):
          self.disp[x - 1] = list(BLANK_ROW)
        for k, rowcells in enumerate(reversed(content)):
          dst = r - k
          if dst >= 1:
            self.disp[dst - 1] = rowcells
        if any(any(cell is not None for cell in rc) for rc in content):
          self.dirty = True
        self.base = r
      self.row = r
    else:
      self.row = r
    self.col = c["indent"]
    self._stuck = None
    self.pen = (c["color"], c["italic"], c["underline"])

  # ---- queries -----------------------------------------------------------------------------------------------
  def screen_at(self, frame):
    """Displayed memory at `frame` (effects of all words with w + 1 <= frame)."""
    i = bisect.bisect_right(self._event_frames, frame) - 1
    return self.events[i][1]

  def screen_after_word(self, w):
    """Displayed memory once every word transmitted in a frame <= w has acted."""
    return self.screen_at(w + 1)


def decode(lines, strict_dup=True):
  """lines: output of parse_scc. -> Decoder with .words and .events filled."""
  d = Decoder(strict_dup)
  for li, line in enumerate(lines):
    for i, v in enumerate(line["words"]):
      d.feed(line["T"] + i, v, li, i)
  return d
