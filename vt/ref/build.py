"""AbsDoc <-> JSON and AbsDoc -> live ttconv ContentDocument (through the public model API only)."""
from __future__ import annotations

import dataclasses
import enum
import json
from fractions import Fraction

from vt.ref.absdoc import AbsDoc, AbsEl


# ---------------------------------------------------------------------------------------------------------
# JSON codec (replay files carry the document itself)
# ---------------------------------------------------------------------------------------------------------
def enc(v):
  if isinstance(v, Fraction):
    return {"$f": f"{v.numerator}/{v.denominator}"}
  if isinstance(v, tuple):
    return {"$t": [enc(x) for x in v]}
  if isinstance(v, list):
    return [enc(x) for x in v]
  if isinstance(v, dict):
    return {"$d": [[enc(k), enc(x)] for k, x in v.items()]}
  if isinstance(v, AbsEl):
    return {"$el": {f.name: enc(getattr(v, f.name)) for f in dataclasses.fields(v)}}
  if isinstance(v, AbsDoc):
    return {"$doc": {f.name: enc(getattr(v, f.name)) for f in dataclasses.fields(v)}}
  if isinstance(v, float) and v != v:
    return {"$nan": 1}
  return v


def dec(v):
  if isinstance(v, list):
    return [dec(x) for x in v]
  if isinstance(v, dict):
    if "$f" in v:
      return Fraction(v["$f"])
    if "$t" in v:
      return tuple(dec(x) for x in v["$t"])
    if "$d" in v:
      return {dec(k): dec(x) for k, x in v["$d"]}
    if "$el" in v:
      return AbsEl(**{k: dec(x) for k, x in v["$el"].items()})
    if "$doc" in v:
      return AbsDoc(**{k: dec(x) for k, x in v["$doc"].items()})
    if "$nan" in v:
      return float("nan")
  return v


def dumps(adoc: AbsDoc) -> str:
  return json.dumps(enc(adoc))


def loads(s: str) -> AbsDoc:
  return dec(json.loads(s))


# ---------------------------------------------------------------------------------------------------------
# plain value -> ttconv value
# ---------------------------------------------------------------------------------------------------------
_REG = None


def _registry():
  global _REG  # pylint: disable=global-statement
  if _REG is None:
    import ttconv.style_properties as sp  # pylint: disable=import-outside-toplevel
    reg = {}

    def visit(ns):
      for name, obj in vars(ns).items():
        if isinstance(obj, type) and obj.__module__ == sp.__name__ and not name.startswith("_"):
          if issubclass(obj, enum.Enum) or dataclasses.is_dataclass(obj):
            reg.setdefault(obj.__name__ if obj.__qualname__ == obj.__name__ else obj.__qualname__, obj)
            reg.setdefault(obj.__name__, obj)
            visit(obj)
    visit(sp)
    _REG = reg
  return _REG


# nested enums that share a short name: resolved by the enclosing dataclass
_NESTED = {("TextEmphasisType", "Style"): "TextEmphasisType.Style", ("TextEmphasisType", "Position"): "TextEmphasisType.Position",
           ("RubyReserveType", "Position"): "RubyReserveType.Position", ("PositionType", "HEdge"): "PositionType.HEdge",
           ("PositionType", "VEdge"): "PositionType.VEdge", ("LengthType", "Units"): "LengthType.Units"}


def unplain(p, owner=None):
  import ttconv.style_properties as sp  # pylint: disable=import-outside-toplevel
  if not isinstance(p, tuple):
    return p
  tag = p[0]
  reg = _registry()
  if tag == "L":
    return sp.LengthType(p[1], sp.LengthType.Units[p[2]])
  if tag == "C":
    return sp.ColorType(tuple(p[1]))
  if tag == "E":
    key = _NESTED.get((owner, p[1]), p[1])
    return reg[key][p[2]]
  if tag == "D":
    cls = reg["TextShadowType.Shadow"] if p[1] == "Shadow" else reg[p[1]]
    return cls(**{k: unplain(v, p[1]) for k, v in p[2]})
  if tag == "T":
    return tuple(unplain(x, owner) for x in p[1])
  raise ValueError(f"cannot rebuild {p!r}")


def prop_by_name(name):
  import ttconv.style_properties as sp  # pylint: disable=import-outside-toplevel
  return getattr(sp.StyleProperties, name)


# ---------------------------------------------------------------------------------------------------------
# AbsDoc -> ContentDocument
# ---------------------------------------------------------------------------------------------------------
def build_doc(adoc: AbsDoc):
  import ttconv.model as model  # pylint: disable=import-outside-toplevel
  doc = model.ContentDocument()
  doc.set_lang(adoc.lang)
  doc.set_cell_resolution(model.CellResolutionType(rows=adoc.cell[0], columns=adoc.cell[1]))
  doc.set_px_resolution(model.PixelResolutionType(width=adoc.px[0], height=adoc.px[1]))
  if adoc.active_area is not None:
    doc.set_active_area(model.ActiveAreaType(*adoc.active_area))
  if adoc.dar is not None:
    doc.set_display_aspect_ratio(adoc.dar)
  for name, v in adoc.initials.items():
    doc.put_initial_value(prop_by_name(name), unplain(v))
  for r in adoc.regions:
    region = model.Region(r.id, doc)
    _fill(model, doc, region, r)
    doc.put_region(region)
  if adoc.body is not None:
    doc.set_body(_build(model, doc, adoc.body))
  return doc


def _fill(model, doc, e, a: AbsEl):
  if a.kind != "Text":
    if a.space == "preserve":
      e.set_space(model.WhiteSpaceHandling.PRESERVE)
    if a.lang:
      e.set_lang(a.lang)
  if a.kind not in ("Text", "Br"):
    if a.begin is not None:
      e.set_begin(a.begin)
    if a.end is not None:
      e.set_end(a.end)
  if a.kind != "Text":
    for name, v in a.styles.items():
      e.set_style(prop_by_name(name), unplain(v))
    for name, b, en, v in a.anims:
      e.add_animation_step(model.DiscreteAnimationStep(prop_by_name(name), b, en, unplain(v)))
  if a.kind not in ("Text", "Br", "Region") and a.region_id is not None:
    e.set_region(doc.get_region(a.region_id))


def _build(model, doc, a: AbsEl):
  if a.kind == "Text":
    e = model.Text(doc, a.text)
  else:
    e = getattr(model, a.kind)(doc)
    if a.id is not None:
      e.set_id(a.id)
  _fill(model, doc, e, a)
  kids = [_build(model, doc, c) for c in a.children]
  if kids:
    e.push_children(kids)
  return e
