"""Strict reference parser of the SubRip (.srt) de-facto cue grammar, written from the format description
(https://en.wikipedia.org/wiki/SubRip#File_format, as referenced by ttconv's README), NOT from ttconv's reader.

Used (a) to cross-check the generator's AST against the generated text (two independent routes to the oracle) and
(b) to obtain "the cues that were written" from the SRT writer's output for the round-trip clause of C10.

Grammar accepted (anything else raises Abstain - the de-facto grammar is ambiguous there):

  file     := blank* ( cue blank+ )* [ cue ]            lines separated by "\\n" (newlines already translated)
  cue      := counter "\\n" timing "\\n" textline ( "\\n" textline )*
  counter  := [0-9]+
  timing   := HH[H]:MM:SS,mmm " --> " HH[H]:MM:SS,mmm
  textline := at least one non-white-space character; markup properly nested over the whole cue payload:
              <b> <i> <u> </b> </i> </u>   {b} {i} {u} {/b} {/i} {/u}
              <font color="#rrggbb[aa]"> | <font color="name"> (quotes ", ' or none)   </font>

AST: a list of cues  {"n": counter string, "b": begin ms, "e": end ms, "hd": [digits of begin hours, digits of end hours],
                      "lines": [ [ [text, bold, italic, underline, color], ... ], ... ], "src": payload source text}
where each line is a list of maximal runs of equal attributes and color is [r, g, b, a] or None (no font tag applies).
"""
import html
import re

# HTML 4.01 section 6.5 - the sixteen colour names ("color name or #code, as in HTML")
HTML_COLORS = {
  "black": (0, 0, 0), "silver": (192, 192, 192), "gray": (128, 128, 128), "white": (255, 255, 255),
  "maroon": (128, 0, 0), "red": (255, 0, 0), "purple": (128, 0, 128), "fuchsia": (255, 0, 255),
  "green": (0, 128, 0), "lime": (0, 255, 0), "olive": (128, 128, 0), "yellow": (255, 255, 0),
  "navy": (0, 0, 128), "blue": (0, 0, 255), "teal": (0, 128, 128), "aqua": (0, 255, 255),
  # the two further names of TTML2 <named-color> (synonyms of aqua and fuchsia)
  "cyan": (0, 255, 255), "magenta": (255, 0, 255),
}

MAX_MS = ((999 * 60 + 59) * 60 + 59) * 1000 + 999


class Abstain(Exception):
  """The text is outside the part of the grammar on which the oracle has an opinion."""


_COUNTER = re.compile(r"[0-9]+")
_TIMING = re.compile(r"([0-9]{2,3}):([0-9]{2}):([0-9]{2}),([0-9]{3}) --> ([0-9]{2,3}):([0-9]{2}):([0-9]{2}),([0-9]{3})")
_TOKEN = re.compile(
  r"<(?P<ac>/?)(?P<an>[biu])>"
  r"|\{(?P<bc>/?)(?P<bn>[biu])\}"
  r"|<font color=(?:\"(?P<q2>[^\"<>]*)\"|'(?P<q1>[^'<>]*)'|(?P<q0>[^\s\"'<>=`]+))>"
  r"|(?P<fc></font>)"
  r"|(?P<bad>[<>{}&])"
)
_HEX = re.compile(r"#([0-9a-fA-F]{2})([0-9a-fA-F]{2})([0-9a-fA-F]{2})([0-9a-fA-F]{2})?")


def parse_color(value: str):
  m = _HEX.fullmatch(value)
  if m:
    return [int(m.group(1), 16), int(m.group(2), 16), int(m.group(3), 16), int(m.group(4), 16) if m.group(4) else 255]
  rgb = HTML_COLORS.get(value.lower())
  if rgb is None:
    raise Abstain(f"colour {value!r} is neither #rrggbb[aa] nor one of the 16 HTML 4 names / cyan / magenta")
  return [rgb[0], rgb[1], rgb[2], 255]


def ms_of(h, m, s, ms):
  h, m, s, ms = int(h), int(m), int(s), int(ms)
  if m > 59 or s > 59:
    raise Abstain("minutes or seconds field above 59")
  return ((h * 60 + m) * 60 + s) * 1000 + ms


def merge_runs(chars):
  """chars: list of (character, (bold, italic, underline, color-tuple-or-None)) -> list of maximal runs."""
  runs = []
  for ch, a in chars:
    if runs and runs[-1][1] == a:
      runs[-1][0].append(ch)
    else:
      runs.append([[ch], a])
  return [["".join(t), a[0], a[1], a[2], (list(a[3]) if a[3] is not None else None)] for t, a in runs]


def parse_payload(payload: str):
  """payload: the text lines of one cue joined by "\\n" -> list of lines (each a list of runs)."""
  lines = [[]]
  stack = []  # (kind, syntax, color)
  pos = 0

  def attrs():
    color = None
    for k, _s, c in stack:
      if k == "font":
        color = tuple(c)
    return (any(k == "b" for k, _, _ in stack), any(k == "i" for k, _, _ in stack), any(k == "u" for k, _, _ in stack), color)

  def text(s):
    a = attrs()
    for ch in s:
      if ch == "\n":
        lines.append([])
      else:
        lines[-1].append((ch, a))

  for m in _TOKEN.finditer(payload):
    text(payload[pos:m.start()])
    pos = m.end()
    if m.group("bad") == "&":
      # an ampersand that cannot be read as (the start of) a character reference is plain text: Q&A, AT&T, "k &"
      ref = re.match(r"&#?[A-Za-z0-9]*;?", payload[m.start():]).group(0)
      if "#" in ref or html.unescape(ref) != ref:
        raise Abstain(f"character reference {ref!r} in cue text")
      text("&")
      continue
    if m.group("bad"):
      raise Abstain(f"stray {m.group('bad')!r} in cue text")
    if m.group("an") or m.group("bn"):
      kind = m.group("an") or m.group("bn")
      syntax = "angle" if m.group("an") else "brace"
      closing = (m.group("ac") if m.group("an") else m.group("bc")) == "/"
      if not closing:
        stack.append((kind, syntax, None))
      else:
        if not stack or stack[-1][0] != kind or stack[-1][1] != syntax:
          raise Abstain("unbalanced or mis-nested tags")
        stack.pop()
    elif m.group("fc"):
      if not stack or stack[-1][0] != "font":
        raise Abstain("unbalanced or mis-nested tags")
      stack.pop()
    else:
      value = m.group("q2") if m.group("q2") is not None else (m.group("q1") if m.group("q1") is not None else m.group("q0"))
      stack.append(("font", "angle", parse_color(value)))
  text(payload[pos:])
  if stack:
    raise Abstain("unclosed tag")
  return [merge_runs(line) for line in lines]


def parse(text: str):
  """text with "\\n" line ends -> list of cues; raises Abstain outside the accepted grammar."""
  if "\r" in text:
    raise Abstain("carriage return left in translated text")
  rows = text.split("\n")
  i, n = 0, len(rows)
  cues = []
  while True:
    while i < n and rows[i] == "":
      i += 1
    if i >= n:
      break
    if not _COUNTER.fullmatch(rows[i]):
      raise Abstain(f"line {i + 1}: not a counter")
    counter = rows[i]
    i += 1
    if i >= n:
      raise Abstain("file ends after a counter")
    m = _TIMING.fullmatch(rows[i])
    if not m:
      raise Abstain(f"line {i + 1}: not a timing line")
    i += 1
    payload = []
    while i < n and rows[i] != "":
      if rows[i].strip() == "":
        raise Abstain("white-space-only line inside a cue")
      payload.append(rows[i])
      i += 1
    if not payload:
      raise Abstain("cue without text")
    lines = parse_payload("\n".join(payload))
    for line in lines:
      if "".join(r[0] for r in line).strip() == "":
        raise Abstain("text line without visible characters")
    cues.append({"n": counter, "b": ms_of(*m.group(1, 2, 3, 4)), "e": ms_of(*m.group(5, 6, 7, 8)),
                 "hd": [len(m.group(1)), len(m.group(5))], "lines": lines, "src": "\n".join(payload)})
  return cues


def line_text(line):
  return "".join(r[0] for r in line)


def expand(line):
  """runs -> per-character list of (char, bold, italic, underline, color tuple or None)"""
  out = []
  for t, b, i, u, c in line:
    c = tuple(c) if c is not None else None
    for ch in t:
      out.append((ch, bool(b), bool(i), bool(u), c))
  return out
