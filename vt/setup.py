"""Offline setup: install icontract + jsonschema (and deps) from the local wheelhouse into
/verif/.deps (git-ignored).  Idempotent; also called lazily by vt.core.ensure_deps()."""
import os
import subprocess
import sys

HERE = os.path.dirname(os.path.dirname(os.path.abspath(__file__)))
DEPS = os.path.join(HERE, ".deps")
WHEELS = "/opt/veriftools/wheels"
PKGS = ["icontract", "jsonschema"]


def have_deps() -> bool:
  return os.path.isdir(os.path.join(DEPS, "icontract")) and os.path.isdir(os.path.join(DEPS, "jsonschema"))


def install() -> int:
  if have_deps():
    return 0
  os.makedirs(DEPS, exist_ok=True)
  cmd = [sys.executable, "-m", "pip", "install", "--quiet", "--no-index", "--find-links", WHEELS,
         "--target", DEPS, "--upgrade"] + PKGS
  env = dict(os.environ)
  env["PIP_NO_INDEX"] = "1"
  env["PIP_DISABLE_PIP_VERSION_CHECK"] = "1"
  r = subprocess.run(cmd, env=env, stdout=subprocess.PIPE, stderr=subprocess.STDOUT, text=True, check=False)
  if r.returncode != 0:
    sys.stdout.write(r.stdout)
  return r.returncode


if __name__ == "__main__":
  rc = install()
  print("vt.setup:", "ok" if rc == 0 else "FAILED", DEPS)
  sys.exit(rc)
