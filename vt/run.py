"""Entry point: python -m vt.run C07 --tier quick|thorough [--replay path]
Exit 0 held / 1 violation (VIOLATION line) / 2 inconclusive. VERIF_SEED and VERIF_TIER are honoured."""
import argparse
import os
import sys

from vt import core


def main():
  ap = argparse.ArgumentParser()
  ap.add_argument("prop")
  ap.add_argument("--tier", default=None, choices=["quick", "thorough"])
  ap.add_argument("--seed", type=int, default=None)
  ap.add_argument("--replay", default=None)
  a = ap.parse_args()
  prop = a.prop.upper()
  if a.replay:
    return core.run_replay(prop, a.replay)
  tier = a.tier or os.environ.get("VERIF_TIER") or "quick"
  if tier not in ("quick", "thorough"):
    tier = "quick"
  try:
    seed = a.seed if a.seed is not None else int(os.environ.get("VERIF_SEED", "0"))
  except ValueError:
    seed = 0
  return core.run_check(prop, tier, seed)


if __name__ == "__main__":
  sys.exit(main())
