"""C15 - the canonical model stays a well-formed tree under any sequence of API calls.

Driver: a small universe of REAL ttconv objects (2 documents, regions sharing an id across and inside documents, one or
two elements of every kind, some detached) is driven through histories of API calls with valid and invalid arguments.
After EVERY call (accepted or rejected) the invariant walker vt/mon/wf.py inspects the whole universe through public
getters; a rejected single-element call must leave the public-state fingerprint unchanged; an accepted call in the
documented plain case must produce the post-state predicted by the abstract model vt/ref/model.py.

Exhaustive part: breadth-first enumeration of all histories to depth 2 (quick) / 3 (thorough) over the reduced universe;
random part: seeded walks of 40 calls over the full universe."""
from fractions import Fraction
import resource
import signal

from vt.mon import wf
from vt.ref import model as M

ID = "C15"
RULE = ("exhaustive: every history of API calls of length <= depth (quick 2, thorough 3) over the reduced universe and its "
        "operation alphabet, breadth first; a history is extended only while no violation was reported on it, its last call "
        "changed the public state, and the state it reaches was not already expanded at the same or a shallower depth in "
        "this shard (such extensions repeat (state, call) pairs already evaluated). random: seeded walks of 40 calls over "
        "the full universe (60% state-guided plausible calls, 40% blind); when a call is reported as a violation "
        "the history ends there and the rest of the walk's 40 calls continue as a new history on a fresh universe. One evaluation = one call followed by the walker over the whole universe, "
        "the unchanged-fingerprint check (rejected single-element calls) or the post-state prediction (accepted plain "
        "calls). Non-trivial: a history in which at least one call was accepted and changed tree structure, document "
        "membership, region references or registries; distinct = distinct operation sequences (exhaustive histories are "
        "distinct by construction, random walks are counted by the hash of their operation list and only when longer "
        "than the exhaustive depth)")
ASSUMPTIONS = [
  "oracle: invariant walker vt/mon/wf.py over public getters + abstract model vt/ref/model.py written from TTML2 8.1/10.2.35, "
  "doc/data_model.md and the API docstrings; accept/reject decisions are never dictated, only their consequences are judged",
  "ruby / rtc child sequences are refused only when BOTH TTML2's strict patterns and the looser grammar published in "
  "doc/data_model.md (Rb? Rt? | Rb? Rp Rt? Rp | Rbc Rtc Rtc? ; Rt* | Rp Rt* Rp) refuse them; proper prefixes 'Rp Rt*' of an "
  "rtc are tolerated because Rtc.push_child builds the container child by child (counted as note:loose-only-sequence)",
  "multi-element calls (push_children, remove_children, remove_region, copy_to, set_doc on an element with children) that "
  "raise midway are not required to be atomic; only the walker invariants are demanded afterwards",
  "a Region's own get_doc() versus the document(s) in whose registry it sits is not judged (Region.set_doc after put_region)",
  "what copy_to copies onto the destination (merge or replace of styles / animation steps) is not judged, only that nothing "
  "else in the universe changes and stored values stay valid",
  "value validity: reference table in vt/ref/model.py (type of the value, each font-family item, root-container units for "
  "Extent/Origin/Position); component ranges of colours and numeric ranges are not judged, nor whether a Python bool counts as a number; the members of text-shadow lists, the components of padding and the edges of a position are judged (validity matrix)",
  "hidden (non-public) state is out of scope: pruning of the exhaustive search and the unchanged check use the public fingerprint",
  "a call that burns more than 0.5 s of CPU is interrupted by a watchdog and reported as call-does-not-return (no state is "
  "reached, so the well-formedness clauses have nothing to judge); such a history is not extended",
  "universes: reduced = 2 documents, regions RA(r1,D1,registered) RA2(r1,D1,unregistered) RB(r1,D2,registered), 18 content "
  "elements covering all 12 kinds (a body>div>p tree with a region reference, span>span, a detached span>text, loose "
  "br/text/p and ruby parts); full = reduced + region RC(r2,D1) and a second element of every remaining kind (25 content elements, 4 regions; "
  "the fourth region exists so that put_region can replace a registered region by another object with the same id)",
]
OPS = ["push_child", "push_children", "remove", "remove_child", "remove_children", "set_doc", "set_region", "put_region",
       "remove_region", "set_body", "set_style", "add_animation_step", "put_initial_value", "copy_to"]
NEVER_REJECTS = {"remove_children", "remove_region"}   # no argument of our pools makes these raise on a well-formed model
REQUIRED = (["op:%s:accepted" % o for o in OPS] + ["op:%s:rejected" % o for o in OPS if o not in NEVER_REJECTS] + [
  "mon:walker", "mon:rejected-unchanged", "mon:post-state", "ex:histories", "rw:walks",
  "flavor:push_child[ancestor]", "flavor:push_child[plain]", "flavor:push_child[kind]", "flavor:push_child[has-parent]",
  "flavor:push_child[doc-mismatch]", "matrix:set_style", "matrix:put_initial_value", "matrix:add_animation_step", "matrix:accepted", "flavor:push_children[Ruby:plain]", "flavor:push_children[Rtc:plain]",
  "flavor:push_children[Rtc:sequence]", "flavor:push_children[Ruby:irregular]",
  "flavor:set_region[registered]", "flavor:set_region[same-id-foreign-doc]", "flavor:set_region[no-doc]",
  "flavor:put_region[replace-referenced-in-body]", "flavor:put_region[replace-referenced-off-body]", "flavor:put_region[new]", "flavor:remove_region[referenced-in-body]", "flavor:remove_region[referenced-off-body]",
  "flavor:set_doc[detach]", "flavor:set_doc[attach]", "flavor:set_doc[detach-subtree]", "flavor:set_doc[attach-subtree]",
  "flavor:set_style[invalid-value]", "flavor:set_style[valid]", "flavor:add_animation_step[valid]",
  "flavor:put_initial_value[invalid-value]", "cls:fontfamily-bad-item", "cls:ruby-complete", "cls:rtc-delimited",
])
SHARD_TIMEOUT = {"quick": 600, "thorough": 5400}

WALK_LEN = 40
N_SHARDS = 16
# known finding: after an accepted remove_region / replacing put_region the ONLY broken invariant is region-ref and EVERY
# element left with the stale reference is outside the body tree of its document (its root is not the document's body)
KNOWN_OFF_BODY = "D-REGION-REF-OFF-BODY"
CALL_CPU_BUDGET = 0.5          # seconds of CPU one model API call may burn before the watchdog interrupts it
ADDRESS_SPACE_LIMIT = 6 << 30  # a runaway call must not take the machine down


class CallTimeout(Exception):
  """Raised by the watchdog inside a ttconv call that does not return."""


def _on_alarm(_sig, _frame):
  raise CallTimeout(f"no return after {CALL_CPU_BUDGET} s of CPU")


def install_watchdog():
  signal.signal(signal.SIGVTALRM, _on_alarm)
  try:
    soft, hard = resource.getrlimit(resource.RLIMIT_AS)
    if soft == resource.RLIM_INFINITY or soft > ADDRESS_SPACE_LIMIT:
      resource.setrlimit(resource.RLIMIT_AS, (ADDRESS_SPACE_LIMIT, hard))
  except (ValueError, OSError):
    pass


# ------------------------------------------------------------------------------------------------------------------
# pools of argument values (named, so that operations stay symbolic and JSON-able)
# ------------------------------------------------------------------------------------------------------------------

_POOLS = None


def pools():
  global _POOLS  # pylint: disable=global-statement
  if _POOLS is None:
    import ttconv.style_properties as sp  # pylint: disable=import-outside-toplevel
    L, U = sp.LengthType, sp.LengthType.Units
    values = {
      "None": None,
      "red": sp.ColorType((255, 0, 0, 255)),
      "str_red": "red",
      "int1": 1,
      "half": 0.5,
      "str_half": "0.5",
      "true": True,
      "ff_ok": ("Arial", sp.GenericFontFamilyType.serif),
      "ff_bad": (1, 2),
      "ff_mixed": ("Arial", 3),
      "ff_enum": ("Arial", sp.FontStyleType.italic),            # a member of another enumeration is not a generic family
      "ff_special": (sp.SpecialValues.normal,),
      "ff_none_item": ("Arial", None),
      "ff_empty": (),
      "ff_str": "Arial",
      "ff_list": ["Arial"],
      "normal": sp.SpecialValues.normal,
      "none": sp.SpecialValues.none,
      "len_c": L(1, U.c),
      "len_em": L(2, U.em),
      "ext_ok": sp.ExtentType(height=L(10, U.pct), width=L(20, U.pct)),
      "ext_em": sp.ExtentType(height=L(1, U.em), width=L(1, U.em)),
      "ext_raw": sp.ExtentType(height=1, width=2),
      "display_none": sp.DisplayType.none,
      "italic": sp.FontStyleType.italic,
      "outline": sp.TextOutlineType(L(1, U.px), None),
    }
    steps = {
      "st_color": ("Color", Fraction(0), Fraction(1), "red"),
      "st_display": ("Display", None, Fraction(1, 2), "display_none"),
      "st_ff_ok": ("FontFamily", None, None, "ff_ok"),
      "st_ff_bad": ("FontFamily", None, None, "ff_bad"),
      "st_ff_enum": ("FontFamily", None, None, "ff_enum"),
      "st_color_bad": ("Color", None, None, "str_red"),
      "st_none_value": ("Color", None, None, "None"),
      "st_notaprop": ("NotAProp", None, None, "red"),
      "raw_tuple": ("raw", None, None, "None"),
    }
    props = {n: getattr(sp.StyleProperties, n) for n in M.PROPERTY_NAMES}
    props["NotAProp"] = sp.StyleProperty     # the abstract base class is not a style property
    props["StrProp"] = "Color"               # neither is a string
    _POOLS = {"values": values, "steps": steps, "props": props}
  return _POOLS


COMBOS_EX = [("Color", "red"), ("Color", "None"), ("Color", "str_red"), ("FontFamily", "ff_ok"), ("FontFamily", "ff_bad"), ("FontFamily", "ff_enum"),
             ("FontFamily", "ff_str"), ("LineHeight", "normal"), ("LineHeight", "none"), ("Extent", "ext_em"),
             ("FillLineGap", "int1"), ("NotAProp", "red"), ("Display", "display_none")]
COMBOS_RW = COMBOS_EX + [
  ("Color", "int1"), ("FontFamily", "ff_mixed"), ("FontFamily", "ff_list"), ("FontFamily", "None"), ("FontFamily", "ff_enum"),
  ("FontFamily", "ff_special"), ("FontFamily", "ff_none_item"), ("FontFamily", "ff_empty"), ("LineHeight", "len_c"),
  ("Extent", "ext_ok"), ("Extent", "len_c"), ("Extent", "ext_raw"), ("Opacity", "half"), ("Opacity", "str_half"),
  ("FillLineGap", "true"), ("Display", "normal"), ("TextOutline", "none"), ("TextOutline", "normal"), ("TextOutline", "outline"),
  ("Origin", "ext_ok"), ("FontSize", "len_em"), ("FontStyle", "italic"), ("StrProp", "red"), ("RubyReserve", "none"),
  ("TextEmphasis", "none"), ("TextEmphasis", "normal"), ("BackgroundColor", "red"), ("LinePadding", "len_c"),
]
STEPS_EX = ["st_color", "st_ff_bad", "st_color_bad", "raw_tuple"]
STEPS_RW = ["st_color", "st_display", "st_ff_ok", "st_ff_bad", "st_ff_enum", "st_color_bad", "st_none_value", "st_notaprop", "raw_tuple"]


# ------------------------------------------------------------------------------------------------------------------
# universe
# ------------------------------------------------------------------------------------------------------------------

class Universe:
  __slots__ = ("which", "obj", "names", "elements", "docs", "el_names", "doc_names", "kind", "name_of")

  def __init__(self, which):
    self.which = which
    self.obj = {}
    self.names = {}
    self.elements = []
    self.docs = []
    self.el_names = []
    self.doc_names = []
    self.kind = {}
    names = self.names

    def name_of(o):
      if o is None:
        return None
      n = names.get(id(o))
      return n if n is not None else "?" + type(o).__name__
    self.name_of = name_of

  def add(self, name, o):
    self.obj[name] = o
    self.names[id(o)] = name
    self.elements.append(o)
    self.el_names.append(name)
    self.kind[name] = wf.kind_of(o)
    return o

  def add_doc(self, name, d):
    self.obj[name] = d
    self.names[id(d)] = name
    self.docs.append(d)
    self.doc_names.append(name)
    return d

  def o(self, name):
    return None if name is None else self.obj[name]

  def snapshot(self):
    return wf.snapshot(self.elements, self.docs, self.name_of)

  def check(self):
    return wf.check(self.elements, self.docs, self.name_of)


def build(which):
  """Builds a fresh universe with plain constructors and a fixed, valid prelude. `which` is 'reduced' or 'full'."""
  import ttconv.model as m  # pylint: disable=import-outside-toplevel
  P = pools()
  u = Universe(which)
  d1 = u.add_doc("D1", m.ContentDocument())
  d2 = u.add_doc("D2", m.ContentDocument())
  ra = u.add("RA", m.Region("r1", d1))
  u.add("RA2", m.Region("r1", d1))            # same id, same document, not registered: replacement candidate
  rb = u.add("RB", m.Region("r1", d2))        # same id, other document
  d1.put_region(ra)
  d2.put_region(rb)
  body1 = u.add("body1", m.Body(d1))
  d1.set_body(body1)
  div1 = u.add("div1", m.Div(d1))
  body1.push_child(div1)
  p1 = u.add("p1", m.P(d1))
  div1.push_child(p1)
  p1.set_region(ra)
  p1.set_id("p1")
  p1.set_style(P["props"]["Color"], P["values"]["red"])
  p1.add_animation_step(m.DiscreteAnimationStep(P["props"]["Display"], None, Fraction(1, 2), P["values"]["display_none"]))
  span1 = u.add("span1", m.Span(d1))
  span2 = u.add("span2", m.Span(d1))
  span1.push_child(span2)
  span2.set_id("r1")                          # an element that is not a region but carries a region's id
  u.add("text1", m.Text(d1, "x"))
  u.add("br1", m.Br(d1))
  u.add("p2", m.P(d2))
  span3 = u.add("span3", m.Span(None))
  text2 = u.add("text2", m.Text(None, "y"))
  span3.push_child(text2)
  u.add("ruby1", m.Ruby(d1))
  u.add("rb1", m.Rb(d1))
  u.add("rt1", m.Rt(d1))
  u.add("rt2", m.Rt(d1))
  u.add("rp1", m.Rp(d1))
  u.add("rp2", m.Rp(d1))
  u.add("rtc1", m.Rtc(d1))
  u.add("rbc1", m.Rbc(d1))
  if which == "full":
    rc = u.add("RC", m.Region("r2", d1))
    d1.put_region(rc)
    u.add("body2", m.Body(None))
    u.add("div2", m.Div(d2))
    u.add("br2", m.Br(None))
    u.add("ruby2", m.Ruby(d2))
    u.add("rb2", m.Rb(d2))
    u.add("rbc2", m.Rbc(None))
    u.add("rtc2", m.Rtc(d1))
  return u


RUBY_LISTS = [["rb1", "rt1"], ["rb1", "rp1", "rt1", "rp2"], ["rbc1", "rtc1"], ["rt1"], ["rt1", "rt2"], ["rp1", "rt1", "rp2"],
              ["rp1", "rt2", "rp2"], ["rb1"], ["rt1", "rb1"], ["rt1", "rp2"], ["p2", "rp2"], ["span1", "rp2"]]
GENERIC_LISTS = [[], ["span3", "br1"], ["text1"], ["p2"], ["span1"]]


def alphabet(u):
  """Operation alphabet of the exhaustive search over universe u (every op is a JSON-able list)."""
  K = u.kind
  regions = [n for n in u.el_names if K[n] == "Region"]
  content = [n for n in u.el_names if K[n] != "Region"]
  struct = content + ["RA"]
  ops = []
  for p in struct:
    for c in struct + [None]:
      ops.append(["push_child", p, c])
  for p in struct:
    for c in struct:
      ops.append(["remove_child", p, c])
  for x in struct:
    ops.append(["remove", x])
    ops.append(["remove_children", x])
  for p in struct:
    for cs in GENERIC_LISTS:
      ops.append(["push_children", p, cs])
    if K[p] in ("Ruby", "Rtc", "Rbc", "P"):
      for cs in RUBY_LISTS:
        ops.append(["push_children", p, cs])
  for x in u.el_names:
    for d in [None] + u.doc_names:
      ops.append(["set_doc", x, d])
  for x in u.el_names:
    for r in regions + [None, "span2"]:
      ops.append(["set_region", x, r])
  for d in u.doc_names:
    for r in regions + ["p1"]:
      ops.append(["put_region", d, r])
    for rid in ("r1", "zz"):
      ops.append(["remove_region", d, rid])
    for b in [None, "div1"] + [n for n in u.el_names if K[n] == "Body"]:
      ops.append(["set_body", d, b])
    for pn, vn in COMBOS_EX[:6]:
      ops.append(["put_initial_value", d, pn, vn])
  for x in ("p1", "text1", "RA2", "br1"):
    for pn, vn in COMBOS_EX:
      ops.append(["set_style", x, pn, vn])
    for st in STEPS_EX:
      ops.append(["add_animation_step", x, st])
  for a, b in [("p1", "p2"), ("p1", "text1"), ("text1", "span1"), ("p1", "br1"), ("br1", "p1"), ("RA", "RB"), ("RA", "p1"),
               ("p1", "RA"), ("span1", "span1"), ("p1", "span3"), ("br1", "br1"), ("RA2", "RA2"), ("text1", "text1")]:
    ops.append(["copy_to", a, b])
  ops.append(["doc_copy_to", "D1", "D2"])
  return ops


# ------------------------------------------------------------------------------------------------------------------
# executing one call on the real objects
# ------------------------------------------------------------------------------------------------------------------

def execute(u, op):
  """Performs the call; returns None if it returned normally, else 'ExcType: message'."""
  import ttconv.model as m  # pylint: disable=import-outside-toplevel
  name = op[0]
  o = u.o
  P = pools()
  try:
    signal.setitimer(signal.ITIMER_VIRTUAL, CALL_CPU_BUDGET)
    if name == "push_child":
      o(op[1]).push_child(o(op[2]))
    elif name == "push_children":
      o(op[1]).push_children([o(c) for c in op[2]])
    elif name == "remove":
      o(op[1]).remove()
    elif name == "remove_child":
      o(op[1]).remove_child(o(op[2]))
    elif name == "remove_children":
      o(op[1]).remove_children()
    elif name == "set_doc":
      o(op[1]).set_doc(o(op[2]))
    elif name == "set_region":
      o(op[1]).set_region(o(op[2]))
    elif name == "put_region":
      o(op[1]).put_region(o(op[2]))
    elif name == "remove_region":
      o(op[1]).remove_region(op[2])
    elif name == "set_body":
      o(op[1]).set_body(o(op[2]))
    elif name == "set_style":
      o(op[1]).set_style(P["props"][op[2]], P["values"][op[3]])
    elif name == "put_initial_value":
      o(op[1]).put_initial_value(P["props"][op[2]], P["values"][op[3]])
    elif name == "add_animation_step":
      pn, b, e, vn = P["steps"][op[2]]
      if pn == "raw":
        step = ("Color", 0, 1)
      else:
        step = m.DiscreteAnimationStep(P["props"][pn], b, e, P["values"][vn])   # construction is part of the call
      o(op[1]).add_animation_step(step)
    elif name in ("copy_to", "doc_copy_to"):
      o(op[1]).copy_to(o(op[2]))
    else:
      raise AssertionError("unknown op " + name)
  except AssertionError:
    raise
  except Exception as e:  # pylint: disable=broad-except
    return f"{type(e).__name__}: {e}"[:160]
  finally:
    signal.setitimer(signal.ITIMER_VIRTUAL, 0)
  return None


def fmt(op):
  name = op[0]
  if name == "doc_copy_to":
    name = "copy_to"
  args = ", ".join("[" + ", ".join(map(str, a)) + "]" if isinstance(a, list) else (repr(a) if name == "remove_region" else str(a))
                   for a in op[2:])
  return f"{op[1]}.{name}({args})"


# ------------------------------------------------------------------------------------------------------------------
# one monitored step
# ------------------------------------------------------------------------------------------------------------------

class NullCtx:
  """Swallows recording (used when several shards recompute the same first level)."""
  samples = ()

  def ev(self, n=1):
    pass

  def count(self, key, n=1):
    pass

  def nontriv(self, obj):
    pass

  def sample(self, obj):
    pass

  def violation(self, *a, **k):
    pass


class Result:
  __slots__ = ("post", "accepted", "err", "violated", "finding", "structural", "issue_keys", "changed", "struct_changed")


def step(ctx, u, op, pre, hist, known=frozenset()):
  """Executes `op` on universe u whose public state is `pre`; runs all monitors; records violations on ctx.
  hist: the operations executed on this universe so far, INCLUDING op. known: (inv, obj) issue keys already present."""
  P = pools()
  name = "copy_to" if op[0] == "doc_copy_to" else op[0]
  flavor = M.classify(pre, op, P)
  err = execute(u, op)
  accepted = err is None
  if err is not None and err.startswith("CallTimeout"):
    # the call never returned: the universe may now be arbitrarily large, it is not inspected any further
    ctx.ev()
    ctx.count(f"op:{name}:no-return")
    res = Result()
    res.post, res.accepted, res.err, res.issue_keys = pre, False, err, frozenset()
    res.changed = res.struct_changed = False
    res.violated = res.structural = True
    res.finding = False
    ctx.violation(f"call-does-not-return:{name}[{flavor}]",
                  f"universe '{u.which}', history: " + "; ".join(fmt(h) for h in hist) + f" -- the last call was interrupted by the "
                  f"watchdog ({err}); no model state is reached after this history",
                  {"universe": u.which, "ops": [list(h) for h in hist]})
    return res
  post = u.snapshot()
  issues = u.check()
  ctx.ev()
  ctx.count("mon:walker")
  ctx.count(f"op:{name}:{'accepted' if accepted else 'rejected'}")
  ctx.count(f"flavor:{name}[{flavor}]")
  res = Result()
  res.post, res.accepted, res.err = post, accepted, err
  res.issue_keys = frozenset((i[0], i[1]) for i in issues)
  res.changed = post != pre
  res.struct_changed = accepted and res.changed and M.structure_changed(pre, post)
  res.violated = False
  res.finding = False
  res.structural = any(i[0] in wf.STRUCTURAL for i in issues)
  tag = f"{name}[{flavor}]" + ("" if accepted else ":rejected")
  outcome = "accepted" if accepted else f"rejected ({err})"
  where = f"universe '{u.which}', history: " + "; ".join(fmt(h) for h in hist) + f" -- last call {outcome}"
  payload = None

  def report(mech, what, finding=None):
    nonlocal payload
    if payload is None:
      payload = {"universe": u.which, "ops": [list(h) for h in hist]}
    if finding is None:
      res.violated = True
    else:
      res.finding = True
    ctx.violation(mech, what, payload, finding)

  new, new_objs = {}, {}
  for inv, obj, detail in issues:
    if (inv, obj) not in known:
      new.setdefault(inv, []).append(f"{obj}: {detail}")
      new_objs.setdefault(inv, []).append(obj)
  finding_only = False
  for inv, items in new.items():
    mech, finding = f"{inv}:{tag}", None
    if inv == "region-ref" and accepted and (name == "remove_region" or (name == "put_region" and flavor.startswith("replace"))):
      # where the elements left with a stale reference sit: the document can only reach its body tree
      off = all(M.off_body(post, o) for o in new_objs[inv] if o in post["el"])
      mech = f"{inv}:{name}[stale-{'off' if off else 'in'}-body]"
      if off and len(new) == 1:
        finding = KNOWN_OFF_BODY
        finding_only = True
    report(mech, f"{inv} violated after {where}. " + " | ".join(items[:4]), finding)

  if not accepted and M.single_element(pre, op):
    ctx.count("mon:rejected-unchanged")
    if res.changed:
      report(f"rejected-changed:{name}[{flavor}]",
             f"rejected single-element call changed the public state: {where}. " + " | ".join(wf.diff(pre, post)))
  elif accepted and (not new or finding_only):
    pred = M.predict(pre, op, P, flavor)
    if pred is not None:
      ctx.count("mon:post-state")
      diffs = M.compare(pred[0], post, pred[1])
      if diffs:
        report(f"post-state:{name}[{flavor}]", f"accepted call did not have its documented effect (or changed something else): "
               f"{where}. " + " | ".join(diffs[:5]))

  # coverage classes observed on reached states
  if accepted and res.changed:
    if name in ("push_children", "push_child"):
      k = pre["el"][op[1]]["kind"]
      if k in ("Ruby", "Rtc"):
        kinds = [post["el"][c]["kind"] for c in post["el"][op[1]]["children"] if c in post["el"]]
        if k == "Ruby" and M.seq_strict(k, kinds) and kinds:
          ctx.count("cls:ruby-complete")
        if k == "Rtc" and kinds and kinds[0] == "Rp" and kinds[-1] == "Rp" and M.seq_strict(k, kinds):
          ctx.count("cls:rtc-delimited")
        if M.seq_ok(k, kinds) and not M.seq_strict(k, kinds):
          ctx.count("note:loose-only-sequence")
  if name in ("set_style", "put_initial_value") and op[2] == "FontFamily" and op[3] in ("ff_bad", "ff_mixed", "ff_enum", "ff_special", "ff_none_item"):
    ctx.count("cls:fontfamily-bad-item")
  return res


# ------------------------------------------------------------------------------------------------------------------
# exhaustive histories (breadth first)
# ------------------------------------------------------------------------------------------------------------------

def run_ex(ctx, p):
  which, depth, part, parts = p["universe"], p["depth"], p["part"], p["parts"]
  record_from = p.get("record_from", 1)     # levels below are recomputed silently (another shard records them)
  u0 = build(which)
  alpha = alphabet(u0)
  s0 = u0.snapshot()
  init = u0.check()
  if init:
    raise RuntimeError(f"initial universe '{which}' is not well formed: {init[:3]}")
  first = part == 0 and record_from == 1
  ctx.count("ex:alphabet", len(alpha) if first else 0)
  visited = {wf.freeze(s0)}
  frontier = [([], s0, False, frozenset())]
  null = NullCtx()
  for level in range(1, depth + 1):
    nxt = []
    rec = ctx if (level >= record_from and (level > 1 or part == 0)) else null
    for prefix, pre, nt, known in frontier:
      for op in alpha:
        u = build(which)
        for q in prefix:
          execute(u, q)
        hist = prefix + [op]
        res = step(rec, u, op, pre, hist, known)
        rec.count("ex:histories")
        rec.count(f"ex:histories:len{level}")
        nontriv = nt or res.struct_changed
        if nontriv and rec is ctx:
          ctx.distinct_extra += 1
        if rec is ctx and res.accepted and res.struct_changed and len(ctx.samples) < 2 and level == depth and not res.violated \
           and len({h[0] for h in hist}) == len(hist):
          ctx.sample({"universe": which, "history": [fmt(h) for h in hist], "last_call": "accepted", "walker_issues": 0})
        if res.violated or not res.changed or level == depth:
          continue
        key = wf.freeze(res.post)
        if key in visited:
          rec.count("ex:state-already-expanded")
          continue
        visited.add(key)
        if level > 1 or first:
          ctx.count(f"ex:states-to-expand:after-len{level}")
        if res.finding and (level > 1 or first):
          ctx.count("ex:extended-past-known-finding")
        nxt.append((hist, res.post, nontriv, res.issue_keys))
    if level == 1:
      ctx.count("ex:frontier-after-level1", len(nxt) if first else 0)
      nxt = nxt[part::parts]
    frontier = nxt


# ------------------------------------------------------------------------------------------------------------------
# random walks
# ------------------------------------------------------------------------------------------------------------------

CATS = [("push_child", 22), ("push_children", 10), ("remove", 5), ("remove_child", 6), ("remove_children", 3), ("set_doc", 10),
        ("set_region", 10), ("put_region", 5), ("remove_region", 4), ("set_body", 3), ("set_style", 8),
        ("add_animation_step", 4), ("put_initial_value", 3), ("copy_to", 5), ("doc_copy_to", 1)]
_CAT_NAMES = [c for c, _ in CATS]
_CAT_W = [w for _, w in CATS]
RUBY_TEMPLATES = {
  "Ruby": [["Rb", "Rt"], ["Rb", "Rp", "Rt", "Rp"], ["Rbc", "Rtc"], ["Rbc", "Rtc", "Rtc"], ["Rb"], ["Rt", "Rb"], ["Rb", "Rp"]],
  "Rtc": [["Rt"], ["Rt", "Rt"], ["Rp", "Rt", "Rp"], ["Rp", "Rt", "Rt", "Rp"], ["Rp", "Rt"], ["Rp"],
          # completions of a container that already holds a delimiter (the pattern is judged on old + new children together)
          ["Rt", "Rp"], ["Rp"], ["P", "Rp"], ["Span", "Rp"], ["Rt", "Span", "Rp"], ["Rp", "Rp"]],
  "Rbc": [["Rb"], ["Rb", "Rb"]],
}


def random_op(rng, u, s):
  """One random call; `s` (current public state) lets 60% of the calls be plausible ones."""
  el = s["el"]
  names = u.el_names
  K = u.kind
  cat = rng.choices(_CAT_NAMES, _CAT_W)[0]
  guided = rng.random() < 0.6
  pick = rng.choice

  def roots_for(p, kinds=None):
    return [n for n in names if n != p and el[n]["parent"] is None and el[n]["doc"] == el[p]["doc"]
            and (kinds is None or K[n] in kinds)]

  if cat == "push_child":
    p = pick(names)
    if guided:
      cands = roots_for(p, M.ALLOWED.get(K[p], ()))
      if cands:
        return [cat, p, pick(cands)]
      p = pick([n for n in names if K[n] in ("Div", "P", "Span", "Body", "Rb", "Rt", "Rtc", "Rbc")])
      cands = roots_for(p, M.ALLOWED.get(K[p], ()))
      if cands:
        return [cat, p, pick(cands)]
    return [cat, p, pick(names + [None]) if rng.random() < 0.97 else None]
  if cat == "push_children":
    if guided:
      p = pick([n for n in names if K[n] in ("Ruby", "Rtc", "Rbc", "P", "Span", "Div")])
      tmpl = RUBY_TEMPLATES.get(K[p])
      if tmpl is not None:
        kinds = pick(tmpl)
      else:
        allowed = sorted(M.ALLOWED[K[p]])
        kinds = [pick(allowed) for _ in range(rng.randrange(0, 4))]
      cs = []
      for k in kinds:
        cands = [n for n in roots_for(p, (k,)) if n not in cs] or [n for n in names if K[n] == k]
        if cands:
          cs.append(pick(cands))
      return [cat, p, cs]
    return [cat, pick(names), [pick(names) for _ in range(rng.randrange(0, 5))]]
  if cat == "remove":
    if guided:
      cands = [n for n in names if el[n]["parent"] is not None]
      if cands:
        return [cat, pick(cands)]
    return [cat, pick(names)]
  if cat == "remove_child":
    if guided:
      cands = [n for n in names if el[n]["parent"] is not None and el[n]["parent"] in el]
      if cands:
        c = pick(cands)
        return [cat, el[c]["parent"], c]
    return [cat, pick(names), pick(names)]
  if cat == "remove_children":
    if guided:
      cands = [n for n in names if el[n]["children"]]
      if cands:
        return [cat, pick(cands)]
    return [cat, pick(names)]
  if cat == "set_doc":
    if guided:
      cands = [n for n in names if el[n]["parent"] is None]
      x = pick(cands)
      return [cat, x, pick(u.doc_names) if el[x]["doc"] is None else None]
    return [cat, pick(names), pick(u.doc_names + [None])]
  regions = [n for n in names if K[n] == "Region"]
  if cat == "set_region":
    if guided:
      cands = [n for n in names if el[n]["doc"] is not None and K[n] not in ("Br", "Text", "Region")]
      if cands:
        x = pick(cands)
        regs = list(s["doc"][el[x]["doc"]]["regions"].values())
        if regs and rng.random() < 0.85:
          return [cat, x, pick(regs)]
        return [cat, x, None]
    return [cat, pick(names), pick(regions + regions + [None, "span2", pick(names)])]
  if cat == "put_region":
    if guided:
      r = pick(regions)
      if el[r]["doc"] is not None:
        return [cat, el[r]["doc"], r]
    return [cat, pick(u.doc_names), pick(regions + [pick(names)])]
  if cat == "remove_region":
    return [cat, pick(u.doc_names), pick(["r1", "r1", "r2", "zz"])]
  if cat == "set_body":
    bodies = [n for n in names if K[n] == "Body"]
    if guided:
      b = pick(bodies)
      if el[b]["doc"] is not None:
        return [cat, el[b]["doc"], b]
    return [cat, pick(u.doc_names), pick(bodies + [None, pick(names)])]
  if cat == "set_style":
    pn, vn = pick(COMBOS_RW)
    return [cat, pick(names), pn, vn]
  if cat == "put_initial_value":
    pn, vn = pick(COMBOS_RW)
    return [cat, pick(u.doc_names), pn, vn]
  if cat == "add_animation_step":
    return [cat, pick(names), pick(STEPS_RW)]
  if cat == "copy_to":
    a = pick(names)
    if guided:
      same = [n for n in names if K[n] == K[a]]
      return [cat, a, pick(same)]
    return [cat, a, pick(names)]
  return ["doc_copy_to", pick(u.doc_names), pick(u.doc_names)]


def run_rw(ctx, p):
  from vt import core  # pylint: disable=import-outside-toplevel
  which = p["universe"]
  for w in range(p["lo"], p["hi"]):
    rng = ctx.rng("walk", w)
    u = build(which)
    pre = u.snapshot()
    hist, outcomes, nontriv, known = [], [], False, frozenset()

    def close_segment():
      ctx.count("rw:segments")
      if nontriv and len(hist) > 3:
        ctx.nontriv(core.h64(hist))

    for _ in range(WALK_LEN):
      op = random_op(rng, u, pre)
      hist.append(op)
      res = step(ctx, u, op, pre, hist, known)
      outcomes.append("acc" if res.accepted else "rej")
      nontriv = nontriv or res.struct_changed
      pre = res.post
      known = res.issue_keys        # non-empty only after a known finding: the walk goes on, only NEW issues are reported
      if res.finding and not res.violated:
        ctx.count("rw:continued-past-known-finding")
      if res.violated:
        # the model is broken from here on: later findings would be consequences. The rest of the walk's call budget
        # continues on a fresh universe (a new history).
        ctx.count("rw:restart-after-violation")
        close_segment()
        u = build(which)
        pre = u.snapshot()
        hist, outcomes, nontriv, known = [], [], False, frozenset()
    close_segment()
    ctx.count("rw:walks")
    ctx.count("rw:steps", WALK_LEN)
    if len(hist) == WALK_LEN and len(ctx.samples) < 2:
      ctx.sample({"universe": which, "walk": w, "history": [fmt(h) + ":" + o for h, o in zip(hist, outcomes)], "walker_issues": 0})


# ------------------------------------------------------------------------------------------------------------------
# harness interface
# ------------------------------------------------------------------------------------------------------------------

def plan(tier, seed):
  walks = 200000 if tier == "thorough" else 2000
  if tier == "thorough":
    # the first shard records every history of length <= 2 (so that the first witness of a mechanism is a shortest one);
    # the others recompute their slice of those silently and record the histories of length 3
    shards = [{"kind": "ex", "universe": "reduced", "depth": 2, "part": 0, "parts": 1}]
    shards += [{"kind": "ex", "universe": "reduced", "depth": 3, "part": i, "parts": N_SHARDS, "record_from": 3}
               for i in range(N_SHARDS)]
  else:
    shards = [{"kind": "ex", "universe": "reduced", "depth": 2, "part": i, "parts": N_SHARDS} for i in range(N_SHARDS)]
  shards.append({"kind": "scripts"})
  shards += [{"kind": "matrix", "part": i, "parts": 4} for i in range(4)]
  per = walks // N_SHARDS
  for i in range(N_SHARDS):
    shards.append({"kind": "rw", "universe": "full", "lo": i * per, "hi": (i + 1) * per})
  return shards


# Directed histories (both tiers): shapes that the bounded breadth-first enumeration does not reach and random walks reach rarely.
SCRIPTS = [
  # a cycle through three levels: the root is pushed below its grandchild (and below a deeper descendant)
  [["set_doc", "span3", "D1"], ["push_child", "span2", "span3"], ["push_child", "span3", "span1"]],
  [["set_doc", "span3", "D1"], ["push_child", "span2", "span3"], ["push_children", "span3", ["span1"]]],
  [["set_doc", "span3", "D1"], ["push_child", "p1", "span1"], ["push_child", "span2", "span3"], ["push_child", "span3", "span1"]],
  [["set_doc", "span3", "D1"], ["push_child", "span2", "span3"], ["push_child", "span3", "span2"]],
  [["set_doc", "span3", "D1"], ["remove_child", "span3", "text2"], ["push_child", "span2", "span3"], ["push_child", "span3", "span1"],
   ["push_child", "span1", "span3"]],
  # an element moved between parents keeps exactly one parent
  [["set_doc", "span3", "D1"], ["push_child", "p1", "span3"], ["push_child", "span1", "span3"], ["remove", "span3"], ["push_child", "span1", "span3"],
   ["push_child", "p1", "span3"]],
]


def run_scripts(ctx, p):
  for script in SCRIPTS:
    u = build("full")
    pre = u.snapshot()
    hist, known = [], frozenset()
    for op in script:
      used = [op[1]] + ((op[2] if isinstance(op[2], list) else [op[2]]) if len(op) > 2 else [])
      if any(n not in u.el_names and n not in u.doc_names for n in used if isinstance(n, str)):
        break
      hist.append(op)
      res = step(ctx, u, op, pre, hist, known)
      ctx.count("script:steps")
      known = res.issue_keys
      pre = res.post
      if res.violated:
        break
    ctx.count("script:histories")


# ------------------------------------------------------------------------------------------------------------------
# validity matrix: every style property x a systematic pool of values x the three ways of storing a value
# ------------------------------------------------------------------------------------------------------------------

def matrix_values():
  """name -> value. Every member of every enumeration of ttconv.style_properties, every length unit alone and inside every
  structured type (both axes), numbers, strings, containers and other structured values."""
  import enum
  import inspect
  import ttconv.style_properties as sp  # pylint: disable=import-outside-toplevel
  L, U = sp.LengthType, sp.LengthType.Units
  out = {"int0": 0, "int1": 1, "neg1": -1, "half": 0.5, "true": True, "false": False, "str_empty": "", "str_red": "red", "tuple_empty": (),
         "list_empty": [], "frac": Fraction(1, 2), "bytes": b"x", "object": object(), "color": sp.ColorType((1, 2, 3, 255)),
         "ff_ok": ("Arial", sp.GenericFontFamilyType.serif), "ff_one": ("Arial",), "ff_int": ("Arial", 3)}

  def enums(ns, prefix):
    for nm, obj in inspect.getmembers(ns, inspect.isclass):
      if getattr(obj, "__module__", None) != sp.__name__:
        continue
      if issubclass(obj, enum.Enum):
        for m in obj:
          out[f"{prefix}{nm}.{m.name}"] = m
      elif ns is sp or obj is not ns:
        if prefix.count(".") < 2 and nm != "StyleProperties":
          enums(obj, f"{prefix}{nm}.")
  enums(sp, "")
  units = list(U)
  for u in units:
    out[f"len:{u.value}"] = L(1, u)
    out[f"padding:{u.value}"] = sp.PaddingType(L(1, u), L(1, u), L(1, u), L(1, u))
    out[f"padding:c+{u.value}"] = sp.PaddingType(L(1, U.c), L(1, U.c), L(1, U.c), L(1, u))
    out[f"outline:{u.value}"] = sp.TextOutlineType(L(1, u), None)
    out[f"reserve:{u.value}"] = sp.RubyReserveType(sp.RubyReserveType.Position.both, L(1, u))
    for v in units:
      out[f"extent:{u.value},{v.value}"] = sp.ExtentType(height=L(1, v), width=L(1, u))
      out[f"origin:{u.value},{v.value}"] = sp.CoordinateType(x=L(1, u), y=L(1, v))
      out[f"position:{u.value},{v.value}"] = sp.PositionType(h_offset=L(1, u), v_offset=L(1, v))
  def try_add(name, make):
    try:
      out[name] = make()
    except Exception:  # pylint: disable=broad-except
      pass            # the constructor itself refuses the value: nothing to store

  try_add("len:str-value", lambda: L("1", U.c))
  try_add("len:no-unit", lambda: L(1, "c"))
  try_add("extent:raw", lambda: sp.ExtentType(height=1, width=2))
  try_add("origin:raw", lambda: sp.CoordinateType(x=1, y=2))
  try_add("position:raw", lambda: sp.PositionType(h_offset=1, v_offset=2))
  try_add("position:edges-str", lambda: sp.PositionType(h_offset=L(1, U.pct), v_offset=L(1, U.pct), h_edge="left", v_edge="top"))
  try_add("padding:raw", lambda: sp.PaddingType(1, 2, 3, 4))
  try_add("decoration", lambda: sp.TextDecorationType(underline=True))
  try_add("emphasis", lambda: sp.TextEmphasisType())
  try_add("reserve:none-length", lambda: sp.RubyReserveType(sp.RubyReserveType.Position.outside, None))
  try_add("reserve:str-position", lambda: sp.RubyReserveType("both", None))
  try_add("shadow:ok", lambda: sp.TextShadowType((sp.TextShadowType.Shadow(L(1, U.px), L(1, U.px), None, None),)))
  try_add("shadow:items-not-shadows", lambda: sp.TextShadowType((1, "x")))
  try_add("shadow:not-a-sequence", lambda: sp.TextShadowType(5))
  return out


def run_matrix(ctx, p):
  """Judged in one direction only (the statement's): a value the reference calls invalid for the property must not be stored."""
  import ttconv.model as m  # pylint: disable=import-outside-toplevel
  import ttconv.style_properties as sp  # pylint: disable=import-outside-toplevel
  vals = matrix_values()
  names = sorted(vals)
  ctx.count("matrix:values", len(names))
  for pi, pname in enumerate(M.PROPERTY_NAMES):
    if pi % p["parts"] != p["part"]:
      continue
    prop = getattr(sp.StyleProperties, pname)
    for vn in names:
      v = vals[vn]
      ok = M.value_ok(pname, v)
      if isinstance(v, bool) and pname in ("LuminanceGain", "Opacity", "Shear"):
        continue        # a Python bool is a number (True == 1): whether it is a valid number-valued style is not judged
      for route in ("set_style", "put_initial_value", "add_animation_step"):
        ctx.ev()
        ctx.count("matrix:" + route)
        doc = m.ContentDocument()
        el = m.Region("r1", doc) if route != "add_animation_step" or pi % 2 else m.P(doc)
        stored, err = False, None
        try:
          if route == "set_style":
            el.set_style(prop, v)
            stored = el.get_style(prop) is v or (el.get_style(prop) is not None and el.get_style(prop) == v)
          elif route == "put_initial_value":
            doc.put_initial_value(prop, v)
            stored = doc.get_initial_value(prop) is not None
          else:
            step_ = m.DiscreteAnimationStep(prop, None, None, v)
            el.add_animation_step(step_)
            stored = any(x.value is v or x.value == v for x in el.iter_animation_steps())
        except Exception as e:  # pylint: disable=broad-except
          err = e
        ctx.count("matrix:accepted" if stored else "matrix:rejected")
        if ok:
          ctx.nontriv(("matrix", pname, vn, route))
          if not stored:
            ctx.count("matrix:valid-refused")
        elif stored:
          cls = vn.split(":")[0].split(".")[0]
          ctx.violation(f"style-validity:{route}[{pname}:{cls}]",
                        f"{route}: {pname} accepted and stored the value {vn} = {v!r}, which is not a valid {pname}",
                        {"kind": "matrix", "prop": pname, "value": vn, "route": route})


def run(ctx, p):
  install_watchdog()
  if p["kind"] == "matrix":
    run_matrix(ctx, p)
    return
  if p["kind"] == "ex":
    run_ex(ctx, p)
  elif p["kind"] == "scripts":
    run_scripts(ctx, p)
  else:
    run_rw(ctx, p)


def replay(ctx, payload):
  """Re-executes one recorded history on a fresh universe with every monitor on."""
  install_watchdog()
  if payload.get("kind") == "matrix":
    run_matrix(ctx, {"part": 0, "parts": 1})
    return
  u = build(payload["universe"])
  init = u.check()
  if init:
    raise RuntimeError(f"initial universe is not well formed: {init[:3]}")
  pre = u.snapshot()
  known = frozenset()
  hist = []
  for op in payload["ops"]:
    hist.append(op)
    res = step(ctx, u, op, pre, hist, known)
    print(f"  {fmt(op):60s} {'accepted' if res.accepted else 'rejected: ' + str(res.err)}")
    known = res.issue_keys
    pre = res.post
    if res.structural:
      break


def finalize(tier, counters):
  return {
    "exhaustive_depth": 3 if tier == "thorough" else 2,
    "alphabet_size": counters.get("ex:alphabet", 0),
    "explanation": "ex:histories = calls evaluated by the breadth-first enumeration (each is the last call of a distinct "
                   "history); rw:steps = calls evaluated inside random walks; every evaluation runs the walker over the "
                   "whole universe",
  }
