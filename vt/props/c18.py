"""C18 - readers and writers fail only in documented ways, on any input.
Exception-site observer around each stage (reader -> ISD sequence -> writers under sampled configurations -> LCD filter ->
writers again) over grammar-generated valid files of the five input formats, structure-aware mutations of those and of
the bundled corpus. A per-case interval timer turns a stage that does not return into a violation."""
from __future__ import annotations

import glob
import io
import os
import signal
import struct
import xml.etree.ElementTree as et
from fractions import Fraction

from vt import core
from vt.gen import model_docs, mutate, soup
from vt.props._isdwork import exc_site
from vt.ref import build

ID = "C18"
RULE = ("inputs = valid files from the SRT / WebVTT / SCC / STL generators, IMSC documents written from generated model documents, the "
        "bundled corpus (ttml, scc, stl, vtt/wpt) and structure-aware mutations of all of these (token truncate / delete / duplicate / swap / "
        "boundary numbers / hostile snippets; STL: GSI field, TTI header, text-field bytes, block surgery), and token soups (SCC: every class of "
        "two-byte code in any order; SRT / WebVTT: tags with valueless / empty / duplicated attributes, odd settings, stray delimiters); each input read with a sampled "
        "reader configuration, then ISD sequence, sampled SRT/VTT/IMSC writer configurations, LCD filter, writers again. Non-trivial: input "
        "for which the reader returned a document with content; distinct = distinct input bytes")
ASSUMPTIONS = [
  "documented reader failures: xml.etree.ElementTree.ParseError, ValueError (incl. UnicodeDecodeError), struct.error, or returning None",
  "documented writer failures: the IMSC writer's ValueError for frame syntaxes without fps / HH:MM:SS:FF with non-integer fps (not requested here)",
  "termination is bounded: each case (reader + all downstream stages) must finish within 120 s of the process's own CPU time (ITIMER_VIRTUAL, "
  "independent of machine load; a case normally takes < 5 s) on inputs <= 64 KiB; the timer firing = violation 'does-not-return'; the shard's "
  "wall-clock timeout is inconclusive, never a violation",
  "configurations are sampled per input (1 SRT, 2 VTT, 2 IMSC, 1 LCD), not exhaustively crossed",
]
REQUIRED = ["fmt:ttml", "fmt:scc", "fmt:stl", "fmt:srt", "fmt:vtt", "kind:valid", "kind:mutated", "kind:corpus", "kind:soup", "ttml-soup:style-loop", "ttml-soup:set-kids", "ttml-soup:misplace", "reader:returned-doc",
            "reader:documented-failure", "stage:isd", "stage:srt", "stage:vtt", "stage:imsc", "stage:lcd", "stage:post-lcd-writers"]
SHARD_TIMEOUT = {"quick": 900, "thorough": 7200}
N = {"quick": 110, "thorough": 6000}
SRC = os.path.join(core.REPO, "src/test/resources")
MAX_INPUT = 16 * 1024
CASE_CPU_BUDGET = 120   # seconds of this process's CPU time per case
ALLOWED_READER = (et.ParseError, ValueError, struct.error)


DEEP = 300    # D-DEEP-NESTING is attributed only to inputs that nest at least this many tags / elements


def deep_nesting_finding(e, fmt, data):
  """Known finding: the recursive tree walks of the IMSC reader (about 330 levels), of ISD generation, the writers and the filters (about
  1000 levels) exhaust the interpreter stack. Any RecursionError on an input nested less deeply than DEEP is NOT this finding."""
  if isinstance(e, RecursionError) and fmt in ("ttml", "srt", "vtt") and soup.nesting_depth(fmt, data) >= DEEP:
    return "D-DEEP-NESTING"
  return None


class Stuck(BaseException):
  pass


def _alarm(_sig, _frm):
  raise Stuck()


def plan(tier, seed):
  return [{"n": N[tier], "shard": i} for i in range(16)]


def corpus_files():
  out = {"ttml": sorted(glob.glob(os.path.join(SRC, "ttml/**/*.ttml"), recursive=True)),
         "scc": sorted(glob.glob(os.path.join(SRC, "scc/*.scc"))),
         "stl": sorted(glob.glob(os.path.join(SRC, "stl/**/*.stl"), recursive=True)),
         "vtt": sorted(glob.glob(os.path.join(SRC, "vtt/**/*.vtt"), recursive=True)),
         "srt": sorted(glob.glob(os.path.join(SRC, "srt/**/*.srt"), recursive=True))}
  return out


def gen_valid(rng, fmt, tier):
  """Returns (bytes, reader_config_dict_or_None)."""
  if fmt == "srt":
    from vt.gen import srt as g
    return g.gen_file(rng, {"empty_cue": rng.random() < 0.1})[0].encode("utf-8"), None
  if fmt == "vtt":
    from vt.gen import vtt as g
    return g.gen_file(rng)[0].encode("utf-8"), None
  if fmt == "scc":
    from vt.gen import scc as g
    text, meta = g.gen_stream(rng, "thorough" if rng.random() < 0.3 else "quick")
    return text.encode("utf-8"), {"text_align": rng.choice(["auto", "left", "center", "right"])}
  if fmt == "stl":
    from vt.gen import stl as g
    data, ast = g.gen_file(rng)
    return data, g.gen_config(rng, ast)
  # ttml: an IMSC document written from a generated model document
  import ttconv.imsc.writer as imsc_writer
  try:
    from vt.gen import ttml as gt     # schema generator (built for C04)
    if rng.random() < 0.5:
      return gt.generate(rng)[0].encode("utf-8"), None
  except Exception:  # pylint: disable=broad-except
    pass
  adoc, _ = model_docs.generate(rng, rng.choice(["isd", "style", "text"]), None, p_markup=0.05)
  doc = build.build_doc(adoc)
  buf = io.BytesIO()
  imsc_writer.from_model(doc).write(buf, encoding="utf-8", xml_declaration=True)
  return buf.getvalue(), None


def read(fmt, data: bytes, cfg):
  import ttconv.imsc.reader as imsc_reader
  import ttconv.scc.reader as scc_reader
  import ttconv.stl.reader as stl_reader
  import ttconv.srt.reader as srt_reader
  import ttconv.vtt.reader as vtt_reader
  if fmt == "ttml":
    try:
      tree = et.parse(io.BytesIO(data))
    except Exception as e:  # pylint: disable=broad-except
      # failures of the XML layer itself (ParseError, unknown encoding ...) happen before the reader is entered
      raise et.ParseError(f"{type(e).__name__}: {e}") from e
    return imsc_reader.to_model(tree)
  if fmt == "scc":
    from ttconv.scc.config import SccReaderConfiguration
    return scc_reader.to_model(data.decode("utf-8"), None if cfg is None else SccReaderConfiguration.parse(cfg))
  if fmt == "stl":
    from ttconv.stl.config import STLReaderConfiguration
    c = None
    if cfg is not None:
      d = dict(cfg)
      if d.get("font_stack") is not None:
        d["font_stack"] = ", ".join(d["font_stack"])
      c = STLReaderConfiguration.parse({k: v for k, v in d.items() if v is not None})
    return stl_reader.to_model(io.BytesIO(data), c)
  f = io.TextIOWrapper(io.BytesIO(data), encoding="utf-8")
  return (srt_reader if fmt == "srt" else vtt_reader).to_model(f)


SRT_CFGS = [{"text_formatting": True}, {"text_formatting": False}]
VTT_CFGS = [{"line_position": a, "text_align": b, "cue_id": c} for a in (False, True) for b in (False, True) for c in (False, True)]
IMSC_CFGS = [None, {"time_format": "clock_time"}] + [{"time_format": "frames", "fps": f} for f in ("24/1", "25/1", "30000/1001")] + \
            [{"time_format": "clock_time_with_frames", "fps": f} for f in ("24/1", "25/1", "30/1")]
LCD_CFGS = [{"safe_area": 10}, {"safe_area": 0, "preserve_text_align": True, "color": "#ffff00"}, {"safe_area": 30, "bg_color": "black", "color": "white"},
            {"safe_area": 5, "bg_color": "#00000080"}]


def downstream(ctx, rng, doc, payload, what):
  """Runs the stages after a successful read; returns False after the first violation."""
  from ttconv.isd import ISD
  import ttconv.srt.writer as srt_writer
  import ttconv.vtt.writer as vtt_writer
  import ttconv.imsc.writer as imsc_writer
  from ttconv.srt.config import SRTWriterConfiguration
  from ttconv.vtt.config import VTTWriterConfiguration
  from ttconv.imsc.config import IMSCWriterConfiguration
  from ttconv.filters.doc.lcd import LCDDocFilter, LCDDocFilterConfig

  def stage(name, fn):
    ctx.count("stage:" + name.split("[")[0])
    try:
      fn()
      return True
    except Stuck:
      ctx.violation(f"does-not-return:{name.split('[')[0]}", f"{what}: stage {name} did not return within the watchdog", payload)
      raise
    except Exception as e:  # pylint: disable=broad-except
      ctx.violation(f"{name.split('[')[0]}-raises:{exc_site(e)}", f"{what}: stage {name} raised {type(e).__name__}: {e}", payload,
                    finding=deep_nesting_finding(e, payload["fmt"], bytes.fromhex(payload["data_hex"])))
      return False

  def isd_stage():
    seq = ISD.generate_isd_sequence(doc)
    sig = ISD.significant_times(doc)
    for t in list(sig)[:6] + [Fraction(0), Fraction(7, 3), Fraction(10**6)]:
      ISD.from_model(doc, t)
      ISD.from_model(doc, t, sig)
    return seq

  def imsc_stage(cfg):
    tree = imsc_writer.from_model(doc, None if cfg is None else IMSCWriterConfiguration.parse(cfg))
    tree.write(io.BytesIO(), encoding="utf-8", xml_declaration=True)

  ok = stage("isd", isd_stage)
  c = rng.choice(SRT_CFGS)
  ok = stage(f"srt[{c}]", lambda: srt_writer.from_model(doc, SRTWriterConfiguration.parse(c))) and ok
  for c in rng.sample(VTT_CFGS, 2):
    ok = stage(f"vtt[{c}]", lambda c=c: vtt_writer.from_model(doc, VTTWriterConfiguration.parse(c))) and ok
  for c in rng.sample(IMSC_CFGS, 2):
    ok = stage(f"imsc[{c}]", lambda c=c: imsc_stage(c)) and ok
  lc = rng.choice(LCD_CFGS)
  if stage(f"lcd[{lc}]", lambda: LCDDocFilter(LCDDocFilterConfig.parse(lc)).process(doc)):
    ctx.count("stage:post-lcd-writers")
    stage("post-lcd-isd", isd_stage)
    stage("post-lcd-srt", lambda: srt_writer.from_model(doc))
    stage("post-lcd-vtt", lambda: vtt_writer.from_model(doc, VTTWriterConfiguration.parse(rng.choice(VTT_CFGS))))
    stage("post-lcd-imsc", lambda: imsc_stage(rng.choice(IMSC_CFGS)))
  return ok


def has_content(doc):
  b = doc.get_body()
  if b is None:
    return False
  # explicit stack: the harness itself must not depend on the interpreter's recursion limit (deeply nested documents)
  stack = [b]
  n = 0
  while stack and n < 5000:
    e = stack.pop()
    n += 1
    if type(e).__name__ == "Text":
      if e.get_text().strip():
        return True
      continue
    c = e.first_child() if hasattr(e, "first_child") else None
    kids = []
    while c is not None:
      kids.append(c)
      c = c.next_sibling()
    stack.extend(reversed(kids))
  return False


def run_case(ctx, rng, fmt, data: bytes, cfg, kind):
  ctx.ev()
  ctx.count("fmt:" + fmt)
  ctx.count("kind:" + kind)
  payload = {"fmt": fmt, "data_hex": data.hex(), "cfg": cfg, "kind": kind}
  what = f"{fmt} input ({kind}, {len(data)} bytes, cfg={cfg})"
  signal.signal(signal.SIGVTALRM, _alarm)
  signal.setitimer(signal.ITIMER_VIRTUAL, CASE_CPU_BUDGET)
  try:
    try:
      doc = read(fmt, data, cfg)
    except ALLOWED_READER as e:
      ctx.count("reader:documented-failure")
      ctx.count(f"reader:documented-failure:{type(e).__name__}")
      return
    except Stuck:
      ctx.violation(f"does-not-return:{fmt}-reader", f"{what}: the reader did not return within the watchdog", payload)
      return
    except Exception as e:  # pylint: disable=broad-except
      fid = deep_nesting_finding(e, fmt, data)
      if fmt == "vtt" and isinstance(e, TypeError) and exc_site(e).endswith("model.push_child") and \
          "Children of span must be span or br instances" in str(e) and b"<ruby" in data.lower():
        fid = "D-VTT-RUBY-IN-SPAN"
      ctx.violation(f"{fmt}-reader-raises:{exc_site(e)}", f"{what}: reader raised {type(e).__name__}: {e}", payload, finding=fid)
      return
    if doc is None:
      ctx.count("reader:returned-none")
      return
    ctx.count("reader:returned-doc")
    if has_content(doc):
      ctx.nontriv(("in", fmt, data))
      if len(ctx.samples) < 4 and kind == "mutated":
        ctx.sample({"fmt": fmt, "kind": kind, "bytes": len(data), "head": data[:160].decode("utf-8", "replace")})
    try:
      downstream(ctx, rng, doc, payload, what)
    except Stuck:
      pass
  finally:
    signal.setitimer(signal.ITIMER_VIRTUAL, 0)


# Fixed documents (both tiers): shapes of valid input the generators reach rarely.
DIRECTED = [
  # two regions whose content never ends: the last ISD, which has no end, shows both
  ("ttml", b"""<?xml version="1.0" encoding="UTF-8"?>
<tt xml:lang="en" xmlns="http://www.w3.org/ns/ttml" xmlns:tts="http://www.w3.org/ns/ttml#styling">
 <head><layout>
  <region xml:id="top" tts:origin="10% 10%" tts:extent="80% 20%"/>
  <region xml:id="bottom" tts:origin="10% 70%" tts:extent="80% 20%" tts:displayAlign="after"/>
 </layout></head>
 <body><div>
  <p region="top" begin="1s">first <span tts:fontStyle="italic">open</span></p>
  <p region="bottom" begin="2s">second open</p>
  <p region="bottom" begin="0.5s" end="1.5s">closed</p>
 </div></body>
</tt>"""),
  # the same, one of the two ends
  ("ttml", b"""<?xml version="1.0" encoding="UTF-8"?>
<tt xml:lang="en" xmlns="http://www.w3.org/ns/ttml" xmlns:tts="http://www.w3.org/ns/ttml#styling">
 <head><layout><region xml:id="a" tts:extent="50% 50%"/><region xml:id="b" tts:origin="50% 50%" tts:extent="50% 50%"/></layout></head>
 <body><div region="a"><p begin="1s">A</p></div><div region="b"><p begin="1s" end="3s">B</p><p begin="3s">C</p></div></body>
</tt>"""),
]


def run(ctx, params):
  if params["shard"] == 0:
    for k, (fmt, data) in enumerate(DIRECTED):
      ctx.count("class:directed")
      run_case(ctx, ctx.rng("directed", k), fmt, data, None, "directed")
  corpus = corpus_files()
  fmts = ["ttml", "scc", "stl", "srt", "vtt"]
  tier = ctx.tier
  for i in range(params["n"]):
    rng = ctx.rng("case", params["shard"], i)
    fmt = fmts[(i + params["shard"]) % 5]
    r = rng.random()
    cfg = None
    if r < 0.25 and corpus[fmt]:
      path = rng.choice(corpus[fmt])
      with open(path, "rb") as f:
        data = f.read()
      kind = "corpus"
      if fmt == "stl":
        cfg = rng.choice([None, {"program_start_tc": "TCP"}, {"max_row_count": "MNR"}, {"program_start_tc": "10:00:00:00", "disable_line_padding": True}])
      if rng.random() < 0.6 and len(data) <= 4 * MAX_INPUT:
        data = mutate.mutate_stl(rng, data) if fmt == "stl" else mutate.mutate_text(rng, data)
        kind = "mutated"
    elif fmt in ("scc", "srt", "vtt") and r < 0.5:
      if fmt != "scc" and rng.random() < 0.08:
        data = soup.deep_text(rng, fmt)
        ctx.count("class:deep-nesting")
      else:
        data = soup.gen(rng, fmt)
      kind = "soup"
      if fmt == "scc":
        cfg = {"text_align": rng.choice(["auto", "left", "center", "right"])}
    elif fmt == "ttml" and r < 0.5:
      data, ops = soup.ttml_soup(rng)
      for op in ops:
        ctx.count("ttml-soup:" + op)
      kind = "soup"
    else:
      try:
        data, cfg = gen_valid(rng, fmt, tier)
      except Exception as e:  # pylint: disable=broad-except
        ctx.notes.append(f"generator for {fmt} failed: {type(e).__name__}: {e}")
        continue
      kind = "valid"
      if fmt == "stl" and rng.random() < 0.3:
        data = soup.stl_soup(rng, data)
        kind = "soup"
      elif rng.random() < 0.65:
        data = mutate.mutate_stl(rng, data) if fmt == "stl" else (mutate.mutate_text(rng, data) if rng.random() < 0.85 else mutate.mutate_bytes(rng, data))
        kind = "mutated"
    if len(data) > 4 * MAX_INPUT:
      data = data[:4 * MAX_INPUT]
    run_case(ctx, rng, fmt, data, cfg, kind)


def replay(ctx, payload):
  run_case(ctx, ctx.rng("replay"), payload["fmt"], bytes.fromhex(payload["data_hex"]), payload.get("cfg"), payload.get("kind", "replay"))
