"""C08 - the SCC reader shows what a CEA-608 decoder displays, when it displays it.

Offline monitor: every generated (or bundled) SCC file is fed to the reference decoder vt/ref/c608.py and to
ttconv.scc.reader.to_model; the document is projected through public getters into paragraphs (begin/end in frames,
rows from region origin + br, span text/styles) and compared clause by clause (DESIGN.md section 4, C08)."""
import bisect
import os
from fractions import Fraction

from vt import core
from vt.gen import scc as G
from vt.ref import c608 as R
from vt.ref import c608_table as T

ID = "C08"
RULE = ("SCC files generated from the pop-on / roll-up / paint-on grammars of vt/gen/scc.py (1-3 mode segments, <= 40 captions, "
        "rows 1-15, PAC indent/colour + tab offsets, standard/special/extended characters, mid-row codes, BS, optional ENM/EDM, "
        "ENM/EDM omitted between pop-on captions on different rows in ~45% of the streams (memory swap: the caption of two flips ago returns), "
        "all-doubled or all-single control codes, channel-2 groups, null padding, three parity renderings, DF/NDF start "
        "times incl. minute/hour crossings, text_align in auto/left/center/right) plus the three bundled .scc files; "
        "non-trivial = the reader produced >= 2 paragraphs; distinct = distinct file texts")
ASSUMPTIONS = [
  "reference decoder vt/ref/c608.py written from CEA-608-E sections 6-7 / 47 CFR 15.119; word classes from vt/ref/c608_table.py",
  "frame of word i on a line at time code T is T+i; transmission window of a word = [T+i, T+i+2] frames",
  "columns, text alignment (incl. the auto heuristic), region extents, background colours and attributes of blank cells are not compared",
  "rows compared as trimmed text; row of the first line from the region origin (round(y%*19/100)-1), +1 per br; for displayAlign=after regions rows are counted upwards from the last line",
  "screens during the transmission of a roll-up / paint-on line may run ahead of the decoder up to the end of that line (never behind by more than 2 frames, never ahead of the line's time code)",
  "a roll-up row's paragraph must begin in the window of its CR (RUx when there is none), as DESIGN.md clause 3",
  "streams on which 'the redundant copy must be the very next word' and 'null padding / other-channel words do not break a doubled pair' decode differently are skipped (counted as abstain:dup-ambiguous)",
  "not generated: tab offsets in the middle of a row, rows past column 32, BS/extended characters in column 32, text split across SCC lines inside a row, overlapping SCC lines, mode changes without an intervening EDM, pop-on rows loaded over a row still held by the non-displayed memory (without ENM the new rows always address free rows), T1/T2 text mode, field-2 codes, two identical control pairs separated only by padding or channel-2 data",
  "a roll-up row without PAC (CR then text) is generated only when the pen already is white/plain (47 CFR 15.119(h)(1) resets attributes at the end of a row; the reader keeps them - not judged)",
  "bundled files: screens containing a row that received more than 32 glyphs are not compared; files whose lines overlap (next time code earlier than the end of the previous line) are skipped",
  "a row erased by PAC + DER may vanish from the PAC's window on (the pair is taken as the trigger)",
  "paint-on rewrites of an occupied row only as PAC indent 0 + DER + text (thorough tier)",
  "roll-up base rows other than 15 only in the thorough tier (expected known finding F-SCC-ROLLUP-ROW15)",
  "glyph-ambiguous extended characters accept the alternatives listed in vt/ref/c608_table.py",
]
REQUIRED = ["streams", "mode:pop", "mode:roll", "mode:paint", "tc:df", "tc:ndf", "codes:doubled", "codes:single",
            "clause1:settled-screens", "clause2:popon-begin", "clause2:popon-end", "clause3:rollup-begin",
            "clause3:rollup-depth", "clause4:painton-frames", "clause5:styled-chars", "clause2:exact-times",
            "clause6:ch2-to-padding", "clause6:parity", "bundled", "class:popon-no-enm-swap", "clause2:popon-returning-row"]
SHARD_TIMEOUT = {"quick": 600, "thorough": 3600}

BUNDLED_DIR = os.path.join(core.REPO, "src/test/resources/scc")
N_QUICK, N_THOROUGH = 320, 15000


def plan(tier, seed):
  n = N_QUICK if tier == "quick" else N_THOROUGH
  shards = 16
  out = []
  per = n // shards
  for i in range(shards):
    out.append({"kind": "gen", "first": i * per, "count": per, "bundled": i == 0})
  return out


# ---- projection of the document ---------------------------------------------------------------------------------

class Para:
  __slots__ = ("pid", "begin", "end", "b", "e", "rows", "region", "align_after", "origin", "text_align", "exact")


def _frames(x, fps):
  """time in seconds -> (frame number, exact?)"""
  f = Fraction(x) * fps
  if f.denominator == 1:
    return int(f), True
  return f, False


def project(doc, fps):
  """-> list of Para in document order.  rows: list of (row number, [(text, begin frame|None, end frame|None,
  color components|None, italic, underline)])."""
  from ttconv.model import P, Span, Br, Text
  from ttconv.style_properties import StyleProperties as SP, FontStyleType, DisplayAlignType
  paras = []
  rows_total = doc.get_cell_resolution().rows

  def walk(el):
    for child in el:
      if isinstance(child, P):
        paras.append(child)
      else:
        walk(child)

  body = doc.get_body()
  if body is not None:
    walk(body)
  out = []
  for p in paras:
    q = Para()
    q.pid = p.get_id()
    q.begin, q.end = p.get_begin(), p.get_end()
    q.exact = True
    q.b, ok = _frames(q.begin, fps) if q.begin is not None else (0, True)
    q.exact = q.exact and ok
    if q.end is None:
      q.e = None
    else:
      q.e, ok = _frames(q.end, fps)
      q.exact = q.exact and ok
    region = p.get_region()
    q.region = region.get_id() if region is not None else None
    q.text_align = p.get_style(SP.TextAlign)
    lines = [[]]
    for child in p:
      if isinstance(child, Br):
        lines.append([])
      elif isinstance(child, Span):
        text = "".join(t.get_text() for t in child if isinstance(t, Text))
        sb, se = child.get_begin(), child.get_end()
        fb = fe = None
        if sb is not None:
          fb, ok = _frames((q.begin or 0) + sb, fps)
          q.exact = q.exact and ok
        if se is not None:
          fe, ok = _frames((q.begin or 0) + se, fps)
          q.exact = q.exact and ok
        color = child.get_style(SP.Color)
        td = child.get_style(SP.TextDecoration)
        lines[-1].append((text, fb, fe, tuple(color.components) if color is not None else None,
                          child.get_style(SP.FontStyle) is FontStyleType.italic,
                          bool(td is not None and td.underline)))
    q.origin = None
    q.align_after = False
    first_row = None
    if region is not None:
      origin = region.get_style(SP.Origin)
      extent = region.get_style(SP.Extent)
      q.align_after = region.get_style(SP.DisplayAlign) is DisplayAlignType.after
      if origin is not None:
        q.origin = (origin.x.value, origin.y.value)
        top = round(origin.y.value * rows_total / 100) - 2 + 1
        if q.align_after and extent is not None:
          h = round(extent.height.value * rows_total / 100)
          first_row = top + h - 1 - (len(lines) - 1)
        else:
          first_row = top
    q.rows = [((first_row + i) if first_row is not None else None, spans) for i, spans in enumerate(lines)]
    out.append(q)
  return out


def doc_rows_at(paras, frame):
  """Visible non-blank rows at `frame`: sorted list of (row number, stripped text, per-char styles)."""
  rows = []
  for q in paras:
    if q.b > frame or (q.e is not None and q.e <= frame):
      continue
    for rownum, spans in q.rows:
      text, styles = [], []
      for (s, fb, fe, color, italic, underline) in spans:
        if fb is not None and fb > frame:
          continue
        if fe is not None and fe <= frame:
          continue
        text.append(s)
        styles.extend([(color, italic, underline)] * len(s))
      s = "".join(text)
      st = s.strip(" ")
      if not st:
        continue
      lead = len(s) - len(s.lstrip(" "))
      rows.append((rownum, st, styles[lead:lead + len(st)]))
  rows.sort(key=lambda x: (x[0] if x[0] is not None else -1))
  return rows


def text_matches(cells, s):
  if len(cells) != len(s):
    return False
  for c, ch in zip(cells, s):
    if R.is_blank_cell(c):
      if ch != " ":
        return False
    elif ch not in c[0]:
      return False
  return True


def compare_rows(ref_rows, doc_rows, styles=True):
  """-> dict(kind -> detail) of differences; kinds: count, text, rownum, style."""
  diffs = {}
  if len(ref_rows) != len(doc_rows):
    diffs["count"] = "expected %d rows %r, observed %d rows %r" % (
      len(ref_rows), [(r, R.cells_text(c)) for r, _, c in ref_rows], len(doc_rows), [(r, s) for r, s, _ in doc_rows])
    return diffs
  for (rr, _, cells), (dr, s, st) in zip(ref_rows, doc_rows):
    if not text_matches(cells, s):
      diffs.setdefault("text", "row %d: expected %r observed %r (row %s)" % (rr, R.cells_text(cells), s, dr))
      continue
    if rr != dr:
      diffs.setdefault("rownum", "text %r: expected row %d observed row %s" % (s, rr, dr))
    if styles:
      for c, ch, (color, italic, underline) in zip(cells, s, st):
        if R.is_blank_cell(c):
          continue
        okc = T.color_matches(c[1], color) if color is not None else c[1] == "white"
        if not okc or italic != c[2] or underline != c[3]:
          if not okc and c[2] and italic and c[1] != "white" and (color is None or T.color_matches("white", color)):
            sub = "italic-text-loses-colour"
          else:
            sub = "colour" if not okc else "italic" if italic != c[2] else "underline"
          diffs.setdefault("style", (sub, "row %d char %r of %r: expected %s%s%s observed color=%s italic=%s underline=%s" % (
            rr, ch, s, c[1], " italic" if c[2] else "", " underline" if c[3] else "", color, italic, underline)))
          break
  return diffs


# ---- the oracle -------------------------------------------------------------------------------------------------

class Case:
  """Everything known about one stream."""

  def __init__(self, text, text_align):
    self.text, self.text_align = text, text_align
    self.lines = R.parse_scc(text)
    self.df = bool(self.lines) and self.lines[0]["df"]
    self.fps = R.FPS_DF if self.df else R.FPS_NDF
    self.dec = R.decode(self.lines, strict_dup=True)
    self.line_T = [ln["T"] for ln in self.lines]
    self.line_last = [ln["T"] + len(ln["words"]) - 1 for ln in self.lines]
    # number of suppressed channel-1 duplicates before each word of its line
    self.kdup = {}
    k, cur = 0, None
    for rec in self.dec.words:
      if rec["line"] != cur:
        cur, k = rec["line"], 0
      self.kdup[rec["w"]] = k
      if rec["suppressed"] and rec["chan"] == 1:
        k += 1
    self.rec_at = {rec["w"]: rec for rec in self.dec.words}

  def payload(self):
    return {"text": self.text, "text_align": self.text_align}

  def line_of_frame(self, frame):
    """index of the last line whose time code is <= frame, or None"""
    i = bisect.bisect_right(self.line_T, frame) - 1
    return i if i >= 0 else None


def run_reader(text, text_align):
  from ttconv.scc.reader import to_model
  from ttconv.scc.config import SccReaderConfiguration, TextAlignment
  cfg = None
  if text_align is not None:
    cfg = SccReaderConfiguration(text_align=TextAlignment.from_value(text_align))
  return to_model(text, cfg)


def fingerprint(paras):
  return [(q.pid, q.begin, q.end, q.region, q.origin, str(q.text_align), [(r, tuple(sp)) for r, sp in q.rows]) for q in paras]


def classify_time(case, observed, w, lo_off=0):
  """observed frame vs the window [w+lo_off, w+2] of trigger word w. -> None (ok) | 'dup' | 'bad'"""
  if isinstance(observed, int) and w + lo_off <= observed <= w + 2:
    return None
  k = case.kdup.get(w, 0)
  rec = case.rec_at.get(w)
  t_line = case.line_T[rec["line"]] if rec is not None else None
  if isinstance(observed, int) and k > 0 and w + 1 <= observed + k <= w + 2 and t_line is not None and observed >= t_line:
    return "dup"
  return "bad"


def check_stream(ctx, text, text_align, meta=None, tier="quick"):
  ctx.ev()
  ctx.count("streams")
  case = Case(text, text_align)
  dec = case.dec
  payload = case.payload()
  if not case.lines:
    ctx.count("abstain:no-lines")
    return
  if any(ln["df"] != case.df for ln in case.lines):
    ctx.count("abstain:mixed-df-ndf")
    return
  for a, b in zip(case.lines, case.lines[1:]):
    if b["T"] < a["T"] + len(a["words"]):
      ctx.count("abstain:overlapping-lines")
      return
  lenient = R.decode(case.lines, strict_dup=False)
  if lenient.events != dec.events:
    ctx.count("abstain:dup-ambiguous")
    return
  ctx.count("tc:df" if case.df else "tc:ndf")
  acting = [r for r in dec.words if r["ch1"] and not r["suppressed"]]
  n_dups = sum(1 for r in dec.words if r["suppressed"] and r["chan"] == 1)
  ctx.count("codes:doubled" if n_dups else "codes:single")
  modes = {r["mode"] for r in acting if r["mode"]}
  for m in modes:
    ctx.count("mode:" + m)
  n_swap = sum(1 for r in acting if r.get("swap_carry"))
  if n_swap:
    # flips that bring a caption displayed earlier back on screen (no ENM since): exercises the EOC memory swap
    ctx.count("class:popon-no-enm-swap")
    ctx.count("class:popon-no-enm-swap-flips", n_swap)
  if meta is not None and "captions" in meta:
    selfcheck(case, meta)

  # ---- run the reader --------------------------------------------------------------------------------------------
  try:
    doc = run_reader(text, text_align)
    paras = project(doc, case.fps)
  except Exception as e:  # pylint: disable=broad-except
    ctx.violation("reader-raises:" + type(e).__name__, "to_model raised %s: %s" % (type(e).__name__, e), payload)
    return
  if len(paras) >= 2:
    ctx.nontriv(core.h64(text))
  if len(ctx.samples) < 3 and 2 <= len(paras) <= 6 and len(text) < 1500:
    ctx.sample({"scc": text, "text_align": text_align,
                "paragraphs": [[q.pid, str(q.begin), str(q.end), [(r, "".join(s[0] for s in sp)) for r, sp in q.rows]] for q in paras]})

  directed = (meta or {}).get("directed")

  def viol(mech, what, finding=None):
    if finding is None and directed is not None and mech in directed[1]:
      finding = directed[0]       # this fixed input, this mechanism: the listed finding; anything else it shows is reported
    ctx.violation(mech, what, payload, finding=finding)

  def timed(mech, what, observed, w, lo_off=0):
    """window check with the duplicate-frames classifier"""
    c = classify_time(case, observed, w, lo_off)
    if c is None:
      return True
    rec = case.rec_at[w]
    where = "word %d (%04x %s) of line %s, window [%d, %d], %d suppressed duplicates before it" % (
      rec["idx"], rec["value"], rec["name"] or rec["cls"], case.lines[rec["line"]]["tc"], w, w + 2, case.kdup.get(w, 0))
    if c == "dup":
      viol(mech + ":dup-frames", "%s: observed frame %s = expected - #suppressed duplicates; %s" % (what, observed, where),
           finding="F-SCC-DUP-FRAMES")
    else:
      viol(mech, "%s: observed frame %s; %s" % (what, observed, where))
    return False

  # ---- clause 2b: exact frame multiples, never in an idle gap, never before the line's time code -----------------
  has_row15_deviation = any(r["cls"] == "pac" and r["mode"] == "roll" and r.get("pac_row") != 15 for r in acting)
  for q in paras:
    ctx.count("clause2:exact-times")
    if not q.exact:
      viol("time-not-frame-multiple", "paragraph %s begin=%s end=%s (or a span time) is not a whole number of frames at %s fps"
           % (q.pid, q.begin, q.end, case.fps))
      return
    for label, f in (("begin", q.b if q.begin is not None else None), ("end", q.e)):
      if f is None:
        continue
      li = case.line_of_frame(f)
      if li is None:
        viol("time-before-first-line", "paragraph %s %s at frame %d precedes the first time code" % (q.pid, label, f))
      elif f > case.line_last[li] + 2:
        viol("change-outside-transmission", "paragraph %s %s at frame %d: no word is transmitted within 2 frames before it "
             "(line %s ends at frame %d)" % (q.pid, label, f, case.lines[li]["tc"], case.line_last[li]))

  # ---- clause 1 + 5: settled screens -----------------------------------------------------------------------------
  settled = set()
  for i in range(len(case.lines)):
    last = case.line_last[i]
    nxt = case.line_T[i + 1] if i + 1 < len(case.lines) else None
    if nxt is None:
      settled.update((last + 3, last + 40))
    else:
      if last + 3 <= nxt - 1:
        settled.add(last + 3)
      if last + 2 <= nxt - 1:
        settled.add(nxt - 1)
  if case.lines:
    settled.add(case.line_T[0] - 1)
  for F in sorted(settled):
    if R.has_overflow(dec.screen_at(F)):
      ctx.count("abstain:screen-with-row-longer-than-32-columns")
      continue
    ref_rows = R.screen_rows(dec.screen_at(F))
    d_rows = doc_rows_at(paras, F)
    ctx.count("clause1:settled-screens")
    diffs = compare_rows(ref_rows, d_rows)
    ctx.count("clause5:styled-chars", sum(1 for _, _, cells in ref_rows for c in cells if not R.is_blank_cell(c)) if "count" not in diffs and "text" not in diffs else 0)
    if not diffs:
      continue
    where = "settled frame %d (%s)" % (F, frame_label(case, F))
    sfx = mode_suffix(case, F)
    if "count" in diffs:
      viol("settled-count" + sfx, where + ": " + diffs["count"])
      continue
    if "text" in diffs:
      viol("settled-text" + sfx, where + ": " + diffs["text"])
    if "rownum" in diffs:
      if has_row15_deviation and "text" not in diffs and sfx == ":roll":
        viol("settled-rownum:rollup-row", where + ": " + diffs["rownum"], finding="F-SCC-ROLLUP-ROW15")
      else:
        viol("settled-rownum" + sfx, where + ": " + diffs["rownum"])
    if "style" in diffs:
      viol("settled-style:" + diffs["style"][0] + sfx, where + ": " + diffs["style"][1])

  # ---- clause 3b: roll-up depth ----------------------------------------------------------------------------------
  depth_at = rollup_depth_timeline(case)
  for F in sorted(settled):
    d = depth_at(F)
    if d is None:
      continue
    ctx.count("clause3:rollup-depth")
    n = len(doc_rows_at(paras, F))
    if n > d:
      viol("rollup-depth-exceeded", "settled frame %d: %d rows displayed with roll-up depth %d" % (F, n, d))

  # ---- clauses 2 and 3: trigger windows of rows ------------------------------------------------------------------
  check_row_lifetimes(ctx, case, paras, timed, viol)

  # ---- clause 4 (and the roll-up analogue): frames inside the transmission of roll-up / paint-on lines -----------
  check_transmission_frames(ctx, case, paras, viol)

  # ---- clause 6: other-channel data, parity ----------------------------------------------------------------------
  base_fp = fingerprint(paras)
  has_other = any((not r["ch1"]) and r["cls"] not in ("padding",) and not (r["suppressed"] and r["chan"] == 1) for r in dec.words)
  if has_other:
    ctx.count("clause6:ch2-to-padding")
    lines2 = []
    it = iter(dec.words)
    for ln in case.lines:
      ws = []
      for v in ln["words"]:
        rec = next(it)
        foreign = (not rec["ch1"]) and rec["cls"] != "padding" and not (rec["suppressed"] and rec["chan"] == 1)
        ws.append(0x0000 if foreign else v)
      lines2.append({"tc": ln["tc"], "T": ln["T"], "words": ws})
    if R.decode(lines2, True).events == dec.events and R.decode(lines2, False).events == dec.events:
      alt = G.render(lines2, "odd")
      try:
        fp2 = fingerprint(project(run_reader(alt, text_align), case.fps))
      except Exception as e:  # pylint: disable=broad-except
        fp2 = "raised %s: %s" % (type(e).__name__, e)
      if fp2 != base_fp:
        viol("other-channel-data-changes-document", "replacing every channel-2 word by null padding changes the document: %s"
             % first_diff(base_fp, fp2))
  ctx.count("clause6:parity")
  for pm in ("clear", "odd", "set"):
    alt = G.render(case.lines, pm)
    if alt == text:
      continue
    try:
      fp2 = fingerprint(project(run_reader(alt, text_align), case.fps))
    except Exception as e:  # pylint: disable=broad-except
      fp2 = "raised %s: %s" % (type(e).__name__, e)
    if fp2 != base_fp:
      viol("parity-changes-document", "re-rendering the words with parity '%s' changes the document: %s" % (pm, first_diff(base_fp, fp2)))


def first_diff(a, b):
  if isinstance(b, str):
    return b
  if len(a) != len(b):
    return "%d paragraphs vs %d" % (len(a), len(b))
  for x, y in zip(a, b):
    if x != y:
      return "%r vs %r" % (x, y)
  return "?"


def frame_label(case, F):
  li = case.line_of_frame(F)
  if li is None:
    return "before the first line"
  return "%d frames after the last word of line %s" % (F - case.line_last[li], case.lines[li]["tc"])


def mode_at(case, F):
  """mode of the reference decoder once the words received before frame F have acted"""
  mode = None
  ws = case.dec.words
  lo, hi = 0, len(ws)
  while lo < hi:
    mid = (lo + hi) // 2
    if ws[mid]["w"] < F:
      lo = mid + 1
    else:
      hi = mid
  for rec in reversed(ws[:lo]):
    if rec["ch1"] and not rec["suppressed"] and rec["mode"]:
      mode = rec["mode"]
      break
  return mode


def mode_suffix(case, F):
  return ":" + (mode_at(case, F) or "none")


def rollup_depth_timeline(case):
  """-> function frame -> selected depth when the decoder is in roll-up mode (and has been since the last erase)"""
  marks = []   # (w, depth or None)
  for rec in case.dec.words:
    if not rec["ch1"] or rec["suppressed"]:
      continue
    if rec["cls"] == "control" and rec["name"] in ("RU2", "RU3", "RU4"):
      marks.append((rec["w"], int(rec["name"][2]) if rec["mode_before"] != "roll" or not marks or marks[-1][1] is None
                    else max(marks[-1][1], int(rec["name"][2]))))
    elif rec["cls"] == "control" and rec["name"] in ("RCL", "RDC", "EOC", "TR", "RTD"):
      marks.append((rec["w"], None))
  frames = [m[0] for m in marks]

  def at(F):
    i = bisect.bisect_right(frames, F - 3) - 1
    j = bisect.bisect_right(frames, F) - 1
    if i < 0 or i != j:
      return None
    return marks[i][1]
  return at


# ---- rows: when they appear and vanish --------------------------------------------------------------------------

def check_row_lifetimes(ctx, case, paras, timed, viol):
  dec = case.dec
  events = dec.events
  # trigger word of every change event
  ev_word = [None] + [case.rec_at[e[0] - 1] for e in events[1:]]
  ev_texts = [set(t for _, t in R.screen_text(e[1])) for e in events]
  # all texts ever displayed -> number of separate appearances
  appearances = {}
  for k in range(1, len(events)):
    for t in ev_texts[k] - ev_texts[k - 1]:
      appearances.setdefault(t, []).append(k)

  def vanish_event(t, k):
    for m in range(k + 1, len(events)):
      if t not in ev_texts[m]:
        return m
    return None

  def cells_of(t, k):
    for _, _, cells in R.screen_rows(events[k][1]):
      if R.cells_text(cells) == t:
        return cells
    return None

  def doc_runs(cells, paint=False):
    """maximal runs [b, e) of frames during which a row matching `cells` is visible in the document"""
    ivs = []
    for q in paras:
      for _, spans in q.rows:
        s = "".join(x[0] for x in spans).strip(" ")
        if text_matches(cells, s):
          b = q.b
          if paint:
            b = max([q.b] + [x[1] for x in spans if x[1] is not None])
          ivs.append((b, q.e))
    ivs.sort(key=lambda x: x[0])
    runs = []
    for b, e in ivs:
      if runs and (runs[-1][1] is None or b <= runs[-1][1]):
        if runs[-1][1] is not None and (e is None or e > runs[-1][1]):
          runs[-1][1] = e
      else:
        runs.append([b, e])
    return runs

  # roll-up rows: the CR (or RUx) that opens each row
  roll_rows = []
  trig, started = None, False
  for rec in dec.words:
    if not rec["ch1"] or rec["suppressed"]:
      continue
    if rec["cls"] == "control":
      if rec["name"] in ("RU2", "RU3", "RU4") and rec["mode_before"] != "roll":
        trig, started = rec, False
      elif rec["name"] == "CR" and rec["mode"] == "roll":
        trig, started = rec, False
      elif rec["name"] in ("EDM",) and rec["mode"] == "roll":
        # an erase closes the row; text after it (without CR) is shown as received: no trigger rule
        trig, started = None, False
      elif rec["name"] in ("RCL", "RDC", "EOC"):
        trig, started = None, False
    if rec["mode"] == "roll" and rec.get("row") is not None and rec.get("mem") == "disp":
      if not started:
        started = True
        roll_rows.append({"trigger": trig, "row": rec["row"], "last_w": rec["w"]})
      else:
        roll_rows[-1]["last_w"] = rec["w"]

  roll_final = {}
  for rr in roll_rows:
    scr = dec.screen_after_word(rr["last_w"])
    t = R.row_trim(scr[rr["row"] - 1])
    if t is not None:
      roll_final[R.cells_text(t[1])] = rr

  def is_eoc(rec):
    return rec["cls"] == "control" and rec["name"] == "EOC"

  for t, ks in appearances.items():
    # a pop-on row may be displayed several times: without ENM it stays in the non-displayed memory and returns
    # with a later flip (memory swap); every appearance is then checked against one run of the document, in order
    multi_pop = len(ks) > 1 and all(is_eoc(ev_word[k]) for k in ks)
    if len(ks) != 1 and not multi_pop:
      ctx.count("abstain:row-text-not-unique")
      continue
    cells = cells_of(t, ks[0])
    if cells[-1][4] == "o":
      ctx.count("abstain:row-longer-than-32-columns")
      continue
    finals = []
    for k in ks:
      m = vanish_event(t, k)
      vanish = ev_word[m] if m is not None else None
      # only rows in their final form: they vanish through an erase / flip / roll, or never
      if vanish is None or (vanish["cls"] == "control" and vanish["name"] in ("EDM", "EOC", "CR", "RU2", "RU3", "RU4", "DER")):
        finals.append((k, vanish))
    if len(finals) != len(ks):
      continue
    trigger = ev_word[ks[0]]
    if is_eoc(trigger):
      mode = "pop"
    elif t in roll_final:
      mode = "roll"
    elif trigger["mode"] == "paint":
      mode = "paint"
    else:
      continue
    runs = doc_runs(cells, paint=(mode == "paint"))
    if not runs:
      # never displayed with this text: the settled-screen clause reports it when a settled frame exists
      ctx.count("note:row-never-in-document")
      continue
    if len(runs) != len(ks):
      viol(("row-reappears:" if len(runs) > len(ks) else "row-does-not-return:") + mode,
           "row %r is displayed during %r, the decoder displays it %d time(s) (flips at word frames %r)"
           % (t, runs, len(ks), [ev_word[k]["w"] for k in ks]))
      continue
    if multi_pop:
      ctx.count("clause2:popon-returning-row")
    for (k, vanish), (b, e) in zip(finals, runs):
      trigger = ev_word[k]
      if mode == "pop":
        ctx.count("clause2:popon-begin")
        timed("popon-begin-outside-window", "pop-on row %r appears" % t, b, trigger["w"])
      elif mode == "roll":
        rr = roll_final[t]
        if rr["trigger"] is not None:
          ctx.count("clause3:rollup-begin")
          timed("rollup-begin-outside-window", "roll-up row %r appears" % t, b, rr["trigger"]["w"])
      else:
        # paint-on: complete no later than 2 frames after its last character, not before its line's time code
        ctx.count("clause4:painton-row-complete")
        t_line = case.line_T[trigger["line"]]
        if not (isinstance(b, int) and t_line <= b <= trigger["w"] + 2):
          viol("painton-row-time", "paint-on row %r complete at frame %s, expected within [%d, %d]" % (t, b, t_line, trigger["w"] + 2))
      if vanish is None:
        if e is not None:
          viol("row-ends-but-never-erased:" + mode, "row %r ends at frame %s but the decoder keeps it on display" % (t, e))
      else:
        ctx.count("clause2:popon-end" if mode == "pop" else "clause2:%s-end" % mode)
        if e is None:
          viol("row-never-ends:" + mode, "row %r never ends, the decoder removes it at word frame %d" % (t, vanish["w"]))
        else:
          lo_off = 0
          if vanish["name"] == "DER":
            # PAC + DER on an occupied row: the pair is the trigger (the reader clears the row on the PAC)
            prev = [r for r in dec.words if r["w"] < vanish["w"] and r["ch1"] and not r["suppressed"]][-1:]
            if prev and prev[0]["cls"] == "pac" and prev[0]["line"] == vanish["line"]:
              lo_off = prev[0]["w"] - vanish["w"]
          timed(mode + "-end-outside-window", "%s row %r vanishes" % (mode, t), e, vanish["w"], lo_off)


def check_transmission_frames(ctx, case, paras, viol):
  dec = case.dec
  ev_frames = [e[0] for e in dec.events]
  done = set()
  for rec in dec.words:
    if not rec["ch1"] or rec["suppressed"] or rec["mode"] not in ("roll", "paint"):
      continue
    if rec.get("mem") != "disp" and not (rec["cls"] == "control" and rec["name"] in ("CR", "EDM", "DER", "BS")):
      continue
    F = rec["w"] + 2
    if F in done:
      continue
    done.add(F)
    lo = F - 2
    li = case.line_of_frame(F)
    hi = max(lo, case.line_last[li]) if li is not None else lo
    # candidate reference states: after word lo, and after every later change up to the end of the line
    i0 = bisect.bisect_right(ev_frames, lo + 1) - 1
    i1 = bisect.bisect_right(ev_frames, hi + 1) - 1
    if any(R.has_overflow(dec.events[i][1]) for i in range(i0, i1 + 1)):
      ctx.count("abstain:screen-with-row-longer-than-32-columns")
      continue
    d_rows = doc_rows_at(paras, F)
    ctx.count("clause4:painton-frames" if rec["mode"] == "paint" else "clause3:rollup-frames")
    ok = False
    only_rownum = False
    for i in range(i0, i1 + 1):
      diffs = compare_rows(R.screen_rows(dec.events[i][1]), d_rows, styles=False)
      if not diffs:
        ok = True
        break
      if set(diffs) == {"rownum"}:
        only_rownum = True
    if ok:
      continue
    ref_now = [(r, R.cells_text(c)) for r, _, c in R.screen_rows(dec.events[i0][1])]
    ref_end = [(r, R.cells_text(c)) for r, _, c in R.screen_rows(dec.events[i1][1])]
    what = ("frame %d (2 frames after word %d of line %s): the document shows %r; the decoder shows %r after that word and %r "
            "at the end of the line (and %d states in between)" % (F, rec["idx"], case.lines[rec["line"]]["tc"],
                                                                 [(r, s) for r, s, _ in d_rows], ref_now, ref_end, i1 - i0 - 1))
    # the frame may already lie in the next line (gap < 2 frames): the mode that matters is the one the decoder is in there
    in_roll = rec["mode"] == "roll" or mode_at(case, hi + 1) == "roll"
    if only_rownum and in_roll and any(r["cls"] == "pac" and r["mode"] == "roll" and r.get("pac_row") != 15
                                                     for r in dec.words if r["ch1"] and not r["suppressed"]):
      viol("transmission-rownum:rollup-row", what, finding="F-SCC-ROLLUP-ROW15")
    elif only_rownum:
      viol("transmission-rownum:" + rec["mode"], what)
    else:
      viol("transmission-frame:" + rec["mode"], what)


def selfcheck(case, meta):
  """The reference decoder must display every generated caption row with the intended text (guards the oracle)."""
  shown = {}
  for e in case.dec.events:
    for r, t in R.screen_text(e[1]):
      shown.setdefault(t, set()).add(r)
  for cap in meta["captions"]:
    for row, text in cap["rows"].items():
      t = text.strip(" ")
      if t not in shown:
        raise AssertionError("reference decoder never displays generated row %r (mode %s)" % (t, cap["mode"]))
      if cap["mode"] != "roll" and int(row) not in shown[t]:
        raise AssertionError("reference decoder displays row %r on rows %s, generated for row %s" % (t, shown[t], row))


# ---- driver -----------------------------------------------------------------------------------------------------

def _scc_line(frame, items):
  """items: control code values (transmitted doubled) or strings (character pairs) -> one SCC line at 00:00:ss:ff."""
  ws = []
  for it in items:
    if isinstance(it, int):
      ws += [it, it]
    else:
      it = it if len(it) % 2 == 0 else it + " "
      ws += [(ord(it[k]) << 8) | ord(it[k + 1]) for k in range(0, len(it), 2)]
  return "00:00:%02d:%02d\t%s" % (frame // 30, frame % 30, " ".join("%02x%02x" % (G.parity(w >> 8), G.parity(w & 0xFF)) for w in ws))


def directed_streams():
  """Fixed inputs of the known finding F-SCC-PAC-ONTO-WRITTEN-ROW: a pop-on caption whose last PAC goes back onto a row
  written earlier in the same caption. -> [(name, scc text, mechanisms that belong to the finding)]"""
  head = "Scenarist_SCC V1.0\n\n"
  tail = "\n\n" + _scc_line(200, [G.CTL["EDM"]]) + "\n"
  gap = head + _scc_line(30, [G.CTL["RCL"], G.CTL["ENM"], G.pac(14, indent=0), "ABCD", G.pac(15, indent=0), "EFGH", G.pac(14, indent=8), "IJ",
                              G.CTL["EOC"]]) + tail
  pen = head + _scc_line(30, [G.CTL["RCL"], G.CTL["ENM"], G.pac(14, indent=0, underline=True), "ABCD", G.pac(15, indent=0), "EFGH",
                              G.pac(14, indent=4), "IJ", G.CTL["EOC"]]) + tail
  return [("indent-beyond-the-text", gap, ("settled-text:pop",)), ("pac-attributes-on-continued-row", pen, ("settled-style:underline:pop",))]


def run(ctx, params):
  if params.get("bundled"):
    for name, text, mechs in directed_streams():
      ctx.count("directed:pac-onto-written-row")
      check_stream(ctx, text, None, {"directed": ("F-SCC-PAC-ONTO-WRITTEN-ROW", mechs)}, ctx.tier)
  if params.get("bundled"):
    for name in sorted(os.listdir(BUNDLED_DIR)):
      if name.endswith(".scc"):
        with open(os.path.join(BUNDLED_DIR, name), encoding="utf-8") as f:
          text = f.read()
        for ta in (None, "left", "center", "right"):
          ctx.count("bundled")
          check_stream(ctx, text, ta, None, ctx.tier)
  for i in range(params["first"], params["first"] + params["count"]):
    rng = ctx.rng("stream", i)
    overrides = {}
    if ctx.tier == "quick":
      overrides["max_captions"] = 40
    text, meta = G.gen_stream(rng, ctx.tier, **overrides)
    check_stream(ctx, text, meta["opts"]["text_align"], meta, ctx.tier)


def replay(ctx, payload):
  check_stream(ctx, payload["text"], payload.get("text_align"), None, "quick")


def finalize(tier, counters):
  return {"clauses_evaluated": {k: v for k, v in counters.items() if k.startswith("clause")},
          "abstentions": {k: v for k, v in counters.items() if k.startswith("abstain")}}
