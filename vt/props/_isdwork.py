"""Shared workload for the snapshot properties (C01, C03, C13): generated documents x probe times, real
ISD.from_model (uncached and with SignificantTimes) observed by the oracles of vt/mon/isdcheck.py."""
from __future__ import annotations

import collections
import traceback
from fractions import Fraction

from vt import core
from vt.gen import model_docs
from vt.mon import isdcheck
from vt.ref import absdoc, build, isd as refisd


def probe_times(adoc, rng, n_random=4, dense=True):
  bs = refisd.boundaries(adoc)
  times = set()
  if not bs:
    return [Fraction(0), Fraction(1)]
  gaps = [b - a for a, b in zip(bs, bs[1:]) if b > a]
  delta = min(gaps) / 2 if gaps else Fraction(1, 2)
  for b in bs:
    times.add(b)
    if dense:
      times.add(b + delta)
      if b - delta >= 0:
        times.add(b - delta)
  times.add(bs[-1] + 1)
  if bs[0] > 0:
    times.add(bs[0] / 2)
  for _ in range(n_random):
    times.add(Fraction(rng.randrange(0, 9000), 1000))
  return sorted(times)


def exc_site(e: BaseException) -> str:
  """innermost ttconv frame of an exception: module.function"""
  site = "?"
  for fs in traceback.extract_tb(e.__traceback__):
    if "/ttconv/" in fs.filename:
      site = fs.filename.split("/ttconv/")[-1].replace(".py", "").replace("/", ".") + "." + fs.name
  return f"{type(e).__name__}:{site}"


def run_corpus(ctx, params, props):
  """Documents returned by the readers on bundled files: snapshots of documents nobody designed for the monitors."""
  import os
  from vt.props import c07
  cmp_counters = collections.Counter()
  for path in params["files"]:
    doc = c07.read_file(path)
    if doc is None:
      continue
    ctx.count("corpus-docs")
    rng = ctx.rng("corpus", path)
    adoc = absdoc.snap_doc(doc)
    times = probe_times(adoc, rng, n_random=1, dense=False)
    if len(times) > 24:
      times = times[:12] + times[-12:]
    check_doc(ctx, None, rng, props, (), cmp_counters, times=times, live_doc=doc, file=os.path.relpath(path, core.REPO))
  for k, v in cmp_counters.items():
    ctx.count(k, v)


def corpus_shards(tier, nshards=2):
  from vt.props import c07
  files = c07.corpus(tier)
  return [{"kind": "corpus", "files": files[i::nshards]} for i in range(nshards)]


def run_docs(ctx: core.Ctx, params, props, profile="isd"):
  """params: {"n": docs, "shard": i}. props: subset of {"C01","C03","C13"} to judge."""
  from ttconv.isd import ISD
  if params.get("kind") == "corpus":
    run_corpus(ctx, params, props)
    return
  n = params["n"]
  focus_cycle = model_docs.ALL_PROPS
  cmp_counters = collections.Counter()
  for i in range(n):
    rng = ctx.rng("doc", params["shard"], i)
    focus = focus_cycle[(params["shard"] * n + i) % len(focus_cycle)] if profile == "style" else None
    adoc0, classes = model_docs.generate(rng, profile, focus, p_uspace=0.12 if i % 3 == 0 else 0.0)
    check_doc(ctx, adoc0, rng, props, classes, cmp_counters)
  for k, v in cmp_counters.items():
    ctx.count(k, v)


def check_doc(ctx, adoc0, rng, props, classes=(), cmp_counters=None, times=None, replay_mode=False, live_doc=None, file=None):
  from ttconv.isd import ISD
  if live_doc is not None:
    doc = live_doc
    payload_doc = None
  else:
    payload_doc = build.dumps(adoc0)
    try:
      doc = build.build_doc(adoc0)
    except Exception as e:  # pylint: disable=broad-except
      ctx.notes.append(f"generator produced a document the model API rejects: {type(e).__name__}: {e}")
      ctx.count("gen:rejected")
      return
  adoc = absdoc.snap_doc(doc)
  if payload_doc is None:
    payload_doc = build.dumps(adoc)
  for c in classes:
    ctx.count("class:" + c)
  source_ids = isdcheck.source_object_ids(doc) if "C13" in props else None
  try:
    sig = ISD.significant_times(doc)
  except Exception as e:  # pylint: disable=broad-except
    sig = None
    if "C01" in props:
      ctx.violation("significant_times-raises:" + exc_site(e), f"significant_times raised {type(e).__name__}: {e}",
                    {"doc": payload_doc, "t": None})
  if times is None:
    times = probe_times(adoc, rng)
  nontrivial = False
  for t in times:
    refi = refisd.compute_isd(adoc, t)
    for mode in ("plain", "cached"):
      if mode == "cached" and sig is None:
        continue
      ctx.ev()
      ctx.count("snapshots:" + mode)
      rp = {"doc": payload_doc, "t": f"{t.numerator}/{t.denominator}", "mode": mode, "file": file}
      try:
        isd = ISD.from_model(doc, t) if mode == "plain" else ISD.from_model(doc, t, sig)
      except Exception as e:  # pylint: disable=broad-except
        ctx.count("from_model-raised")
        if "C01" in props:
          ctx.violation("from_model-raises:" + exc_site(e), f"ISD.from_model(doc, {t}) [{mode}] raised {type(e).__name__}: {e}", rp,
                        finding=classify_c01_raise(e, adoc))
        continue
      obs = absdoc.snap_isd(isd)
      diffs01, pairs = isdcheck.check_c01(refi, obs)
      if any(r.children for r in obs.regions):
        nontrivial = True
        ctx.count("snapshots:non-empty")
        ctx.nontriv(("snap", payload_doc, str(t), mode))
      if t in refisd.boundaries(adoc):
        ctx.count("probe-on-boundary")
      if "C01" in props:
        for mech, msg in diffs01[:3]:
          ctx.violation("c01:" + mech, f"t={t} [{mode}]: {msg}", rp)
      if diffs01:
        ctx.count("structure-mismatch")
        if "C13" in props:
          for mech, msg in isdcheck.check_c13(obs, adoc, None, isd, source_ids)[:3]:
            ctx.violation("c13:" + mech, f"t={t} [{mode}]: {msg}", rp, finding=classify_c13(mech))
        continue
      if "C03" in props:
        for mech, msg in isdcheck.check_c03(pairs, cmp_counters)[:4]:
          ctx.violation("c03:" + mech, f"t={t} [{mode}]: {msg}", rp, finding=classify_c03(mech, msg))
      if "C13" in props:
        ds = isdcheck.check_c13(obs, adoc, refi, isd, source_ids) + isdcheck.check_ws(pairs)
        ctx.count("c13:nodes", sum(1 for r in obs.regions for _ in r.walk()))
        for mech, msg in ds[:4]:
          ctx.violation("c13:" + mech, f"t={t} [{mode}]: {msg}", rp, finding=classify_c13(mech))
  if nontrivial and len(ctx.samples) < 3:
    ctx.sample({"doc_elements": sum(1 for _ in (adoc.body.walk() if adoc.body else [])), "regions": [r.id for r in adoc.regions],
                "probe_times": [str(t) for t in times[:12]], "classes": sorted(classes)})


def classify_c01_raise(e, adoc):
  return None


def classify_c03(mech, msg):
  return None


def classify_c13(mech):
  return None


def replay_doc(ctx, payload, props):
  adoc0 = build.loads(payload["doc"])
  t = payload.get("t")
  times = [Fraction(t)] if t else None
  check_doc(ctx, adoc0, ctx.rng("replay"), props, times=times, replay_mode=True)
