"""C04 - reading IMSC/TTML XML follows TTML timing, styling and white-space semantics.

Oracle: for an XML document X the reference interpreter vt/ref/ttml.py (written from TTML2 / IMSC 1.1) yields an AbsDoc
A_ref; ttconv reads X (imsc.reader.to_model) and is snapshotted into A_obs (absdoc.snap_doc).  Both are viewed through the
SAME reference ISD construction (vt/ref/isd.py) at every boundary instant of either document (+- delta, before the first,
after the last): the views must agree (c05.compare_ref).  Document parameters are compared directly.
Robustness clause: X' = X with ONE attribute value replaced by a malformed value (or one unknown attribute added) must be read
without an exception, must present like X with that attribute removed, and - malformed values of known attributes only -
must produce a log record of level >= WARNING from a ttconv.imsc.* logger that reading X-without-the-attribute does not."""
from __future__ import annotations

import collections
import copy
import glob
import os
import xml.etree.ElementTree as et
from fractions import Fraction

from vt import core
from vt.gen import ttml as gen
from vt.mon import isdcheck, logs
from vt.props import c05
from vt.props._isdwork import exc_site
from vt.ref import absdoc, isd as refisd, ttml as ref

ID = "C04"
RULE = ("XML documents from vt/gen/ttml.py (IMSC vocabulary: every element kind incl. ruby containers, metadata, set, initial, nested and "
        "referenced styles with chains <= 4 / diamonds / missing and repeated references; begin/dur/end in every combination and every time "
        "expression syntax under 7 frame rates and 4 tick rates; par / seq containers nested to depth 4 incl. offset containers with "
        "implicit end; mixed content with and without pretty-printing white space; xml:space / xml:lang mixes; every style attribute value "
        "drawn from the value tables of vt/ref/ttml.py), <= 60 elements, plus the bundled .ttml files; each compared with the reference "
        "reader through the reference ISD at all boundary instants of both documents; and single-attribute corruptions of such documents "
        "(malformed value from a per-type pool, or an unknown attribute). Non-trivial: the reference ISD is non-empty at some probe "
        "instant; distinct = distinct XML texts")
ASSUMPTIONS = [
  "trusted base: vt/ref/isd.py (reference ISD, validated against ISD.from_model by C01/C03/C13) and absdoc.snap_doc; xml.etree parsing",
  "the reader does not keep xml:id of content elements: content ids are stripped on both sides (region ids are compared)",
  "white-space-only character content of p/span under xml:space=default: whether it is an anonymous span for TIMING (implicit duration) "
  "is not judged - the reader may agree with either reading; likewise whether a `set` child takes part in the implicit duration of its "
  "parent (both readings of SMIL endsync accepted)",
  "not generated / not judged: precedence among several conflicting nested style children of one region or several initial elements for "
  "one property; `set` / `br` as a direct child of a sequential container drawn at random (`br` and `set` there are judged, but only on the 108 enumerated documents of directed_docs(), never drawn at random); the `t` metric without ttp:tickRate (documents "
  "that need it after the removal of a corrupted attribute are skipped; frames without ttp:frameRate use the TTML2 default of 30); both ittp:aspectRatio and "
  "ttp:displayAspectRatio; end < begin where the implicit duration of a container or the begin of a seq sibling would depend on it; "
  "dangling region references; regions without xml:id; duplicate xml:id; tts:ruby by referential styling; set with several style "
  "attributes; sub-frames; wallclock / non-media time bases; style reference loops (only 'does not raise' is demanded)",
  "value syntax abstentions (never generated, neither as valid nor as malformed): tts:textAlign left/right (mapping depends on the "
  "writing mode), justify; opacity outside [0,1]; colour component values > 255; upper-case named colours; white space inside rgb()/rgba(); "
  "exponents in numbers; several white-space characters between the components of a value; filled/open without a symbol and textEmphasis without a style; two-component tts:fontSize; escapes in font "
  "family names; minutes/seconds > 59 in clock times",
  "white-space-only text inside ruby containers (container / baseContainer / textContainer) is ignored",
  "px lengths are only generated when tt carries tts:extent; when the root extent is absent or was the corrupted attribute the pixel "
  "resolution is not judged",
  "'reported through logging' is demanded for malformed values of known attributes only (a record >= WARNING from ttconv.imsc.* that is "
  "not emitted for the document without the attribute), not for unknown attributes",
  "GenericFontFamilyType.default is equivalent to monospaceSerif (IMSC 1.1)",
]
REQUIRED = ["docs:compared", "corrupt:malformed:judged", "corrupt:unknown:judged", "bundled:compared", "snapshots:compared",
            "class:offset-container-implicit-duration", "class:seq", "class:seq-in-seq", "class:par-in-seq", "class:seq-child-after-sibling",
            "class:timing:bde", "class:timing:bd", "class:timing:de", "class:timing:d", "class:set", "class:region-timing",
            "class:nested-style", "class:initial", "class:style-chain-4", "class:gen:style-diamond", "class:style-missing-ref",
            "class:style-dup-ref", "class:inline-over-referential", "class:inline-over-nested", "class:nested-over-referential",
            "class:ruby", "class:preserve", "class:ws-only-text", "class:text-in-seq",
            "class:tf:clock", "class:tf:clock-fraction", "class:tf:clock-frames", "class:tf:offset-h", "class:tf:offset-m", "class:tf:offset-s",
            "class:tf:offset-ms", "class:tf:offset-f", "class:tf:offset-t", "class:tf:offset-fraction",
            "class:gen:fps-24", "class:gen:fps-25", "class:gen:fps-30", "class:gen:fps-50", "class:gen:fps-60", "class:gen:fps-30-ntsc",
            "class:gen:fps-24-ntsc", "class:gen:tickrate-1", "class:gen:tickrate-1000", "class:gen:tickrate-90000", "class:gen:tickrate-10000000"]
SHARD_TIMEOUT = {"quick": 900, "thorough": 7200}
N_DOCS = {"quick": 50, "thorough": 1900}
N_CORR = {"quick": 50, "thorough": 1900}
MAX_PROBES = 56
RTOL = 1e-9
BUNDLED = os.path.join(core.REPO, "src/test/resources/ttml")


def plan(tier, seed):
  return [{"docs": N_DOCS[tier], "corruptions": N_CORR[tier], "shard": i, "bundled": i == 0} for i in range(16)]


# ------------------------------------------------------------------------------------------------------------------
# the two readers
# ------------------------------------------------------------------------------------------------------------------
def read_obs(xml: str):
  """ttconv reads `xml` -> (AbsDoc | None, exception | None, log records)"""
  import ttconv.imsc.reader as imsc_reader
  doc, exc = None, None
  with logs.capture("ttconv") as records:
    try:
      doc = imsc_reader.to_model(et.ElementTree(et.fromstring(xml)))
    except Exception as e:  # pylint: disable=broad-except
      exc = e
  if exc is not None:
    return None, exc, records
  if doc is None:
    return None, None, records
  return absdoc.snap_doc(doc), None, records


def read_ref(xml: str):
  """Reference reading under every combination of the abstention options -> (list of distinct AbsDoc, Info of the first).
  Raises ref.Unsupported (carrying `.blocked`: the elements that can never begin under some supported reading)."""
  out, info0 = [], None
  seen = []
  blocked = set()
  unsupported = None
  for ws in (True, False):
    for sc in (True, False):
      try:
        d, info = ref.interpret(et.fromstring(xml), ws_counts=ws, set_counts=sc)
      except ref.Unsupported as u:
        unsupported = unsupported or u
        continue
      blocked |= info.blocked
      if info0 is None:
        info0 = info
      key = fingerprint(d)
      if key not in seen:
        seen.append(key)
        out.append(d)
  if unsupported is not None:
    unsupported.blocked = blocked
    raise unsupported
  info0.blocked = blocked
  return out, info0


def fingerprint(a: absdoc.AbsDoc):
  def fe(e):
    return (e.kind, e.begin, e.end, e.region_id, tuple(sorted((k, repr(v)) for k, v in e.styles.items())), tuple(repr(x) for x in e.anims),
            e.space, e.lang, e.text, tuple(fe(c) for c in e.children))
  return (a.params(), tuple(sorted((k, repr(v)) for k, v in a.initials.items())), tuple(fe(r) for r in a.regions),
          None if a.body is None else fe(a.body))


# ------------------------------------------------------------------------------------------------------------------
# comparison
# ------------------------------------------------------------------------------------------------------------------
def probe_times(a: absdoc.AbsDoc, b: absdoc.AbsDoc):
  bs = sorted(set(refisd.boundaries(a)) | set(refisd.boundaries(b)))
  if not bs:
    return [Fraction(0), Fraction(1)]
  gaps = [y - x for x, y in zip(bs, bs[1:]) if y > x]
  delta = min(gaps) / 2 if gaps else Fraction(1, 2)
  first = list(bs) + [bs[-1] + 1]
  if bs[0] > 0:
    first.append(bs[0] / 2)
  second = [x + delta for x in bs] + [x - delta for x in bs if x - delta >= 0]
  out = []
  for t in first + second:
    if t not in out:
      out.append(t)
  if len(out) > MAX_PROBES:
    # keep every boundary instant first, then as many neighbours as fit (deterministic)
    out = out[:MAX_PROBES]
  return sorted(out)


def params_diff(r: absdoc.AbsDoc, o: absdoc.AbsDoc, root_extent: bool):
  if r.lang != o.lang:
    return ("param:lang", f"document language {r.lang!r} vs {o.lang!r}")
  if tuple(r.cell) != tuple(o.cell):
    return ("param:cell-resolution", f"cell resolution (rows, columns) {r.cell} vs {o.cell}")
  if root_extent and tuple(r.px) != tuple(o.px):
    return ("param:px-resolution", f"pixel resolution {r.px} vs {o.px}")
  if (r.active_area is None) != (o.active_area is None) or (r.active_area is not None and not all(
      isdcheck.num_eq(x, y, RTOL) for x, y in zip(r.active_area, o.active_area))):
    return ("param:active-area", f"active area {r.active_area} vs {o.active_area}")
  if (r.dar is None) != (o.dar is None) or (r.dar is not None and not isdcheck.num_eq(r.dar, o.dar, RTOL)):
    return ("param:aspect-ratio", f"display aspect ratio {r.dar} vs {o.dar}")
  return None


def view_diff(r: absdoc.AbsDoc, o: absdoc.AbsDoc, counter=None):
  """First difference of the two documents seen through the reference ISD: (category, message, t) or None; also whether
  some view was non-empty."""
  nonempty = False
  for t in probe_times(r, o):
    ra, rb = refisd.compute_isd(r, t), refisd.compute_isd(o, t)
    if counter is not None:
      counter["snapshots:compared"] += 1
    if any(x.children for x in ra.regions):
      nonempty = True
    d = c05.compare_ref(ra, rb)
    if d is not None:
      return (d[0], f"t={t}: reference vs ttconv: {d[1]}", t), nonempty
  return None, nonempty


def form_tag(prop, plain_value) -> str:
  """tag of the syntactic form (vt/ref/ttml.py VALUES) that yields this plain value, '' if ordinary"""
  for q, p in ref.PROP_OF.items():
    if p == prop:
      for _s, v, t in ref.VALUES[q]:
        if t and v == plain_value:
          return "[" + t + "]"
  return ""


def prune_dead(e: absdoc.AbsEl):
  """drops elements whose interval is empty (never presented; the reader may legitimately drop them)"""
  e.children = [c for c in e.children if c.kind == "Text" or not (c.end is not None and c.end <= (c.begin or 0))]
  for c in e.children:
    prune_dead(c)


def abs_diff(r: absdoc.AbsDoc, o: absdoc.AbsDoc, cat: str):
  """Cheap direct diagnosis of the field in which the two AbsDocs differ; only used to NAME the mechanism: returns
  (mechanism class, detail).  For a style category the first difference in that property is looked for (then in any property);
  for the other categories the first timing / structure difference (then any style difference)."""
  want0 = cat.split(":", 1)[1] if cat.startswith("style:") else None

  def val_eq(p, a, b):
    return c05.equiv_value(p, a, b) if p == "FontFamily" else isdcheck.pequal(a, b, RTOL)

  def fam(kind):
    return "region" if kind == "Region" else "ruby" if kind in ("Ruby", "Rb", "Rt", "Rp", "Rbc", "Rtc") else "content"

  def walk(want, do_styles, do_timing):
    def styles(x, y):
      src = getattr(x, "_src", {})
      for p in sorted(set(x.styles) | set(y.styles)):
        if want is not None and p != want:
          continue
        if p not in x.styles:
          return ("style-association:specified-extra", f"{x.kind} {p}")
        tag = form_tag(p, x.styles[p])
        if src.get(p) == "referenced-by-nested":
          tag = ""      # the whole reference is at stake, not the syntax of one value
        if p not in y.styles:
          return (f"value-syntax:{p}{tag}" if tag else f"style-association:specified-missing:{src.get(p, '?')}", f"{x.kind} {p}")
        if not val_eq(p, x.styles[p], y.styles[p]):
          return (f"value-syntax:{p}{tag}" if tag else f"style-association:specified-value:{src.get(p, '?')}", f"{x.kind} {p}")
      ax = [a for a in x.anims if want is None or a[0] == want]
      ay = [a for a in y.anims if want is None or a[0] == want]
      if len(ax) != len(ay):
        lost = [a for a in ax if not any(a[0] == b[0] and val_eq(a[0], a[3], b[3]) for b in ay)]
        tag = form_tag(lost[0][0], lost[0][3]) if lost else ""
        return (f"value-syntax:{lost[0][0]}{tag}" if tag else "style-association:set-count", f"set on {x.kind}")
      for (p1, b1, e1, v1), (p2, b2, e2, v2) in zip(ax, ay):
        if p1 != p2 or not val_eq(p1, v1, v2):
          tag = form_tag(p1, v1)
          return (f"value-syntax:{p1}{tag}" if tag else "style-association:set-value", f"set {p1} on {x.kind}")
        if (b1 or 0) != (b2 or 0) or e1 != e2:
          return ("timing:set", f"set {p1} on {x.kind}: [{b1}, {e1}) vs [{b2}, {e2})")
      return None

    def el(x, y, ctx):
      if x.kind != y.kind:
        return ("structure:kind", f"{x.kind} vs {y.kind}")
      if x.kind == "Text":
        return None if (not do_timing or x.text == y.text) else ("text", f"{x.text!r} vs {y.text!r}")
      if do_timing:
        if x.kind != "Br":
          if (x.begin or 0) != (y.begin or 0):
            return (f"timing:begin:{fam(x.kind)}{ctx}", f"{x.kind} begin {x.begin} vs {y.begin}")
          if x.end != y.end:
            return (f"timing:end:{fam(x.kind)}{ctx}", f"{x.kind} end {x.end} vs {y.end}")
          if x.space != y.space:
            return ("space", f"{x.kind} xml:space {x.space} vs {y.space}")
          if x.lang != y.lang:
            return ("lang", f"{x.kind} xml:lang {x.lang!r} vs {y.lang!r}")
        if x.region_id != y.region_id:
          return ("region-ref", f"{x.kind} region {x.region_id} vs {y.region_id}")
      if do_styles:
        d = styles(x, y)
        if d:
          return d
      if len(x.children) != len(y.children):
        return (f"structure:children-{'fewer' if len(y.children) < len(x.children) else 'more'}:{fam(x.kind)}{ctx}",
                f"{x.kind} children {[c.kind for c in x.children]} vs {[c.kind for c in y.children]}")
      sub = "-in-seq" if getattr(x, "_seq", False) else ""
      for a, b in zip(x.children, y.children):
        d = el(a, b, sub)
        if d:
          return d
      return None
    if do_styles:
      for p in sorted(set(r.initials) | set(o.initials)):
        if want is not None and p != want:
          continue
        if p not in r.initials or p not in o.initials or not val_eq(p, r.initials[p], o.initials[p]):
          tag = form_tag(p, r.initials[p]) if p in r.initials else ""
          return (f"value-syntax:{p}{tag}" if tag else "style-association:initial", f"initial {p}")
    if [x.id for x in r.regions] != [x.id for x in o.regions]:
      return ("regions", f"region ids {[x.id for x in r.regions]} vs {[x.id for x in o.regions]}")
    for x, y in zip(r.regions, o.regions):
      d = el(x, y, "")
      if d:
        return d
    if (r.body is None) != (o.body is None):
      return ("structure:body-presence", "")
    if r.body is not None:
      d = el(r.body, o.body, "")
      if d:
        return d
    return None
  if r.body is not None and o.body is not None:
    prune_dead(r.body)
    prune_dead(o.body)
  if want0 is not None:
    return walk(want0, True, False) or walk(None, True, False) or walk(None, False, True) or (cat + "/no-direct-difference", "")
  return walk(None, False, True) or walk(None, True, False) or (cat + "/no-direct-difference", "")


def compare(refs, obs, root_extent, counter=None):
  """obs must agree with at least one reference variant.  -> (None | (cat, msg, t), nonempty)"""
  first = None
  nonempty = False
  for vi, r in enumerate(refs):
    r2, o2 = copy.deepcopy(r), copy.deepcopy(obs)
    if not root_extent:
      r2.px = o2.px
    d = params_diff(r2, o2, root_extent)
    ne = False
    if d is None:
      c05.strip_ids(r2)
      c05.strip_ids(o2)
      d, ne = view_diff(r2, o2, counter)
      if d is not None:
        mech, detail = abs_diff(r2, o2, d[0])
        d = (mech, d[1] + (f" [first direct difference: {detail}]" if detail else ""), d[2])
    nonempty = nonempty or ne
    if d is None:
      if counter is not None and len(refs) > 1:
        counter["variants:agreed-with-%d-of-%d" % (vi + 1, len(refs))] += 1
      return None, nonempty
    if first is None:
      first = d
  return first, nonempty


# ------------------------------------------------------------------------------------------------------------------
# shrinking of a violating document (witness only; the mechanism key never depends on it)
# ------------------------------------------------------------------------------------------------------------------
for _p, _ns in list(ref.PREFIX.items()) + [("foo", "urn:example:foo")]:
  if _p not in ("xml", "tt"):
    et.register_namespace(_p, _ns)
et.register_namespace("", ref.NS_TT)


def shrink(xml: str, pred, budget=140) -> str:
  """Greedy removal of elements, attributes and text while pred(xml) stays true."""
  best = xml
  used = [0]

  def attempt(mutate):
    if used[0] >= budget:
      return False
    root = et.fromstring(best)
    if not mutate(root):
      return False
    used[0] += 1
    cand = et.tostring(root, encoding="unicode")
    try:
      ok = pred(cand)
    except Exception:  # pylint: disable=broad-except
      ok = False
    return cand if ok else False
  progress = True
  while progress and used[0] < budget:
    progress = False
    n_el = sum(1 for _ in et.fromstring(best).iter())
    for i in range(n_el - 1, 0, -1):
      def rm(root, i=i):
        els = list(root.iter())
        if i >= len(els):
          return False
        parent = next((p for p in els if els[i] in list(p)), None)
        if parent is None:
          return False
        parent.remove(els[i])
        return True
      c = attempt(rm)
      if c:
        best, progress = c, True
    els = list(et.fromstring(best).iter())
    for i, e in enumerate(els):
      for name in list(e.attrib):
        def rma(root, i=i, name=name):
          x = list(root.iter())[i]
          if name not in x.attrib:
            return False
          del x.attrib[name]
          return True
        c = attempt(rma)
        if c:
          best, progress = c, True
      for field in ("text", "tail"):
        if getattr(e, field):
          def rmt(root, i=i, field=field):
            x = list(root.iter())[i]
            if not getattr(x, field):
              return False
            setattr(x, field, None)
            return True
          c = attempt(rmt)
          if c:
            best, progress = c, True
  return best


# ------------------------------------------------------------------------------------------------------------------
# checks
# ------------------------------------------------------------------------------------------------------------------
def judge_doc(xml: str, counter=None):
  """-> (status, key, message, info, nonempty).  status in ok / violation / skipped"""
  obs, exc, _records = read_obs(xml)
  try:
    refs, info = read_ref(xml)
  except ref.Unsupported as u:
    if exc is not None:
      return "violation", "raises:" + exc_site(exc), f"reader raised {type(exc).__name__}: {exc}", None, False
    return "skipped", "unsupported:" + str(u), "", None, False
  if exc is not None:
    return "violation", "raises:" + exc_site(exc), f"reader raised {type(exc).__name__}: {exc}", info, False
  if obs is None:
    return "violation", "returns-none", "reader returned None for a tt document", info, False
  if info.style_loop:
    return "skipped", "style-loop", "", info, False
  d, nonempty = compare(refs, obs, info.root_extent, counter)
  if d is None:
    return "ok", "", "", info, nonempty
  return "violation", "snapshot:" + d[0], d[1], info, nonempty


def check_doc(ctx, xml: str, classes=(), source="gen", do_shrink=True, witness=None):
  ctx.ev()
  counter = collections.Counter()
  status, key, msg, info, nonempty = judge_doc(xml, counter)
  for k, v in counter.items():
    ctx.count(k, v)
  if info is not None:
    for c in info.classes:
      ctx.count("class:" + c)
    for c in info.time_forms:
      ctx.count("class:tf:" + c)
  for c in classes:
    ctx.count("class:" + c)
  if status == "skipped":
    ctx.count("docs:skipped:" + key)
    return status
  ctx.count("docs:compared" if not key.startswith("raises") else "docs:raised")
  if nonempty:
    ctx.nontriv(xml)
    ctx.count("docs:nontrivial")
  if status == "ok":
    if nonempty and source == "gen" and sum(1 for x in ctx.samples if x.get("kind") == "doc") < 2:
      ctx.sample({"kind": "doc", "elements": info.elements, "xml_head": xml[450:1100]})
    return status
  witness = witness or xml
  if do_shrink and ctx.violation_counts[key] < 2:
    cat = key
    witness = shrink(xml, lambda c: judge_doc(c)[1] == cat)
  ctx.violation(key, f"{msg}\nminimal witness: {witness[witness.find('<tt'):]}", {"kind": "doc", "xml": xml, "witness": witness})
  return status


def raise_key(exc, kind, typ) -> str:
  """Mechanism key of an exception raised while reading a corrupted document: the exception class and the innermost ttconv
  function (qualified).  An exception out of the element processing of imsc/elements.py is not about parsing the corrupted
  value: it gets the same key as for an uncorrupted document."""
  qual, fname = "?", ""
  tb = exc.__traceback__
  while tb is not None:
    code = tb.tb_frame.f_code
    if "/ttconv/" in code.co_filename:
      qual, fname = getattr(code, "co_qualname", code.co_name), code.co_filename
    tb = tb.tb_next
  if fname.endswith("imsc/elements.py") and "ParsingContext.process" in qual:
    return "raises:" + exc_site(exc)
  return f"{kind}-raises:{typ}:{type(exc).__name__}:{qual}"


def new_records(rec_c, rec_0):
  """records (>= WARNING, ttconv.imsc.*) emitted for X' beyond those emitted for X0 (multiset difference)"""
  c = collections.Counter((n, m) for n, _l, m in rec_c if n.startswith("ttconv.imsc"))
  c.subtract(collections.Counter((n, m) for n, _l, m in rec_0 if n.startswith("ttconv.imsc")))
  return [k for k, v in c.items() if v > 0]


def check_corruption(ctx, c: dict):
  """c: dict(xml, xml_removed, attr, value, known, type, shape, element)"""
  ctx.ev()
  kind = "malformed" if c["known"] else "unknown"
  tag = f"{c['type']}:{c['shape']}"
  desc = f"{c['element']}/@{c['attr']}={c['value']!r}"
  payload = dict(c, kind="corrupt")
  ctx.count(f"corrupt:{kind}:cases")
  ctx.count(f"corrupt-type:{c['type']}")
  obs0, exc0, rec0 = read_obs(c["xml_removed"])
  obs1, exc1, rec1 = read_obs(c["xml"])
  if exc0 is not None or obs0 is None:
    ctx.count("corrupt:base-raises")     # the uncorrupted document already fails: reported by the document check
    return
  if exc1 is not None:
    ctx.count(f"corrupt:{kind}:judged")
    ctx.nontriv(c["xml"])
    ctx.violation(raise_key(exc1, kind, c["type"]), f"{desc} ({c['shape']}): reader raised {type(exc1).__name__}: {exc1}", payload)
    return
  if obs1 is None:
    ctx.count(f"corrupt:{kind}:judged")
    ctx.violation(f"{kind}-returns-none:{tag}", f"{desc}: reader returned None", payload)
    return
  try:
    refs, info = read_ref(c["xml_removed"])
  except ref.Unsupported as u:
    ctx.count("corrupt:skipped:" + str(u))
    refs = None
    blocked = getattr(u, "blocked", set())
  else:
    blocked = info.blocked
  judged = False
  differs = None
  if refs is not None and not info.style_loop:
    root_extent = info.root_extent and c["type"] != "ttExtent"
    d0, _ne = compare(refs, obs0, root_extent)
    if d0 is not None:
      ctx.count("corrupt:base-differs")  # the uncorrupted document already differs: reported by the document check
    else:
      counter = collections.Counter()
      differs, nonempty = compare(refs, obs1, root_extent, counter)
      ctx.count("snapshots:compared", counter["snapshots:compared"])
      judged = True
      if nonempty:
        ctx.nontriv(c["xml"])
      if differs is None and len(ctx.samples) < 4 and nonempty:
        ctx.sample({"kind": "corruption", "attr": desc, "logged": [m for _n, m in new_records(rec1, rec0)][:2]})
  if c.get("element_index") in blocked:
    # the attribute sits on an element that can never begin (after a seq sibling that never ends): a reader may skip it unread
    ctx.count("corrupt:skipped:log-clause-on-blocked-element")
    if judged:
      ctx.count(f"corrupt:{kind}:judged")
    return
  logged = bool(new_records(rec1, rec0))
  changed = "" if differs is None else f"; it is NOT ignored - the presentation differs from the document without the attribute: {differs[1]}"
  if not c["known"]:
    if differs is not None:
      ctx.violation(f"unknown-attribute-changes-meaning:{c['shape']}", f"{desc}{changed}", payload)
  else:
    judged = True
    if not logged:
      # one mechanism (the value is accepted by the parser); whether it shows depends on where the attribute sits
      ctx.violation(f"malformed-accepted:{tag}", f"{desc}: no log record >= WARNING from ttconv.imsc.* beyond those of the document without "
                    f"the attribute{changed}", payload)
    elif differs is not None:
      ctx.violation(f"malformed-reported-but-applied:{tag}", f"{desc} is reported{changed}", payload)
  if judged:
    ctx.count(f"corrupt:{kind}:judged")


def directed_docs():
  """br children of sequential containers (zero implicit duration: the siblings after them keep their place in the
  sequence) - enumerated rather than drawn so that the random stream of the generated documents is unchanged (s-C04-13)"""
  head = ('<?xml version="1.0" encoding="UTF-8"?>\n<tt xml:lang="en" xmlns="http://www.w3.org/ns/ttml" '
          'xmlns:tts="http://www.w3.org/ns/ttml#styling"><head><layout><region xml:id="r1"/></layout></head><body>')
  tail = '</body></tt>'
  a, b, c = '<span dur="1s">A</span>', '<span dur="2s">B</span>', '<span begin="1s" end="3s">C</span>'
  s0, s1, s2 = '<set tts:color="red"/>', '<set tts:color="blue" dur="2s"/>', '<set tts:opacity="0.5" begin="1s" end="4s"/>'
  for pattrs in ('', ' begin="10s"', ' begin="2s" dur="20s"'):
    for kids in (a + '<br/>' + b, '<br/>' + a + b, a + b + '<br/>', a + '<br/><br/>' + c, '<br/>' + c + '<br/>' + a,
                 a + '<br tts:color="red"/>' + c + b,
                 s0 + b, s1 + a + b, s0 + s1 + c, s2 + a, s1 + s2 + b + a, s0 + '<br/>' + s1 + c):
      yield f'{head}<div><p region="r1" timeContainer="seq"{pattrs}>{kids}</p></div>{tail}'
      yield (f'{head}<div><p region="r1"{pattrs}><span timeContainer="seq">{kids}</span>'
             f'<span begin="1s">Z</span></p></div>{tail}')
      yield (f'{head}<div timeContainer="seq"><p region="r1" dur="1s">X</p><p region="r1" timeContainer="seq"{pattrs}>'
             f'{kids}</p><p region="r1" dur="2s">Y</p></div>{tail}')


def run(ctx, params):
  sh = params["shard"]
  if params.get("bundled"):
    files = sorted(glob.glob(os.path.join(BUNDLED, "**", "*.ttml"), recursive=True))
    for f in files:
      with open(f, encoding="utf-8") as fh:
        xml = fh.read()
      st = check_doc(ctx, xml, source="bundled")
      ctx.count("bundled:compared" if st != "skipped" else "bundled:skipped")
    for xml in directed_docs():
      check_doc(ctx, xml, ("directed:br-in-seq",), source="directed")
      ctx.count("directed:docs")
  else:
    ctx.count("bundled:compared", 0)
  for i in range(params["docs"]):
    rng = ctx.rng("doc", sh, i)
    xml, _root, _pretty, classes = gen.generate(rng)
    check_doc(ctx, xml, classes)
  types = sorted(gen.MALFORMED)
  made = 0
  i = 0
  while made < params["corruptions"] and i < params["corruptions"] * 20:
    rng = ctx.rng("corrupt", sh, i)
    i += 1
    _xml, root, pretty, _classes = gen.generate(rng)
    # round-robin over attribute types so that each type is corrupted in every shard; every fifth case adds an unknown attribute
    want = "unknown-attribute" if made % 5 == 4 else types[(made // 5 * 4 + made % 5 + sh) % len(types)]
    c = gen.corrupt(rng, root, pretty, want)
    if c is None:
      continue
    made += 1
    check_corruption(ctx, c)


def replay(ctx, payload):
  if payload.get("kind") == "corrupt":
    check_corruption(ctx, payload)
  else:
    check_doc(ctx, payload["xml"], do_shrink=False, witness=payload.get("witness"))


def finalize(tier, counters):
  return {
    "documents_compared": counters.get("docs:compared", 0),
    "documents_nontrivial": counters.get("docs:nontrivial", 0),
    "corruptions_judged": counters.get("corrupt:malformed:judged", 0) + counters.get("corrupt:unknown:judged", 0),
    "corruption_types": sorted(k.split(":", 1)[1] for k in counters if k.startswith("corrupt-type:")),
    "snapshots_compared": counters.get("snapshots:compared", 0),
    "value_forms": sorted(k[len("class:value:"):] for k in counters if k.startswith("class:value:")),
  }
