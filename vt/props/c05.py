"""C05 - writing a document as IMSC and reading it back presents identically.
Round-trip monitor: source document -> imsc.writer (each time-format configuration) -> bytes -> imsc.reader; the
reference views (vt/ref/isd.py) of source and re-read document are compared; log records of the re-read are observed."""
from __future__ import annotations

import io
import math
import xml.etree.ElementTree as et
from fractions import Fraction

from vt.gen import model_docs
from vt.mon import isdcheck, logs
from vt.props._isdwork import exc_site
from vt.ref import absdoc, build, isd as refisd

ID = "C05"
RULE = ("documents from vt/gen/model_docs.py (profiles isd and style; every element kind incl. ruby delimiters, every style property and "
        "value form incl. none/normal/transparent, animation steps, regions, initial values, xml:space / xml:lang variations) x writer "
        "configuration {none, clock_time, frames, clock_time_with_frames} x fps {24,25,30,50,60,24000/1001,30000/1001}; timing mode "
        "'representable' (all times snapped to the written unit: exact equality demanded) or 'free' (grid rationals: displacement < 1 unit "
        "and order demanded). Non-trivial: document with content whose round trip completed; distinct = distinct (document, configuration)")
ASSUMPTIONS = [
  "source and re-read documents are both viewed through the reference ISD (vt/ref/isd.py): same regions/elements/text/computed styles at "
  "every boundary instant (representable mode), numeric tolerance 1e-5 relative (the writer prints %g)",
  "GenericFontFamilyType.default is equivalent to monospaceSerif (IMSC)",
  "animation steps whose value is TextDecorationType(None, None, None) are not generated: the value has no TTML syntax (found by the thorough tier "
  "after the reader stopped accepting tts:textDecoration=\"\")",
  "elements with begin == end are legitimately pruned by the reader: excluded from the id-preservation clause",
  "pixel resolution compared only when a px length is used; numeric style values that are neither int nor finite float are not generated",
  "documented configuration ValueErrors (frames syntaxes without fps, HH:MM:SS:FF with non-integer fps) are not failures",
]
REQUIRED = ["roundtrips", "mode:representable", "mode:free", "cfg:none", "cfg:clock_time", "cfg:frames", "cfg:clock_time_with_frames",
            "snapshots:compared", "class:ruby", "class:element-lang", "class:preserve-space", "class:times-beyond-24h", "class:single-px", "class:space-default-under-preserve", "class:carry-offset"]
SHARD_TIMEOUT = {"quick": 900, "thorough": 7200}
N = {"quick": 36, "thorough": 2400}

FPS = [Fraction(24), Fraction(25), Fraction(30), Fraction(50), Fraction(60), Fraction(24000, 1001), Fraction(30000, 1001)]
CFGS = [("none", None), ("clock_time", None), ("frames", "fps"), ("clock_time_with_frames", "fps")]
RTOL = 1e-5


def plan(tier, seed):
  return [{"n": N[tier], "shard": i, "profile": "isd" if i % 2 else "style"} for i in range(16)]


def unit_of(cfg_name, fps):
  if cfg_name in ("none", "clock_time"):
    return Fraction(1, 1000)
  return 1 / fps


def snap_times(adoc: absdoc.AbsDoc, unit: Fraction):
  """Representable mode: snap every begin/end (elements, regions, animation steps) to a multiple of `unit` (ceil)."""
  def sn(t):
    if t is None:
      return None
    q = t / unit
    return math.ceil(q) * unit

  def visit(el):
    el.begin, el.end = sn(el.begin), sn(el.end)
    el.anims = [(p, sn(b), sn(e), v) for p, b, e, v in el.anims]
    for c in el.children:
      visit(c)
  for r in adoc.regions:
    visit(r)
  if adoc.body is not None:
    visit(adoc.body)


def no_zero_length_ruby_parts(adoc: absdoc.AbsDoc):
  """Elements with begin == end are legitimately pruned by the reader (abstention); inside a ruby container that pruning breaks
  the ruby child pattern, which is a reader matter (C04/C18), not the writer's: such parts are not generated here."""
  if adoc.body is None:
    return
  n = [0]

  def leaf():
    n[0] += 1
    return absdoc.AbsEl("Span", id=f"x{n[0]}", children=[absdoc.AbsEl("Text", text=f"x{n[0]}")])
  for ruby in [e for e in adoc.body.walk() if e.kind == "Ruby"]:
    for el in ruby.walk():
      if el.end is not None and el.end <= (el.begin or 0):
        el.end = None
  for el in adoc.body.walk():
    # a childless element has zero implicit duration in TTML while the model treats it as unbounded: inside a ruby container the
    # difference breaks the child pattern on re-read; ruby parts are therefore never left empty in this workload
    if el.kind == "Text" and not el.text:
      el.text = "z"     # an empty text node cannot be told from no text node in XML
    if el.kind in ("Rb", "Rt", "Rp") and not el.children:
      el.children.append(leaf())
    if el.kind == "Rbc" and not el.children:
      el.children.append(absdoc.AbsEl("Rb", id=f"xb{n[0]}", children=[leaf()]))
    if el.kind == "Rtc" and not el.children:
      el.children.append(absdoc.AbsEl("Rt", id=f"xt{n[0]}", children=[leaf()]))


def canon_ref(r: refisd.RefISD):
  """Hash-free comparable form of a reference ISD with tolerance handled by compare_ref()."""
  return r


def equiv_value(prop, a, b):
  if prop == "FontFamily":
    norm = lambda v: ("T", tuple(("E", "GenericFontFamilyType", "monospaceSerif") if x == ("E", "GenericFontFamilyType", "default") else x for x in v[1]))  # noqa: E731
    return isdcheck.pequal(norm(a), norm(b), RTOL)
  return isdcheck.pequal(a, b, RTOL)


def compare_ref(a: refisd.RefISD, b: refisd.RefISD):
  """Returns first difference between two reference ISDs (source, re-read) or None."""
  ra = [prune_empty(r) for r in a.regions]
  rb = [prune_empty(r) for r in b.regions]
  ra = [r for r in ra if r.children or r.styles["ShowBackground"][0][2] == "always"]
  rb = [r for r in rb if r.children or r.styles["ShowBackground"][0][2] == "always"]
  if [r.id for r in ra] != [r.id for r in rb]:
    return ("regions", f"regions {[r.id for r in ra]} vs {[r.id for r in rb]}")

  def cmp(x, y, path):
    if x.kind != y.kind:
      return ("structure", f"{path}: {x.kind}#{x.id} vs {y.kind}#{y.id}")
    if x.kind == "Text":
      if (x.text or "").split() != (y.text or "").split():
        return ("text", f"{path}: text {x.text!r} vs {y.text!r}")
      if x.ws_certain and y.ws_certain and x.text != y.text:
        return ("white-space", f"{path}: text {x.text!r} vs {y.text!r}")
      return None
    if x.kind != "Br" and x.lang != y.lang:
      return ("lang", f"{path}/{x.kind}#{x.id}: xml:lang {x.lang!r} vs {y.lang!r}")
    if x.kind != "Br":
      must, _ = refisd.APPLICABLE[x.kind]
      for prop in sorted(must):
        va, ca = x.styles[prop]
        vb, cb = y.styles[prop]
        if ca and cb and va is not None and vb is not None and not equiv_value(prop, va, vb):
          return (f"style:{prop}", f"{path}/{x.kind}#{x.id}: {prop} {isdcheck.show(va)} vs {isdcheck.show(vb)}")
    # children: adjacent text nodes may be merged / anonymous spans introduced by the XML round trip: compare flattened
    fa, fb = flatten_children(x), flatten_children(y)
    if len(fa) != len(fb):
      return ("structure", f"{path}/{x.kind}#{x.id}: children {[c.kind for c in fa]} vs {[c.kind for c in fb]}")
    for ca_, cb_ in zip(fa, fb):
      d = cmp(ca_, cb_, path + "/" + f"{x.kind}#{x.id}")
      if d:
        return d
    return None
  for x, y in zip(ra, rb):
    d = cmp(x, y, "")
    if d:
      return d
  return None


def prune_empty(n):
  """Childless Rb/Rbc (kept by the reference even when empty) and containers emptied by removing them render nothing."""
  for c in n.children:
    c._had = bool(c.children)  # pylint: disable=protected-access
    prune_empty(c)
  n.children = [c for c in n.children
                if not ((c.kind in ("Rb", "Rbc", "Ruby") and not c.children) or
                        (c.kind not in ("Text", "Br") and not c.children and getattr(c, "_had", False)))]
  return n


def flatten_children(n):
  """Children with adjacent Text nodes merged (XML cannot keep two adjacent text nodes apart)."""
  out = []
  for c in n.children:
    if c.kind == "Text" and out and out[-1].kind == "Text":
      m = refisd.RefNode("Text", None, 0, text=(out[-1].text or "") + (c.text or ""), space=c.space)
      m.ws_certain = False
      m._parent = getattr(c, "_parent", None)  # pylint: disable=protected-access
      out[-1] = m
    else:
      out.append(c)
  return out


def strip_ids(adoc: absdoc.AbsDoc):
  """The IMSC reader does not keep xml:id of content elements: snapshots are compared without them."""
  if adoc.body is not None:
    for el in adoc.body.walk():
      el.id = None


def ids_of(adoc: absdoc.AbsDoc):
  """id -> (begin, end, zero_length, kind) for every element with an id."""
  out = {}

  def visit(el, pint, dead):
    interval = pint if el.kind in ("Text", "Br") else refisd.make_abs(el.begin, el.end, pint[0], pint[1])
    zero = dead or (interval[1] is not None and interval[1] <= interval[0])
    if el.id is not None and el.kind != "Text":
      out[el.id] = (el.begin, el.end, zero, el.kind)
    for c in el.children:
      visit(c, interval, zero)
  for r in adoc.regions:
    visit(r, (Fraction(0), None), False)
  if adoc.body is not None:
    visit(adoc.body, (Fraction(0), None), False)
  return out


def uses_px(adoc: absdoc.AbsDoc) -> bool:
  found = []

  def scan(v):
    ls = []
    isdcheck.lengths_in(v, ls)
    if any(l[2] == "px" for l in ls):
      found.append(1)
  for v in adoc.initials.values():
    scan(v)
  for root in list(adoc.regions) + ([adoc.body] if adoc.body else []):
    for el in root.walk():
      for v in el.styles.values():
        scan(v)
      for a in el.anims:
        scan(a[3])
  return bool(found)


XML_ID = "{http://www.w3.org/XML/1998/namespace}id"
TTP = "{http://www.w3.org/ns/ttml#parameter}"
_CLOCK = __import__("re").compile(r"^(\d{2,}):(\d{2}):(\d{2})(?:\.(\d+)|:(\d{2}))?$")
_OFFSET = __import__("re").compile(r"^(\d+(?:\.\d+)?)(h|m|s|ms|f|t)$")


def parse_time(v, fps):
  """Independent parser of the TTML time expressions the writer may emit."""
  m = _CLOCK.match(v)
  if m:
    h, mi, sec, frac, frames = m.groups()
    t = Fraction(int(h) * 3600 + int(mi) * 60 + int(sec))
    if frac is not None:
      t += Fraction(int(frac), 10 ** len(frac))
    if frames is not None:
      if fps is None:
        raise ValueError(f"frames in {v!r} without a frame rate")
      if int(frames) >= math.ceil(fps):
        raise ValueError(f"frame field out of range in {v!r}")
      t += Fraction(int(frames)) / fps
    if int(mi) > 59 or int(sec) > 59:
      raise ValueError(f"field out of range in {v!r}")
    return t
  m = _OFFSET.match(v)
  if m:
    x, u = Fraction(m.group(1)), m.group(2)
    if u == "f":
      if fps is None:
        raise ValueError(f"frames in {v!r} without a frame rate")
      return x / fps
    return x * {"h": 3600, "m": 60, "s": 1, "ms": Fraction(1, 1000)}[u]
  raise ValueError(f"unparseable time expression {v!r}")


def xml_view(data: bytes, cfg_fps):
  root = et.fromstring(data)
  fr = root.get(TTP + "frameRate")
  fps = None
  if fr is not None:
    fps = Fraction(int(fr))
    mult = root.get(TTP + "frameRateMultiplier")
    if mult is not None:
      n, d = mult.split()
      fps = fps * Fraction(int(n), int(d))
  ids = {}
  for e in root.iter():
    i = e.get(XML_ID)
    if i is not None:
      b, en = e.get("begin"), e.get("end")
      ids[i] = (None if b is None else parse_time(b, fps), None if en is None else parse_time(en, fps))
  return {"fps": fps, "ids": ids}


def check(ctx, adoc0, cfg_name, fps, mode, classes=()):
  import ttconv.imsc.writer as imsc_writer
  import ttconv.imsc.reader as imsc_reader
  from ttconv.imsc.config import IMSCWriterConfiguration
  payload = {"doc": build.dumps(adoc0), "cfg": cfg_name, "fps": None if fps is None else str(fps), "mode": mode}
  unit = unit_of(cfg_name, fps)
  doc = build.build_doc(adoc0)
  src = absdoc.snap_doc(doc)
  for c in classes:
    ctx.count("class:" + c)
  ctx.ev()
  ctx.count("cfg:" + cfg_name)
  ctx.count("mode:" + mode)
  cfg = None
  if cfg_name != "none":
    d = {"time_format": cfg_name}
    if fps is not None:
      d["fps"] = f"{fps.numerator}/{fps.denominator}"
    cfg = IMSCWriterConfiguration.parse(d)
  what = f"[{cfg_name}{'' if fps is None else ' ' + str(fps)} {mode}]"
  try:
    tree = imsc_writer.from_model(doc, cfg)
    buf = io.BytesIO()
    tree.write(buf, encoding="utf-8", xml_declaration=True)
    data = buf.getvalue()
  except Exception as e:  # pylint: disable=broad-except
    ctx.violation("writer-raises:" + exc_site(e), f"{what} imsc writer raised {type(e).__name__}: {e}", payload)
    return
  with logs.capture("ttconv") as records:
    try:
      doc2 = imsc_reader.to_model(et.ElementTree(et.fromstring(data)))
    except Exception as e:  # pylint: disable=broad-except
      ctx.violation("reread-raises:" + exc_site(e), f"{what} reader raised {type(e).__name__}: {e} on the writer's own output", payload)
      return
  if doc2 is None:
    ctx.violation("reread-none", f"{what} reader returned None on the writer's own output", payload)
    return
  ctx.count("roundtrips")
  seen = set()
  for name, level, msg in records:
    key = (name, msg.split(":")[0][:60])
    if key in seen:
      continue
    seen.add(key)
    ctx.violation(f"reread-log:{name.replace('ttconv.', '')}:{msg[:40]}", f"{what} re-reading the writer's output logged {level} {name}: {msg}", payload)
  rr = absdoc.snap_doc(doc2)
  # --- document parameters ---------------------------------------------------------------------------------------
  if src.lang != rr.lang:
    ctx.violation("param:lang", f"{what} language {src.lang!r} -> {rr.lang!r}", payload)
  if src.cell != rr.cell:
    ctx.violation("param:cell-resolution", f"{what} cell resolution {src.cell} -> {rr.cell}", payload)
  if uses_px(src) and src.px != rr.px:
    ctx.violation("param:px-resolution", f"{what} pixel resolution {src.px} -> {rr.px} although px lengths are used", payload)
  if (src.active_area is None) != (rr.active_area is None) or (src.active_area is not None and not all(
      isdcheck.num_eq(a, b, RTOL) for a, b in zip(src.active_area, rr.active_area))):
    ctx.violation("param:active-area", f"{what} active area {src.active_area} -> {rr.active_area}", payload)
  if src.dar != rr.dar and not (src.dar is not None and rr.dar is not None and isdcheck.num_eq(src.dar, rr.dar, RTOL)):
    ctx.violation("param:aspect-ratio", f"{what} display aspect ratio {src.dar} -> {rr.dar}", payload)
  # --- ids and timing, observed in the written bytes ----------------------------------------------------------------
  try:
    written = xml_view(data, fps)
  except ValueError as e:
    ctx.violation("written-time-syntax", f"{what} {e}", payload)
    written = None
  if written is not None:
    if fps is not None and written["fps"] != fps:
      ctx.violation("frame-rate-attributes", f"{what} ttp:frameRate/frameRateMultiplier give {written['fps']}, configured {fps}", payload)
    a_ids = ids_of(src)
    pairs = []
    for i, (b, e, zero, kind) in a_ids.items():
      if i not in written["ids"]:
        ctx.violation(f"element-dropped:{kind}", f"{what} no element with xml:id={i!r} ({kind}) in the written document", payload)
        continue
      b2, e2 = written["ids"][i]
      for label, x, y in (("begin", b, b2), ("end", e, e2)):
        if kind == "Br":
          continue
        if x is None or (label == "begin" and x == 0 and y is None):
          if y is not None and not (label == "begin" and y == 0):
            ctx.violation(f"time-invented:{label}", f"{what} {kind}#{i} has no {label} but {label}={y} was written", payload)
          continue
        if y is None:
          ctx.violation(f"time-lost:{label}", f"{what} {kind}#{i} {label}={x} was not written", payload)
        elif mode == "representable":
          if y != x:
            ctx.violation(f"time-not-exact:{label}:{cfg_name}", f"{what} {kind}#{i} {label} {x} (representable) written as {y}", payload)
        else:
          pairs.append((x, y))
          if not abs(y - x) < unit:
            ctx.violation(f"time-moved:{label}:{cfg_name}", f"{what} {kind}#{i} {label} {x} written as {y}: moved by {float(abs(y - x) / unit):.3f} units", payload)
    pairs.sort()
    for (x1, y1), (x2, y2) in zip(pairs, pairs[1:]):
      if x1 < x2 and y1 > y2:
        ctx.violation("time-order", f"{what} times {x1} < {x2} written as {y1} > {y2}", payload)
        break
  # --- snapshots (representable mode: exact same presentation at every boundary) -------------------------------------
  strip_ids(src)
  if mode == "representable":
    bounds = refisd.boundaries(src)
    times = sorted(set(bounds) | {b + unit / 2 for b in bounds} | {Fraction(0)})
    had = False
    for t in times[:60]:
      ra, rb = refisd.compute_isd(src, t), refisd.compute_isd(rr, t)
      ctx.count("snapshots:compared")
      if any(r.children for r in ra.regions):
        had = True
      d = compare_ref(ra, rb)
      if d is not None:
        ctx.violation("snapshot:" + d[0], f"{what} t={t}: source vs re-read: {d[1]}", dict(payload, t=str(t)))
        break
    if had:
      ctx.nontriv(("rt", payload["doc"], cfg_name, str(fps)))
      if len(ctx.samples) < 3:
        ctx.sample({"cfg": cfg_name, "fps": str(fps), "mode": mode, "bytes": len(data), "head": data[:300].decode("utf-8", "replace")})
  else:
    ctx.nontriv(("rt", payload["doc"], cfg_name, str(fps)))


def single_px(adoc, rng):
  """Directed class: a document with a non-default pixel resolution in which exactly ONE length uses px, hidden inside a
  multi-component value (the writer must still declare the root extent, or every px length rescales on re-reading)."""
  from vt.gen.model_docs import L, dmake, E
  def strip(v):
    return "px" not in repr(v)
  adoc.initials = {k: v for k, v in adoc.initials.items() if strip(v)}
  els = []
  for root in list(adoc.regions) + ([adoc.body] if adoc.body else []):
    for el in root.walk():
      el.styles = {k: v for k, v in el.styles.items() if strip(v)}
      el.anims = [a for a in el.anims if strip(a[3])]
      if el.kind in ("P", "Span") and root is adoc.body:
        els.append(el)
  adoc.px = rng.choice([(640, 480), (720, 576), (1280, 720)])
  if not els:
    return False
  el = rng.choice(els)
  sh = lambda x, y, b, c: dmake("Shadow", x_offset=x, y_offset=y, blur_radius=b, color=c)   # noqa: E731
  em, px = (lambda v: L(v, "em")), (lambda v: L(v, "px"))
  kind = rng.choice(["shadow-later", "shadow-blur", "shadow-first", "padding", "outline"])
  if kind == "shadow-later":
    el.styles["TextShadow"] = dmake("TextShadowType", shadows=("T", (sh(em(0.1), em(0.1), em(0.05), None), sh(px(2), em(0.1), None, None))))
  elif kind == "shadow-blur":
    el.styles["TextShadow"] = dmake("TextShadowType", shadows=("T", (sh(em(0.1), em(0.1), None, None), sh(em(0.2), em(0.1), px(3), None))))
  elif kind == "shadow-first":
    el.styles["TextShadow"] = dmake("TextShadowType", shadows=("T", (sh(em(0.1), px(1), em(0.05), None),)))
  elif kind == "padding" and adoc.regions:
    adoc.regions[0].styles["Padding"] = dmake("PaddingType", before=L(1, "c"), end=L(0.5, "em"), after=px(4), start=L(1, "%"))
  else:
    el.styles["TextOutline"] = dmake("TextOutlineType", thickness=px(2), color=None)
  return True


def space_switch(adoc, rng):
  """Directed class: xml:space switched back to default below a preserving ancestor (and the reverse), on text with collapsible runs."""
  if adoc.body is None:
    return False
  ps = [el for el in adoc.body.walk() if el.kind == "P" and any(c.kind == "Span" for c in el.children)]
  if not ps:
    return False
  p_ = rng.choice(ps)
  outer, inner = rng.choice([("preserve", "default"), ("preserve", "default"), ("default", "preserve")])
  p_.space = outer
  hit = False
  for c in p_.children:
    if c.kind != "Span":
      continue
    c.space = inner if rng.random() < 0.7 else outer
    for t in c.children:
      if t.kind == "Text":
        t.text = "w1   w2  " + (t.text or "") + " \n  w3"
        hit = hit or c.space == inner
      elif t.kind == "Span":
        t.space = rng.choice([inner, outer])
  return hit


def no_empty_decoration_steps(adoc):
  """TextDecorationType(None, None, None) has no TTML syntax (tts:textDecoration needs at least one token): as a specified value it is
  equivalent to no attribute, but as the value of an animation step it would have to override the specified value with 'nothing'.
  Such steps are outside what IMSC can represent and are not generated."""
  for root in list(adoc.regions) + ([adoc.body] if adoc.body else []):
    for el in root.walk():
      el.anims = [a for a in el.anims if not (a[0] == "TextDecoration" and a[3][0] == "D" and all(v is None for _k, v in a[3][2]))]


def run(ctx, params):
  for i in range(params["n"]):
    rng = ctx.rng("doc", params["shard"], i)
    adoc0, classes = model_docs.generate(rng, params["profile"], None, p_lang=0.15)
    if adoc0.body is not None and i % 6 == 2:
      # times of a day and more: TTML hours are unbounded (HH:MM:SS:FF labels must not wrap at 24 h)
      off = rng.choice([86400, 86410, 360000, 90000])
      adoc0.body.begin = (adoc0.body.begin or 0) + off
      if adoc0.body.end is not None:
        adoc0.body.end += off
      for r in adoc0.regions:
        if r.begin is not None:
          r.begin += off
        if r.end is not None:
          r.end += off
        r.anims = [(p_, None if b is None else b + off, None if e is None else e + off, v) for p_, b, e, v in r.anims]
      ctx.count("class:times-beyond-24h")
    if i % 9 == 4 and single_px(adoc0, rng):
      ctx.count("class:single-px")
    if i % 9 == 7 and space_switch(adoc0, rng):
      ctx.count("class:space-default-under-preserve")
    cfg_name, needs = CFGS[(params["shard"] + i) % 4]
    fps = rng.choice(FPS) if needs else None
    if cfg_name == "clock_time_with_frames" and fps.denominator != 1:
      fps = rng.choice([f for f in FPS if f.denominator == 1])
    mode = "representable" if rng.random() < 0.6 else "free"
    if i % 6 == 5 and adoc0.body is not None:
      # times within half a millisecond below a minute / hour boundary and off the millisecond grid: the written clock time carries
      # into the seconds, minutes and hours fields (displacement stays below one unit)
      off = rng.choice([Fraction(599997, 10000), Fraction(35999996, 10000), Fraction(1199996, 10000), Fraction(599996, 10000) + 3600])
      adoc0.body.begin = (adoc0.body.begin or 0) + off
      if adoc0.body.end is not None:
        adoc0.body.end += off
      mode = "free"
      ctx.count("class:carry-offset")
    if mode == "representable":
      snap_times(adoc0, unit_of(cfg_name, fps))
    no_zero_length_ruby_parts(adoc0)
    no_empty_decoration_steps(adoc0)
    if mode == "free" and adoc0.body is not None:
      # two distinct times of a ruby part may round to the same written value: the part then has an empty interval, is pruned
      # by the reader and breaks the ruby child pattern - inherent to rounding, so ruby parts are untimed in free mode
      for ruby in [e for e in adoc0.body.walk() if e.kind == "Ruby"]:
        for el in ruby.walk():
          if el.kind not in ("Text", "Br"):
            el.begin = el.end = None
    check(ctx, adoc0, cfg_name, fps, mode, classes)


def replay(ctx, payload):
  fps = Fraction(payload["fps"]) if payload.get("fps") else None
  check(ctx, build.loads(payload["doc"]), payload["cfg"], fps, payload["mode"])
