"""C11 - the WebVTT reader reproduces cues, inline markup and cue-setting geometry.
Runtime monitor: WebVTT files drawn from the file / cue-text grammars (vt/gen/vtt.py) are read by the real
ttconv.vtt.reader.to_model through a text-mode file object (as tt.py opens VTT input); the generator's AST is the
oracle.  Geometry expectations come from vt/ref/vtt_geom.py (WebVTT 6.3 / 7.2).  Round trip: the reader's document is
written by ttconv.vtt.writer.from_model under the 8 writer configurations and read back; the written text is parsed
by an independent WebVTT parser (file parser + cue text tokenizer written from WebVTT 6.1 / 6.4) which defines 'the
cues that were written'.

Every violation is shrunk on the AST (never leaving the grammar) before it is reported, so the mech key
`<clause>:<features of the minimal cue>` names the mechanism and the replay file carries a minimal input."""
import copy
import html
import io
import itertools
import re
from fractions import Fraction

from vt.gen import vtt as G
from vt.ref import vtt_geom as GEOM

ID = "C11"
RULE = ("WebVTT files generated from the file grammar (header with optional text/BOM, NOTE/STYLE/REGION blocks, cues with or "
        "without identifier, optional/2+-digit hours, LF/CRLF/CR, blank-line runs) and the cue-text grammar (1-4 lines of "
        "unique tokens, character references, b/i/u/c.class/lang/v/ruby+rt nested to depth 3, 0-3 increasing inline "
        "timestamps), cue settings random and (settings shard) the full product of the representative values; each file is "
        "read through a text-mode file object and compared clause by clause with its AST; then written under the 8 writer "
        "configurations and read back. Non-trivial: file with >= 1 cue having a tag, a setting or >= 2 lines; distinct = "
        "distinct file texts")
ASSUMPTIONS = [
  "trusted base: the generator's AST and renderer (vt/gen/vtt.py), vt/ref/vtt_geom.py, Python's html.unescape (HTML character "
  "references) and io.TextIOWrapper (universal newlines)",
  "text is left-to-right: &lrm;/&rlm; never precede the first word of a line, so align:left/right map to start/end; TTML "
  "textAlign left is accepted for start and right for end",
  "exact region numbers are judged only for percentage lines on horizontal cues: the pinned edge (top / middle / bottom by "
  "line alignment) must be at N % (+-0.5 for fractional percentages, which may be rounded to whole percents); likewise "
  "`line:0` pins the top edge at 0 % and `line:-1` the bottom edge at 100 % (horizontal cue). "
  "Region height, all numbers for other line numbers, for vertical cues, position and size are judged for containment and "
  "non-negative extent only; a line number with an explicit line alignment must select the region facts of the same cue read "
  "alone without the alignment (WebVTT does not use the line alignment when snapping to lines)",
  "displayAlign is judged for percentage lines on horizontal cues and for cues without a line setting (after: WebVTT puts "
  "them on the last line); not judged for line numbers nor for percentage lines of vertical cues (WebVTT measures x from "
  "the left for both vertical directions)",
  "cues with different settings may share a region unless they differ in a judged attribute; in the colliding-settings class "
  "(settings chosen to give the same origin and extent) each cue's region facts are additionally compared with the same cue "
  "read alone in a file (the settings select the region, not the neighbouring cues)",
  "several foreground (or several background) colour classes on one tag, colour classes on tags other than <c>, and class "
  "names that are not WebVTT default classes but TTML named colours (green, silver...) are not generated",
  "the `region:` cue setting, timestamps or line breaks inside <ruby>, white-space-only payload lines are not generated",
  "background: a character without bg_ class may have no / transparent / black (any alpha) background (UA default cue "
  "background); with a bg_ class the nearest enclosing span that paints a background must paint that colour",
  "xml:lang of a character = nearest enclosing element with a non-empty language below the paragraph",
  "ruby with rbc/rtc containers: the i-th rt is paired with the i-th rb",
  "inline timestamps: absolute begin = sum of begin offsets from the paragraph down (TTML par semantics), tolerance 1e-9 s; "
  "span ends are not judged",
  "round trip judges the reader against the independently parsed written text (times, payload text lines); what the "
  "writer chose to write is C06/C07; a writer exception is counted and not judged here; documents are the reader's own "
  "outputs for the generated files (the C06 model-document workload is not available to this check)",
  "known-finding classifier D-VTT-RUBY-IN-SPAN (known_finding()): TypeError 'Children of span must be span or br instances' "
  "from model.Span.push_child on a witness whose <ruby> lies inside another tag or after an inline timestamp - the canonical "
  "model only allows Ruby as a child of P",
  "<rt> outside <ruby> (plain text for a WebVTT parser: no ruby role expected), empty files, identifiers starting with STYLE/NOTE and character references in <v> annotations are "
  "generated in dedicated optional classes only",
]
REQUIRED = ["files:read", "cues:compared", "clause:count-order", "clause:blocks-skipped", "clause:time", "clause:text",
            "clause:attrs", "clause:ts", "clause:geom-contain", "clause:geom-align", "clause:line-edge",
            "clause:sharing-equal", "clause:isolation", "clause:line-number-alignment", "settings:far-line-numbers", "class:colliding-settings", "clause:roundtrip", "class:crlf", "class:lf", "class:hours", "class:no-hours", "class:id",
            "class:no-id", "class:note", "class:style", "class:region", "feat:b", "feat:i", "feat:u", "feat:c.fg", "feat:c.bg",
            "feat:lang", "feat:v", "feat:ruby", "feat:ruby-2pairs", "feat:depth3", "feat:ts", "feat:ts>=2", "feat:cref,numeric", "feat:cref,lrm-rlm", "feat:cref,amp-lt-gt-nbsp", "feat:multi-line",
            "feat:vertical", "feat:position", "feat:size", "set:line:num0", "set:line:neg", "set:line:pct", "set:align"]
SHARD_TIMEOUT = {"quick": 900, "thorough": 5400}

TOL = Fraction(1, 10 ** 6)
TTOL = Fraction(1, 10 ** 9)
RGB = {"white": (255, 255, 255), "lime": (0, 255, 0), "cyan": (0, 255, 255), "red": (255, 0, 0), "yellow": (255, 255, 0),
       "magenta": (255, 0, 255), "blue": (0, 0, 255), "black": (0, 0, 0)}       # WebVTT 5.1 default classes
WRITER_CONFIGS = [dict(line_position=lp, text_align=ta, cue_id=ci) for lp in (False, True) for ta in (False, True)
                  for ci in (True, False)]


# Families of cue settings that (by the WebVTT rules for percentage lines: start pins the top, center the middle, end the
# bottom edge of the region) give the same origin and extent, while displayAlign, textAlign or writingMode must differ.
COLLIDING = [
  ["line:50%,center", "line:0%", "line:100%,end", "line:0", "line:-1"],           # whole height: center / before / after
  ["line:20%,center", "line:40%,end"],                                            # [0, 40 %]: center / after
  ["line:10%,center", "line:20%,end"],
  ["line:85%,center", "line:70%"],                                                # [70, 100 %]: center / before
  ["line:75%,center", "line:50%", "line:50%,start"],
  ["align:start", "align:end", "align:center", "align:left", "align:right"],      # same default box, textAlign differs
  ["line:10% align:start", "line:10% align:end", "line:10%"],
  ["vertical:rl", "vertical:lr", "align:center"],                                 # same default box, writing mode differs
  ["vertical:rl line:10%", "vertical:lr line:10%"],
  ["vertical:lr line:50%,center", "vertical:lr line:0%", "vertical:lr line:100%,end"],
  ["line:50%,center align:end", "line:0% align:end", "line:100%,end align:end", "line:0% align:start"],
]


def plan(tier, seed):
  if tier == "thorough":
    shards = [{"kind": "grammar", "part": i, "files": 3125, "roundtrip_every": 4} for i in range(16)]
    shards += [{"kind": "settings", "part": i, "parts": 4, "stride": 1} for i in range(4)]
    shards += [{"kind": "optional", "part": 0, "files": 600}]
    shards += [{"kind": "collide"}]
  else:
    shards = [{"kind": "grammar", "part": i, "files": 50, "roundtrip_every": 2} for i in range(14)]
    shards += [{"kind": "settings", "part": 0, "parts": 1, "stride": 23}]
    shards += [{"kind": "optional", "part": 0, "files": 100}]
    shards += [{"kind": "collide"}]
  return shards


# ---------------------------------------------------------------------------------------------------------------------
# running the real reader / writer
# ---------------------------------------------------------------------------------------------------------------------

def read_text(text):
  """Feeds `text` the way tt.py does: a text-mode file object (utf-8, universal newlines)."""
  from ttconv.vtt import reader
  f = io.TextIOWrapper(io.BytesIO(text.encode("utf-8")), encoding="utf-8")
  return reader.to_model(f)


def exc_site(e):
  """(exception type, innermost ttconv function) - the unit of de-duplication for raised exceptions."""
  tb = e.__traceback__
  site = "?"
  while tb is not None:
    fn = tb.tb_frame.f_code.co_filename
    if "ttconv" in fn:
      site = fn.rsplit("/", 1)[-1][:-3] + "." + tb.tb_frame.f_code.co_name
    tb = tb.tb_next
  return type(e).__name__ + "@" + site


# ---------------------------------------------------------------------------------------------------------------------
# observation of the returned document (public getters only)
# ---------------------------------------------------------------------------------------------------------------------

def _frac(x):
  return None if x is None else Fraction(x)


def observe_p(p):
  """Per-character view of a paragraph: (char, bold, italic, underline, fg rgba|None, bg rgba|None, lang|None,
  ruby role|None, absolute begin)."""
  from ttconv import model
  from ttconv.style_properties import StyleProperties as SP, FontWeightType, FontStyleType
  chars = []
  region = p.get_region()

  def comps(c):
    return None if c is None else tuple(c.components)

  def inherit(el, a, is_p):
    b = dict(a)
    v = el.get_style(SP.FontWeight)
    if v is not None:
      b["b"] = v is FontWeightType.bold
    v = el.get_style(SP.FontStyle)
    if v is not None:
      b["i"] = v is FontStyleType.italic
    v = el.get_style(SP.TextDecoration)
    if v is not None and getattr(v, "underline", None) is not None:
      b["u"] = bool(v.underline)
    v = el.get_style(SP.Color)
    if v is not None:
      b["fg"] = comps(v)
    if not is_p:
      v = el.get_style(SP.BackgroundColor)
      if v is not None and comps(v)[3] != 0:
        b["bg"] = comps(v)
      lang = el.get_lang()
      if lang:
        b["lang"] = lang
      beg = el.get_begin() if hasattr(el, "get_begin") else None
      if beg is not None:
        b["t"] = a["t"] + Fraction(beg)
        b["offsets"] = a["offsets"] + 1
    return b

  def walk(el, a):
    if isinstance(el, model.Text):
      for ch in el.get_text():
        chars.append((ch, a["b"], a["i"], a["u"], a["fg"], a["bg"], a["lang"], a["ruby"], a["t"]))
      return
    if isinstance(el, model.Br):
      chars.append(("\n",))
      return
    b = inherit(el, a, False)
    if isinstance(el, model.Rt):
      b["ruby"] = "text"
    elif isinstance(el, model.Rb):
      b["ruby"] = "base"
    elif isinstance(el, model.Ruby):
      b["ruby"] = "container"
      kids = list(el)
      if len(kids) == 2 and isinstance(kids[0], model.Rbc) and isinstance(kids[1], model.Rtc):
        rbs, rts = list(kids[0]), list(kids[1])
        b0 = inherit(kids[0], b, False)
        b1 = inherit(kids[1], b, False)
        for k in range(max(len(rbs), len(rts))):
          if k < len(rbs):
            walk(rbs[k], b0)
          if k < len(rts):
            walk(rts[k], b1)
        return
    for c in el:
      walk(c, b)

  a0 = {"b": False, "i": False, "u": False, "fg": None, "bg": None, "lang": None, "ruby": None,
        "t": Fraction(p.get_begin()) if p.get_begin() is not None else Fraction(0), "offsets": 0}
  if region is not None:
    v = region.get_style(SP.Color)
    if v is not None:
      a0["fg"] = comps(v)
  a0 = inherit(p, a0, True)
  for c in p:
    walk(c, a0)
  return chars


def observe_region(p):
  """Region facts: id, origin/extent in % (None when another unit is used), alignments, writing mode."""
  from ttconv.style_properties import StyleProperties as SP, LengthType
  r = p.get_region()
  if r is None:
    return None
  U = LengthType.Units

  def num(length, ok_units):
    if length is None:
      return None
    if length.units not in ok_units:
      return "unit:" + str(length.units)
    return Fraction(length.value)

  origin, extent = r.get_style(SP.Origin), r.get_style(SP.Extent)
  o = {"id": r.get_id(), "obj": id(r)}
  o["x"] = num(origin.x, (U.pct, U.rw)) if origin is not None else Fraction(0)
  o["y"] = num(origin.y, (U.pct, U.rh)) if origin is not None else Fraction(0)
  o["w"] = num(extent.width, (U.pct, U.rw)) if extent is not None else Fraction(100)
  o["h"] = num(extent.height, (U.pct, U.rh)) if extent is not None else Fraction(100)
  da = r.get_style(SP.DisplayAlign)
  o["display_align"] = da.name if da is not None else "before"       # TTML initial value
  ta = p.get_style(SP.TextAlign) or r.get_style(SP.TextAlign)
  o["text_align"] = ta.name if ta is not None else "start"
  wm = r.get_style(SP.WritingMode)
  o["writing_mode"] = wm.name if wm is not None else "lrtb"
  return o


def doc_paragraphs(doc):
  from ttconv import model
  out = []

  def walk(el):
    if isinstance(el, model.P):
      out.append(el)
      return
    for c in el:
      walk(c)
  body = doc.get_body()
  if body is not None:
    walk(body)
  return out


# ---------------------------------------------------------------------------------------------------------------------
# the oracle: document vs AST
# ---------------------------------------------------------------------------------------------------------------------

def _text_of(chars):
  return "".join(c[0] for c in chars)


def _show(x):
  return repr(x) if not isinstance(x, Fraction) else ("%s (=%.6g)" % (x, float(x)))


def compare_cue(ci, cue, p, findings, stats):
  """Clauses 2-6 for one cue / paragraph pair."""
  def add(clause, what):
    findings.append({"clause": clause, "cue": ci, "what": what})

  # (2) times: exactly the printed values, as rationals
  stats["clause:time"] += 1
  for which, ms, obs in (("begin", cue["b"], p.get_begin()), ("end", cue["e"], p.get_end())):
    exp = Fraction(ms, 1000)
    if obs is None:
      add("time-value", f"{which}: expected {exp}, observed None")
      continue
    if isinstance(obs, float) or not isinstance(obs, (int, Fraction)):
      add("time-is-float", f"{which} of the paragraph is a {type(obs).__name__} ({obs!r}); Fraction(observed) == "
          f"{Fraction(obs)} {'==' if Fraction(obs) == exp else '!='} printed {exp}")
    if abs(Fraction(obs) - exp) > TTOL:
      add("time-value", f"{which}: printed {G.fmt_ts(ms, cue.get('hours', 'auto'))} = {exp} s, observed {obs!r}")

  # (3) payload text, lines, character references
  exp_chars = G.expected_chars(cue["body"])
  obs_chars = observe_p(p)
  stats["clause:text"] += 1
  et, ot = _text_of(exp_chars), _text_of(obs_chars)
  if et != ot:
    add("text", f"payload: expected lines {et.split(chr(10))!r}, observed {ot.split(chr(10))!r}")
  else:
    # (4) per-character attributes, (5) inline timestamps
    stats["clause:attrs"] += 1
    seen = set()
    pb = Fraction(cue["b"], 1000)
    has_ts = any(len(c) > 1 and c[8] is not None for c in exp_chars)
    if has_ts:
      stats["clause:ts"] += 1
    for k, (e, o) in enumerate(zip(exp_chars, obs_chars)):
      if len(e) == 1:
        continue
      ctx_txt = f"character {k} {e[0]!r} (…{et[max(0, k - 6):k + 4]!r}…)"
      for name, idx in (("bold", 1), ("italic", 2), ("underline", 3)):
        if e[idx] != o[idx] and name not in seen:
          seen.add(name)
          add("attr-" + name, f"{ctx_txt}: {name} expected {e[idx]} observed {o[idx]}")
      # foreground: class colour, default white
      efg = RGB[e[4]] if e[4] is not None else RGB["white"]
      ofg = o[4][:3] if o[4] is not None else RGB["white"]
      if (efg != ofg or (o[4] is not None and o[4][3] != 255)) and "fg" not in seen:
        seen.add("fg")
        add("attr-color", f"{ctx_txt}: colour expected {e[4] or 'default (white)'} {efg}, observed {o[4]}")
      # background
      if "bg" not in seen:
        if e[5] is None:
          if o[5] is not None and o[5][:3] != (0, 0, 0):
            seen.add("bg")
            add("attr-background", f"{ctx_txt}: no bg_ class encloses it, observed background {o[5]}")
        elif o[5] is None or o[5][:3] != RGB[e[5]] or o[5][3] != 255:
          seen.add("bg")
          add("attr-background", f"{ctx_txt}: background expected bg_{e[5]} {RGB[e[5]]}, observed {o[5]}")
      if e[6] != o[6] and "lang" not in seen:
        seen.add("lang")
        add("attr-lang", f"{ctx_txt}: language expected {e[6]!r} observed {o[6]!r}")
      if e[7] != o[7] and "ruby" not in seen:
        seen.add("ruby")
        add("attr-ruby", f"{ctx_txt}: ruby role expected {e[7]} observed {o[7]}")
      # (5) inline timestamps: absolute begin of the text
      et_abs = Fraction(e[8], 1000) if e[8] is not None else pb
      if abs(o[8] - et_abs) > TTOL:
        if e[8] is None:
          key = "begin-before-ts"
          msg = f"{ctx_txt}: no timestamp tag precedes it, expected to begin with the cue at {pb}, observed absolute begin {_show(o[8])}"
        else:
          key = "ts-begin-after-close" if e[9] else "ts-begin"
          msg = (f"{ctx_txt}: follows timestamp tag <{G.fmt_ts(e[8])}> = {et_abs} s (cue begins at {pb}), observed "
                 f"absolute begin {_show(o[8])}")
        if key not in seen:
          seen.add(key)
          add(key, msg)

  # (6) region geometry and alignments
  reg = observe_region(p)
  if reg is None:
    add("no-region", "paragraph has no region")
    return None
  exp = GEOM.expectations(cue["settings"])
  sett = " ".join(n + ":" + v for n, v in cue["settings"]) or "(no settings)"
  nums = [reg[k] for k in "xywh"]
  if any(isinstance(v, str) or v is None for v in nums):
    stats["geom:unit-not-judged"] += 1
  else:
    stats["clause:geom-contain"] += 1
    x, y, w, h = nums
    box = f"origin ({float(x):.6g}%, {float(y):.6g}%) extent ({float(w):.6g}% x {float(h):.6g}%)"
    if w < -TOL or h < -TOL:
      add("region-negative-extent", f"settings [{sett}]: {box}")
    elif x < -TOL or y < -TOL or x + w > 100 + TOL or y + h > 100 + TOL:
      ib = GEOM.inline_box(GEOM.parse(cue["settings"]))
      add("region-outside-root", f"settings [{sett}]: {box} is not inside the root container (the WebVTT rules give an "
          f"inline-direction box at offset {float(ib[0]):.6g}% of size {float(ib[1]):.6g}%)")
    if exp["edge"] is not None:
      stats["clause:line-edge"] += 1
      which, val, tol = exp["edge"]
      got = {"top": y, "middle": y + h / 2, "bottom": y + h}[which]
      if abs(got - val) > tol:
        add("line-edge", f"settings [{sett}]: the region's {which} edge must be at {float(val):g}% of the height, observed "
            f"{float(got):.6g}% ({box})")
  stats["clause:geom-align"] += 1
  if reg["writing_mode"] != exp["writing_mode"]:
    add("writing-mode", f"settings [{sett}]: writingMode expected {exp['writing_mode']} observed {reg['writing_mode']}")
  if reg["text_align"] not in exp["text_align"]:
    add("text-align", f"settings [{sett}]: textAlign expected {sorted(exp['text_align'])} observed {reg['text_align']}")
  if exp["display_align"] is not None and reg["display_align"] != exp["display_align"]:
    add("display-align", f"settings [{sett}]: displayAlign expected {exp['display_align']} observed {reg['display_align']}")
  return reg, exp


_TOKEN_RE = re.compile(r"[kn][0-9]+")


def compare_doc(doc, ast, stats):
  """Clauses 1-7 for a whole file. Returns the list of findings."""
  findings = []
  cues = [it for it in ast["items"] if it["k"] == "cue"]
  ps = doc_paragraphs(doc)
  stats["clause:count-order"] += 1

  # (1) one P per cue, in order; nothing from NOTE / STYLE / REGION blocks or the header
  ptexts = []
  for p in ps:
    try:
      ptexts.append(_text_of(observe_p(p)))
    except Exception as e:  # pylint: disable=broad-except
      ptexts.append("")
      findings.append({"clause": "observe-raises", "cue": None, "what": f"walking a paragraph raised {type(e).__name__}: {e}"})
  has_blocks = any(it["k"] != "cue" for it in ast["items"])
  if has_blocks:
    stats["clause:blocks-skipped"] += 1
  for pt in ptexts:
    for tk in _TOKEN_RE.findall(pt):
      if tk.startswith("n"):
        findings.append({"clause": "block-not-skipped", "cue": None,
                         "what": f"token {tk} of a NOTE/STYLE/REGION/header line appears in the document: {pt!r}"})
        break
  pairs = []
  if len(ps) == len(cues):
    pairs = list(zip(range(len(cues)), ps))
  else:
    # attribute by unique tokens
    owner = {}
    for ci, cue in enumerate(cues):
      for tk in _TOKEN_RE.findall(_text_of(G.expected_chars(cue["body"]))):
        owner[tk] = ci
    used = {}
    last = -1
    for pi, p in enumerate(ps):
      owners = {owner[tk] for tk in _TOKEN_RE.findall(ptexts[pi]) if tk in owner}
      if len(owners) == 1:
        ci = owners.pop()
        if ci in used:
          findings.append({"clause": "cue-duplicated", "cue": ci, "what": f"cue {ci} yields more than one paragraph"})
          continue
        used[ci] = pi
        if ci < last:
          findings.append({"clause": "cue-order", "cue": ci, "what": f"paragraph {pi} holds cue {ci} after cue {last}"})
        last = max(last, ci)
        pairs.append((ci, p))
      else:
        findings.append({"clause": "cue-extra", "cue": None if not owners else min(owners),
                         "what": f"paragraph {pi} {ptexts[pi]!r} belongs to cues {sorted(owners)}"})
    for ci, cue in enumerate(cues):
      if ci not in used:
        findings.append({"clause": "cue-missing", "cue": ci,
                         "what": f"cue {ci} (id {cue['id']!r}, {G.fmt_ts(cue['b'])} --> {G.fmt_ts(cue['e'])}) has no paragraph; "
                                 f"{len(cues)} cues, {len(ps)} paragraphs"})
  regs = {}
  for ci, p in pairs:
    stats["cues:compared"] += 1
    try:
      r = compare_cue(ci, cues[ci], p, findings, stats)
    except Exception as e:  # pylint: disable=broad-except
      findings.append({"clause": "observe-raises", "cue": ci, "what": f"observing cue {ci} raised {type(e).__name__}: {e}"})
      r = None
    if r is not None:
      regs[ci] = r

  # (7) equal settings share one region; cues that differ in a judged attribute do not
  for (ca, (ra, ea)), (cb, (rb, eb)) in itertools.combinations(sorted(regs.items()), 2):
    sa, sb = GEOM.canonical(cues[ca]["settings"]), GEOM.canonical(cues[cb]["settings"])
    if sa == sb:
      stats["clause:sharing-equal"] += 1
      if ra["id"] != rb["id"] or ra["obj"] != rb["obj"]:
        findings.append({"clause": "region-not-shared", "cue": cb, "cue2": ca,
                         "what": f"cues {ca} and {cb} have equal settings {list(sa)} but regions {ra['id']} and {rb['id']}"})
    elif ra["obj"] == rb["obj"]:
      judged_a = (ea["writing_mode"], frozenset(ea["text_align"]), ea["display_align"], ea["edge"])
      judged_b = (eb["writing_mode"], frozenset(eb["text_align"]), eb["display_align"], eb["edge"])
      if None not in (ea["display_align"], eb["display_align"]) and judged_a != judged_b:
        stats["clause:sharing-different"] += 1
        findings.append({"clause": "region-shared-wrongly", "cue": cb, "cue2": ca,
                         "what": f"cues {ca} {list(sa)} and {cb} {list(sb)} need different alignment/writing mode/edge but "
                                 f"share region {ra['id']}"})
  return findings


# ---------------------------------------------------------------------------------------------------------------------
# independent WebVTT parser for the writer's output (WebVTT 6.1 file parser, 6.4 cue text tokenizer)
# ---------------------------------------------------------------------------------------------------------------------

_TS = r"(?:(\d{2,}):)?([0-5]\d):([0-5]\d)\.(\d{3})"
_TIMING_RE = re.compile(r"[ \t]*" + _TS + r"[ \t]*-->[ \t]*" + _TS + r"(.*)")


def spec_cue_text(raw):
  """Concatenated string tokens of the WebVTT cue text tokenizer (6.4): the text a conforming parser puts in the cue's
  nodes. `<` starts a tag that ends at the next `>` (or end of text); character references follow HTML."""
  out = []
  pos = 0
  n = len(raw)
  while pos < n:
    lt = raw.find("<", pos)
    if lt == -1:
      out.append(html.unescape(raw[pos:]))
      break
    if lt > pos:
      out.append(html.unescape(raw[pos:lt]))
    gt = raw.find(">", lt)
    pos = n if gt == -1 else gt + 1
  return "".join(out)


def spec_parse_file(text):
  """Cues of a WebVTT file per the parser of WebVTT 6.1: list of (begin ms, end ms, payload text)."""
  text = text.replace("\r\n", "\n").replace("\r", "\n")
  if text.startswith("﻿"):
    text = text[1:]
  lines = text.split("\n")
  if lines and lines[-1] == "":
    lines.pop()
  if not lines or not re.fullmatch(r"WEBVTT([ \t].*)?", lines[0]):
    return None
  pos = 1
  cues = []
  # header: lines up to the first blank line
  in_header = True
  while pos < len(lines):
    # collect a block
    line_count = 0
    buf = []
    cue = None
    seen_arrow = False
    while pos < len(lines):
      line = lines[pos]
      line_count += 1
      if "-->" in line:
        if not in_header and (line_count == 1 or (line_count == 2 and not seen_arrow)):
          seen_arrow = True
          m = _TIMING_RE.fullmatch(line)
          if m:
            g = m.groups()
            b = int(g[0] or 0) * 3600000 + int(g[1]) * 60000 + int(g[2]) * 1000 + int(g[3])
            e = int(g[4] or 0) * 3600000 + int(g[5]) * 60000 + int(g[6]) * 1000 + int(g[7])
            cue = [b, e, None]
            buf = []
          else:
            cue = None
          pos += 1
        else:
          break     # the line starts the next block
      elif line == "":
        pos += 1
        break
      else:
        buf.append(line)
        pos += 1
    if cue is not None:
      cue[2] = spec_cue_text("\n".join(buf))
      cues.append(tuple(cue))
    in_header = False
  return cues


def roundtrip(doc, stats, only_config=None):
  """Clause 8: every writer configuration; the re-read document must hold the cues of the written text."""
  from ttconv.vtt import writer
  from ttconv.vtt.config import VTTWriterConfiguration
  findings = []
  for cfg in WRITER_CONFIGS:
    if only_config is not None and cfg != only_config:
      continue
    try:
      written = writer.from_model(doc, VTTWriterConfiguration(**cfg))
    except Exception as e:  # pylint: disable=broad-except
      stats["roundtrip:writer-raised:" + exc_site(e)] += 1
      continue
    cues = spec_parse_file(written)
    if cues is None:
      stats["roundtrip:written-text-not-webvtt"] += 1
      continue
    stats["clause:roundtrip"] += 1
    stats["roundtrip:cues"] += len(cues)

    def add(clause, what):
      findings.append({"clause": clause, "cue": None, "config": cfg, "what": f"writer config {cfg}: {what}; written text {written!r}"})
    try:
      doc2 = read_text(written)
    except Exception as e:  # pylint: disable=broad-except
      add("roundtrip-reader-raises:" + exc_site(e), f"reading the writer's output raised {type(e).__name__}: {e}")
      continue
    ps = doc_paragraphs(doc2)
    if len(ps) != len(cues):
      add("roundtrip-cue-count", f"{len(cues)} cues written, {len(ps)} paragraphs read back")
      continue
    for k, ((b, e, txt), p) in enumerate(zip(cues, ps)):
      ob, oe = p.get_begin(), p.get_end()
      if ob is None or oe is None or abs(Fraction(ob) - Fraction(b, 1000)) > TTOL or abs(Fraction(oe) - Fraction(e, 1000)) > TTOL:
        add("roundtrip-time", f"cue {k}: written {b} ms --> {e} ms, read back {ob!r} --> {oe!r}")
        break
      try:
        ot = _text_of(observe_p(p))
      except Exception as ex:  # pylint: disable=broad-except
        add("observe-raises", f"walking re-read paragraph {k} raised {type(ex).__name__}: {ex}")
        break
      if ot != txt:
        add("roundtrip-text", f"cue {k}: written payload means {txt.split(chr(10))!r}, read back {ot.split(chr(10))!r}")
        break
  return findings


# ---------------------------------------------------------------------------------------------------------------------
# evaluation of one file, shrinking, reporting
# ---------------------------------------------------------------------------------------------------------------------

_REGION_FACTS = ("x", "y", "w", "h", "display_align", "text_align", "writing_mode")


def isolation(doc, ast, stats):
  """Cue settings select the region: the region facts of a cue must not depend on the other cues of the file.  Each cue
  is read again alone in a file and its origin / extent / displayAlign / textAlign / writingMode are compared.  Also counts
  the pairs of cues that collide on origin and extent when read alone while differing in an alignment or writing mode
  (class:colliding-settings)."""
  findings = []
  cues = [it for it in ast["items"] if it["k"] == "cue"]
  ps = doc_paragraphs(doc)
  if len(ps) != len(cues):
    return findings
  alone = []
  for cue in cues:
    try:
      p1 = doc_paragraphs(read_text(G.render_file(G.single_cue_file(cue))))
      alone.append(observe_region(p1[0]) if len(p1) == 1 else None)
    except Exception:  # pylint: disable=broad-except
      alone.append(None)
  for (ca, ra), (cb, rb) in itertools.combinations(enumerate(alone), 2):
    if ra is not None and rb is not None and all(ra[k] == rb[k] for k in "xywh") \
       and any(ra[k] != rb[k] for k in ("display_align", "text_align", "writing_mode")):
      stats["class:colliding-settings"] += 1
  for ci, (cue, p, ra) in enumerate(zip(cues, ps, alone)):
    if ra is None:
      continue
    stats["clause:isolation"] += 1
    ro = observe_region(p)
    diff = [k for k in _REGION_FACTS if ro is None or ro[k] != ra[k]]
    if diff:
      sett = " ".join(n + ":" + v for n, v in cue["settings"]) or "(no settings)"
      other = next((k for k, q in enumerate(ps) if k != ci and ro is not None and q.get_region() is p.get_region()), None)
      findings.append({"clause": "region-depends-on-other-cues", "cue": ci, "cue2": other,
                       "what": f"cue {ci} [{sett}]: read alone its region has " + ", ".join(f"{k}={_show(ra[k])}" for k in diff)
                               + "; in this file " + ", ".join(f"{k}={_show(ro[k]) if ro else None}" for k in diff)
                               + (f" (region {ro['id']} shared with cue {other})" if other is not None and ro else "")})
  return findings


def snap_alignment(doc, ast, stats):
  """WebVTT 7.2: a cue whose line is a line number snaps to lines and its line alignment is not used (it positions
  percentage lines only).  `line:N,<alignment>` must therefore select the region facts of `line:N`: the cue is read again
  alone in a file with the alignment removed and origin / extent / displayAlign / textAlign / writingMode are compared."""
  import copy
  findings = []
  cues = [it for it in ast["items"] if it["k"] == "cue"]
  ps = doc_paragraphs(doc)
  if len(ps) != len(cues):
    return findings
  for ci, (cue, p) in enumerate(zip(cues, ps)):
    ln = [v for n, v in cue["settings"] if n == "line"]
    if len(ln) != 1 or "%" in ln[0] or "," not in ln[0]:
      continue
    bare = copy.deepcopy(cue)
    bare["settings"] = [[n, v.partition(",")[0] if n == "line" else v] for n, v in cue["settings"]]
    try:
      p1 = doc_paragraphs(read_text(G.render_file(G.single_cue_file(bare))))
    except Exception:  # pylint: disable=broad-except
      continue
    if len(p1) != 1:
      continue
    ra, ro = observe_region(p1[0]), observe_region(p)
    if ra is None or ro is None:
      continue
    stats["clause:line-number-alignment"] += 1
    diff = [k for k in _REGION_FACTS if ro[k] != ra[k]]
    if diff:
      sett = " ".join(n + ":" + v for n, v in cue["settings"])
      findings.append({"clause": "line-number-alignment-used", "cue": ci,
                       "what": f"cue {ci} [{sett}]: the line alignment of a line number changes the region: without it "
                               + ", ".join(f"{k}={_show(ra[k])}" for k in diff) + "; with it " + ", ".join(f"{k}={_show(ro[k])}" for k in diff)})
  return findings


def evaluate(text, ast, stats, do_roundtrip=False, only_config=None):
  """Runs the reader on `text` and returns the findings against `ast`."""
  try:
    doc = read_text(text)
  except Exception as e:  # pylint: disable=broad-except
    return [{"clause": "reader-raises:" + exc_site(e), "cue": None, "what": f"to_model raised {type(e).__name__}: {e}"}], None
  stats["files:read"] += 1
  findings = compare_doc(doc, ast, stats)
  if ast.get("isolate"):
    findings += isolation(doc, ast, stats)
  findings += snap_alignment(doc, ast, stats)
  if do_roundtrip:
    findings += roundtrip(doc, stats, only_config)
  return findings, doc


def _cue_candidates(cue):
  """Smaller / simpler variants of one cue (all inside the grammar)."""
  def variant():
    return copy.deepcopy(cue)
  if cue["id"] is not None:
    c = variant(); c["id"] = None; yield c
  if cue.get("sep") != [" ", " ", " "]:
    c = variant(); c["sep"] = [" ", " ", " "]; yield c
  if cue.get("hours", "auto") != "auto":
    c = variant(); c["hours"] = "auto"
    for n, _d, _p in G.iter_nodes(c["body"]):
      if n["t"] == "ts":
        n["hours"] = "auto"
    yield c
  for j in range(len(cue["settings"])):
    c = variant(); del c["settings"][j]; yield c
    if "," in cue["settings"][j][1]:
      c = variant(); c["settings"][j][1] = c["settings"][j][1].split(",")[0]; yield c
  # body edits, addressed by path
  def paths(nodes, prefix=()):
    for k, n in enumerate(nodes):
      yield prefix + (k,)
      if n["t"] == "tag":
        yield from paths(n["kids"], prefix + (k,))

  def locate(body, path):
    nodes = body
    for k in path[:-1]:
      nodes = nodes[k]["kids"]
    return nodes, path[-1]

  for path in sorted(paths(cue["body"]), key=len):
    c = variant()
    nodes, k = locate(c["body"], path)
    node = nodes[k]
    del nodes[k]
    yield c
    if node["t"] == "tag":
      c = variant()
      nodes, k = locate(c["body"], path)
      kids = []
      for kid in nodes[k]["kids"]:
        if kid["t"] == "tag" and kid["name"] == "rt" and nodes[k]["name"] == "ruby":
          kids.extend(kid["kids"])
        else:
          kids.append(kid)
      nodes[k:k + 1] = kids
      yield c
      if node["classes"]:
        for q in range(len(node["classes"])):
          c = variant()
          nodes, k = locate(c["body"], path)
          del nodes[k]["classes"][q]
          yield c
      if node["name"] == "v" and node["annot"] != "Bob":
        c = variant()
        nodes, k = locate(c["body"], path)
        nodes[k]["annot"] = "Bob"
        yield c
      if not node.get("close", True):
        c = variant()
        nodes, k = locate(c["body"], path)
        nodes[k]["close"] = True
        yield c
    elif node["t"] == "text" and node["raw"] != node["dec"]:
      c = variant()
      nodes, k = locate(c["body"], path)
      nodes[k] = {"t": "text", "raw": "w", "dec": "w"}
      yield c
  if cue["b"] not in (0, 10000):
    for nb in (10000, 0):
      c = variant(); d = nb - c["b"]; c["b"] += d; c["e"] += d
      for n, _d, _p in G.iter_nodes(c["body"]):
        if n["t"] == "ts":
          n["ms"] += d
      yield c



def _file_candidates(ast):
  items = ast["items"]
  ncues = sum(1 for it in items if it["k"] == "cue")
  for k, it in enumerate(items):
    if it["k"] != "cue" or ncues > 1:
      c = copy.deepcopy(ast); del c["items"][k]; yield c
  simple = {"bom": False, "eol": "\n", "header": "WEBVTT", "header_blanks": 1, "final_eols": 1}
  for key, val in simple.items():
    if ast.get(key) != val:
      c = copy.deepcopy(ast); c[key] = val; yield c
  for k, it in enumerate(items):
    if it.get("blanks", 1) != 1:
      c = copy.deepcopy(ast); c["items"][k]["blanks"] = 1; yield c
  if ncues > 1:
    # the same setting removed from every cue at once (keeps 'equal settings' equal)
    names = sorted({n for it in items if it["k"] == "cue" for n, _v in it["settings"]})
    for name in names:
      c = copy.deepcopy(ast)
      for it in c["items"]:
        if it["k"] == "cue":
          it["settings"] = [x for x in it["settings"] if x[0] != name]
      yield c
  for k, it in enumerate(items):
    if it["k"] == "cue":
      had_empty = "empty-tag" in G.cue_features(it)
      for cand in _cue_candidates(it):
        if G.valid_cue(cand) and (had_empty or "empty-tag" not in G.cue_features(cand)):
          c = copy.deepcopy(ast); c["items"][k] = cand; yield c


def shrink(ast, clause, roundtrip_cfg=None, budget=400):
  """Greedy AST-level minimisation keeping a finding of the same clause."""
  import collections

  def pred(a):
    st = collections.Counter()
    f, _ = evaluate(G.render_file(a), a, st, do_roundtrip=roundtrip_cfg is not None, only_config=roundtrip_cfg)
    return any(x["clause"] == clause for x in f)

  changed = True
  while changed and budget > 0:
    changed = False
    for cand in _file_candidates(ast):
      budget -= 1
      if budget <= 0:
        break
      try:
        ok = pred(cand)
      except Exception:  # pylint: disable=broad-except
        ok = False
      if ok:
        ast = cand
        changed = True
        break
  return ast


def file_features(ast):
  f = set()
  for it in ast["items"]:
    if it["k"] == "cue":
      f |= G.cue_features(it)
    else:
      f.add("block:" + it["k"])
  if ast["eol"] != "\n":
    f.add("crlf" if ast["eol"] == "\r\n" else "cr")
  if ast.get("bom"):
    f.add("bom")
  if ast["header"] != "WEBVTT":
    f.add("header-text")
  ncues = sum(1 for it in ast["items"] if it["k"] == "cue")
  if ncues > 1:
    f.add("cues>=2")
  return f


NO_SHRINK = set()
# features that describe surface syntax already covered by a dedicated clause; dropped from mech keys unless alone
_SURFACE = {"id", "hours"}
_DERIVED = {"depth3"}          # implied by the structure already described by other features


_TAGS = {"b", "i", "u", "v", "lang", "c", "c.fg", "c.bg"}


def mech_of(clause, ast):
  """`clause:features` - features of the (minimised) witness, value-free and coarse: simple tags are all `tag`, a
  timestamp inside a tag is `ts-in-tag`."""
  feats = file_features(ast)
  f = set()
  for x in feats:
    if x in _TAGS:
      f.add("tag")
    elif x == "rt":
      f.add("ruby")
    elif x == "ts" and ("ts-in-tag" in feats or "ts>=2" in feats):
      pass
    elif x.startswith("position,"):
      f.add("position")
    elif x == "line:pct-frac":
      pass
    elif x.startswith("cref,"):
      f.add("cref")
      f.add(x)
    else:
      f.add(x)
  if "unclosed-rt" in f:
    f = {"ruby", "unclosed-rt"}          # </ruby> while <rt> is open: what follows only changes the symptom
  f = {x for x in f if not any(y.startswith(x + ",") for y in f)}     # keep the most specific of a hierarchy
  f -= _DERIVED
  core_feats = f - _SURFACE
  return clause + (":" + "+".join(sorted(core_feats or f)) if (core_feats or f) else "")


def _ruby_below_span(ast):
  """True when some cue has a <ruby> inside another tag or after an inline timestamp, i.e. where the reader has a span
  open and would have to put the ruby container inside it."""
  for it in ast["items"]:
    if it["k"] != "cue":
      continue
    ts_seen = False
    for n, _depth, parents in G.iter_nodes(it["body"]):
      if n["t"] == "ts":
        ts_seen = True
      elif n["t"] == "tag" and n["name"] == "ruby" and (parents or ts_seen):
        return True
  return False


def known_finding(clause, what, ast):
  """Exact classifiers of recorded findings: one predicate per mechanism, evaluated on the clause, the exception and
  the structure of the (minimised) witness - never on values."""
  if (clause == "reader-raises:TypeError@model.push_child" and "Children of span must be span or br instances" in what
      and _ruby_below_span(ast)):
    # the canonical model only allows Ruby as a child of P (model.Span.push_child rejects it)
    return "D-VTT-RUBY-IN-SPAN"
  return None


class Reporter:
  """De-duplicates findings per shard: a finding whose file's features include those of an already minimised witness of
  the same clause is presumed to be the same mechanism and only counted."""
  MAX_SHRINKS = 400

  def __init__(self, ctx):
    self.ctx = ctx
    self.known = {}      # clause -> list of (frozenset(features), mech, violation-count key)
    self.shrinks = 0
    self.queue = {}     # (clause, features) -> [first finding, its (restricted) AST, multiplicity]

  def report(self, finding, text, ast):
    """Queues a finding (restricted to the cue(s) concerned when it reproduces there); flush() reports."""
    import collections
    ctx = self.ctx
    clause = finding["clause"]
    if ctx.replay_mode:
      ctx.violation(mech_of(clause, ast), f"{finding['what']} | input {text!r}",
                    {"text": text, "ast": ast, "clause": clause, "config": finding.get("config")},
                    finding=known_finding(clause, finding["what"], ast))
      return
    sub = ast
    if finding.get("cue") is not None:
      cues = [it for it in ast["items"] if it["k"] == "cue"]
      idx = sorted({finding["cue"]} | ({finding["cue2"]} if finding.get("cue2") is not None else set()))
      cand = G.single_cue_file(cues[idx[0]])
      cand["items"] = [copy.deepcopy(cues[k]) for k in idx]
      if ast.get("isolate"):
        cand["isolate"] = True
      pre = (clause, frozenset(file_features(cand)))
      if pre in self.queue:
        self.queue[pre][2] += 1      # same clause, same features, and the first one reproduced in isolation
        return
      f2, _ = evaluate(G.render_file(cand), cand, collections.Counter(), do_roundtrip=finding.get("config") is not None,
                       only_config=finding.get("config"))
      if any(x["clause"] == clause for x in f2):
        self.queue[pre] = [finding, cand, 1]
        return
    key = (clause, frozenset(file_features(sub)))
    if key in self.queue:
      self.queue[key][2] += 1
    else:
      self.queue[key] = [finding, sub, 1]

  def flush(self):
    """Minimises and reports the queued findings, most general feature sets first, so that the mech keys do not depend
    on the order in which the generator happened to produce the witnesses."""
    import collections
    ctx = self.ctx
    order = sorted(self.queue.items(), key=lambda kv: (len(kv[0][1]), sorted(kv[0][1]), kv[0][0]))
    for (clause, feats), (finding, sub, mult) in order:
      hit = next(((mech, key) for kf, mech, key in self.known.get(clause, []) if kf <= feats), None)
      if hit is not None:
        ctx.count("presumed-same:" + hit[0], mult)
        ctx.violation_counts[hit[1]] += mult       # real findings of this clause; only their attribution is presumed
        continue
      if self.shrinks >= self.MAX_SHRINKS:
        ctx.count("not-minimised:" + clause, mult)
        continue
      self.shrinks += 1
      small = shrink(sub, clause, roundtrip_cfg=finding.get("config"))
      stext = G.render_file(small)
      f3, _ = evaluate(stext, small, collections.Counter(), do_roundtrip=finding.get("config") is not None,
                       only_config=finding.get("config"))
      what = next((x["what"] for x in f3 if x["clause"] == clause), finding["what"])
      mech = mech_of(clause, small)
      fid = known_finding(clause, what, small)
      self.known.setdefault(clause, []).append((frozenset(file_features(small)), mech, fid or mech))
      ctx.violation(mech, f"{what} | minimal input {stext!r}", {"text": stext, "ast": small, "clause": clause,
                                                               "config": finding.get("config")}, finding=fid)
      if mult > 1:
        ctx.count("presumed-same:" + mech, mult - 1)
        ctx.violation_counts[fid or mech] += mult - 1
    self.queue = {}


def count_classes(ctx, ast):
  ctx.count("class:crlf" if ast["eol"] == "\r\n" else ("class:lf" if ast["eol"] == "\n" else "class:cr"))
  for it in ast["items"]:
    if it["k"] != "cue":
      ctx.count("class:" + it["k"])
      continue
    ctx.count("class:id" if it["id"] is not None else "class:no-id")
    ctx.count("class:hours" if (it["b"] >= 3600000 or it.get("hours", "auto") != "auto") else "class:no-hours")
    for f in G.cue_features(it):
      if f.startswith(("line:", "align:")):
        ctx.count("set:" + f.split(",")[0])
        if f.startswith("align:"):
          ctx.count("set:align")
      else:
        ctx.count("feat:" + f)


def check_file(ctx, rep, text, ast, do_roundtrip):
  import collections
  ctx.ev()
  stats = collections.Counter()
  findings, doc = evaluate(text, ast, stats, do_roundtrip=do_roundtrip)
  count_classes(ctx, ast)
  cues = [it for it in ast["items"] if it["k"] == "cue"]
  if any(G.is_nontrivial(c) for c in cues):
    ctx.nontriv(text)
  if doc is None and len(cues) > 1:
    # the reader raised: the cues are still judged one by one (each alone in a file) so that one crash does not hide the rest
    whole, findings = findings, []
    isolated = 0
    for c in cues:
      sub = G.single_cue_file(c, ast["eol"])
      stext = G.render_file(sub)
      f1, _ = evaluate(stext, sub, stats, do_roundtrip=False)
      for f in f1:
        if f["clause"].startswith("reader-raises"):
          isolated += 1
        rep.report(f, stext, sub)
    ctx.count("isolated-cue-raises", isolated)
    if not isolated:
      for f in whole:          # the exception needs the context of the whole file: report (and minimise) it as such
        rep.report(f, text, ast)
  for f in findings:
    rep.report(f, text, ast)
  for k, v in stats.items():
    ctx.count(k, v)


def run(ctx, params):
  rep = Reporter(ctx)
  try:
    _run(ctx, rep, params)
  finally:
    rep.flush()


def _run(ctx, rep, params):
  kind = params["kind"]
  if kind == "grammar":
    rng = ctx.rng("grammar", params["part"])
    for i in range(params["files"]):
      text, ast = G.gen_file(rng, {})
      check_file(ctx, rep, text, ast, do_roundtrip=(i % params["roundtrip_every"] == 0))
      if i < 2 and params["part"] == 0:
        ctx.sample({"file": text})
  elif kind == "settings":
    # the full product of the representative cue-setting values, 12 cues per file, plain one-line payloads
    rng = ctx.rng("settings", params["part"])
    combos = list(G.all_setting_combinations())
    combos = combos[params["part"]::params["parts"]][::params["stride"]]
    if params["part"] == 0:
      far = list(G.far_line_combinations())
      combos += far
      ctx.count("settings:far-line-numbers", len(far))
    ctx.count("settings:combinations", len(combos))
    for lo in range(0, len(combos), 12):
      tok = G._Tok("k")  # pylint: disable=protected-access
      ast = {"bom": False, "eol": rng.choice(["\n", "\r\n"]), "header": "WEBVTT", "header_blanks": 1, "items": [], "final_eols": 1}
      t = 0
      group = combos[lo:lo + 12]
      # one earlier combination is repeated (reordered) so that every file also exercises region sharing
      if len(group) > 1:
        dup = copy.deepcopy(group[rng.randrange(len(group))])
        rng.shuffle(dup)
        group = group + [dup]
      for s in group:
        cue = {"k": "cue", "id": None, "b": t, "e": t + 2000, "hours": "auto", "sep": [" ", " ", " "],
               "settings": copy.deepcopy(s), "body": [{"t": "text", "raw": tok(), "dec": None}], "blanks": 1}
        cue["body"][0]["dec"] = cue["body"][0]["raw"]
        if rng.random() < 0.3:
          rng.shuffle(cue["settings"])
        ast["items"].append(cue)
        t += 2000
      text = G.render_file(ast)
      check_file(ctx, rep, text, ast, do_roundtrip=(lo // 12) % 40 == 0)
      if lo == 0 and params["part"] == 0:
        ctx.sample({"file": text[:600]})
  elif kind == "collide":
    # cue settings that select the same origin and extent but differ in one judged attribute, in every order, 2-3 cues
    n = 0
    for fam in COLLIDING:
      seqs = list(itertools.permutations(range(len(fam)), 2))
      seqs += [q for q in itertools.permutations(range(len(fam)), 3)][:24]
      seqs += [(a, b, a) for a, b in itertools.permutations(range(len(fam)), 2)][:6]     # equal settings again after a collision
      for seq in seqs:
        tok = G._Tok("k")  # pylint: disable=protected-access
        ast = {"bom": False, "eol": "\n" if n % 2 == 0 else "\r\n", "header": "WEBVTT", "header_blanks": 1, "items": [],
               "final_eols": 1, "isolate": True}
        for k, fi in enumerate(seq):
          w = tok()
          ast["items"].append({"k": "cue", "id": None, "b": 10000 + 2000 * k, "e": 12000 + 2000 * k, "hours": "auto",
                               "sep": [" ", " ", " "], "settings": [x.split(":", 1) for x in fam[fi].split()],
                               "body": [{"t": "text", "raw": w, "dec": w}], "blanks": 1})
        text = G.render_file(ast)
        check_file(ctx, rep, text, ast, do_roundtrip=False)
        ctx.count("collide:files")
        if n == 3:
          ctx.sample({"file": text})
        n += 1
  elif kind == "optional":
    # classes that mainly belong to C18 (robustness) or that stretch the grammar: separate mech keys through features
    rng = ctx.rng("optional")
    for i in range(params["files"]):
      mode = i % 5
      if mode == 0:
        opts = {"annot_cref": True, "ncues": [1, 2], "p_tags": 1.0}
      elif mode == 1:
        opts = {"id_kw": True, "ncues": [2, 3]}
      elif mode == 2:
        opts = {"ruby_in_tag": True, "tag_in_ruby": True, "p_tag_in_ruby": 0.8, "p_ruby_run": 0.6, "ncues": [1, 2], "p_tags": 1.0}
      elif mode == 3:
        opts = {"rt_outside": True, "ncues": [1, 2]}
      else:
        opts = {"ncues": [1]}
      text, ast = G.gen_file(rng, opts)
      ctx.count("optional:mode%d" % mode)
      check_file(ctx, rep, text, ast, do_roundtrip=False)
    # the empty file and the header-only files
    for text in ("", "WEBVTT", "WEBVTT\n", "WEBVTT\n\n"):
      ctx.ev()
      ctx.count("optional:no-cue-file")
      ast = {"bom": False, "eol": "\n", "header": "WEBVTT", "header_blanks": 1, "items": [], "final_eols": 1}
      try:
        doc = read_text(text)
        n = len(doc_paragraphs(doc))
        if n:
          ctx.violation("no-cue-file-yields-paragraphs", f"{text!r} yields {n} paragraphs", {"text": text, "ast": ast, "clause": "x"})
      except Exception as e:  # pylint: disable=broad-except
        ctx.violation("reader-raises:" + exc_site(e) + (":empty-file" if text == "" else ":header-only"),
                      f"to_model({text!r}) raised {type(e).__name__}: {e}", {"text": text, "ast": ast, "clause": "raises"})


def replay(ctx, payload):
  import collections
  text, ast = payload["text"], payload["ast"]
  stats = collections.Counter()
  cfg = payload.get("config")
  if not ast["items"]:
    try:
      read_text(text)
    except Exception as e:  # pylint: disable=broad-except
      ctx.violation("reader-raises:" + exc_site(e), f"to_model({text!r}) raised {type(e).__name__}: {e}", payload)
    return
  findings, _ = evaluate(text, ast, stats, do_roundtrip=cfg is not None, only_config=cfg)
  rep = Reporter(ctx)
  want = payload.get("clause")
  for f in findings:
    if want is None or f["clause"] == want:      # the recorded clause only; other clauses have their own replay files
      rep.report(f, text, ast)


def finalize(tier, counters):
  return {"settings_product_exhaustive": tier == "thorough",
          "setting_combinations_evaluated": counters.get("settings:combinations", 0),
          "roundtrip_cues_compared": counters.get("roundtrip:cues", 0)}
