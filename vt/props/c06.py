"""C06 - SRT/WebVTT cues carry exactly the visible text over exactly its intervals."""
from fractions import Fraction

from vt.gen import model_docs
from vt.props import _cuework
from vt.ref import build

ID = "C06"
RULE = ("documents from vt/gen/model_docs.py profile 'text' (1-3 simultaneously active regions, several div/p per region incl. nested divs, "
        "nested spans, br runs, ruby, default/preserve space, sub-millisecond and unbounded intervals; unique text tokens) x SRT "
        "text_formatting on/off x VTT {line_position, text_align, cue_id} (8 combinations). Non-trivial: document with >= 1 expected cue; "
        "distinct = distinct documents")
ASSUMPTIONS = [
  "intervals are taken from the OBSERVED ISD.significant_times(doc) (C02 judges that list); payload expected from the reference ISD",
  "times rounded to the nearest millisecond with exact Fractions, either neighbour accepted at exact .5 ties; a cue whose rounded begin "
  "equals its rounded end may not appear",
  "ruby: base text mandatory and ordered; annotation (rt/rp) text may be written or not (all or none per cue)",
  "with VTT line_position the expected output has one cue per region with text per interval, in region order",
  "text compared as token lines (unique tokens identify every visible non-space character)",
]
REQUIRED = ["outputs:srt", "outputs:vtt", "cues:compared", "class:multi-region-active", "class:ruby", "class:preserve-space",
            "class:regions:0", "class:regions:many", "class:carry-offset"]
SHARD_TIMEOUT = {"quick": 900, "thorough": 7200}
N = {"quick": 30, "thorough": 1250}


def plan(tier, seed):
  return [{"n": N[tier], "shard": i} for i in range(16)]


# offsets just below a minute / hour boundary and off the millisecond grid: rounding to the nearest millisecond carries into the
# seconds, minutes and hours fields of the printed time codes
CARRY_OFFSETS = [Fraction(599996, 10000), Fraction(359999975, 100000), Fraction(1199997, 10000), Fraction(599995, 10000),
                 Fraction(3599) + Fraction(9996, 10000), Fraction(59) + Fraction(9994, 10000)]


def apply_carry(rng, adoc):
  """Shifts the body (and timed regions) so that the body begin, or an instant 1-3 s after it (where elements of the time grid
  begin and end: a later cue, not only the first one), falls on a carry offset."""
  off = rng.choice(CARRY_OFFSETS) - rng.choice([0, 0, 1, 2, 3])
  adoc.body.begin = (adoc.body.begin or 0) + off
  if adoc.body.end is not None:
    adoc.body.end += off
  for r in adoc.regions:
    # keep timed regions aligned with the shifted content
    if r.begin is not None:
      r.begin += off
    if r.end is not None:
      r.end += off


def gen(rng):
  # (p_markup: words carrying & < > and entity look-alikes - what the cue shows is the text itself, after one round of unescaping)
  adoc, classes = model_docs.generate(rng, "text", None, p_uspace=0.1, p_markup=0.12)
  if adoc.body is not None and rng.random() < 0.25:
    apply_carry(rng, adoc)
    classes = set(classes) | {"carry-offset"}
  return adoc, classes


def run(ctx, params):
  for i in range(params["n"]):
    rng = ctx.rng("doc", params["shard"], i)
    adoc0, classes = gen(rng)
    s = build.dumps(adoc0)
    _cuework.check_doc(ctx, build.build_doc(adoc0), {"doc": s}, {"C06"}, classes)


def replay(ctx, payload):
  _cuework.check_doc(ctx, build.build_doc(build.loads(payload["doc"])), {"doc": payload["doc"]}, {"C06"})
