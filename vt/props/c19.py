"""C19 - `tt convert` equals the library pipeline, honours options, is deterministic.

The real CLI (`ttconv.tt.main(argv)`, in-process) is executed on (input, argv, configuration) triples while the
oracle - the harness's own composition of the library and the README table of documented configuration values
(vt/ref/cli.py) - says what the output bytes / the outcome must be. Shard kinds:
  conv     option-set workload over all 5x3 (input, output) pairs            (clauses 1-4, 6, 7-progress/log)
  table    every README table entry (valid, boundary, invalid, lenient) through the CLI        (clause 6)
  parse    every README table entry through <ConfigClass>.parse                                 (clause 6)
  errors   unsupported types, unknown sub-commands: error and no output file                    (clause 5)
  history  the same conversions in random orders in one interpreter vs a fresh interpreter each (clause 7)
  hashseed the same conversions in sub-processes with PYTHONHASHSEED in {0,1,2,12345,random}   (clause 7)
"""
import base64
import contextlib
import hashlib
import io
import json
import os
import shutil
import subprocess
import sys

from vt import core
from vt.ref import cli as R

ID = "C19"
RULE = ("case = (input file, argv of `tt convert`, configuration): inputs are bundled corpus files plus generated tiny "
        "files of all five formats; argv/config drawn round-robin from option-set kinds (plain, extension letter case, "
        "explicit --itype/--otype incl. misleading extensions, --filter lcd (x1, x2) and two harness-registered "
        "non-commuting probe filters in several orders, reader/writer/filter/general "
        "configurations from the README table, --config_file, --config + --config_file in conflict, unused-module "
        "configuration, empty module dictionaries) over all 15 (input, output) format pairs; every README table entry "
        "(valid, boundary, invalid, lenient) is additionally enumerated through the CLI and through parse(). "
        "Non-trivial: the CLI produced a non-empty output with >= 1 cue/paragraph; distinct = distinct (input bytes, "
        "argv, configuration) triples")
ASSUMPTIONS = [
  "readers, filters and writers are the real library ones (trusted base): the property is about the CLI layer, "
  "configuration parsing and process-global state",
  "absent module key = library call without configuration (reader/writer) resp. config_class() (filter); TTML bytes of "
  "the library composition = ElementTree.write(encoding='utf-8'); SRT/VTT = the writer's string encoded as UTF-8",
  "filter order / registry / per-filter configuration look-up are made observable with two probe filters (vta, vtb: append a "
  "suffix to every text node) registered by subclassing DocumentFilter, the library's public extension point",
  "document_lang is applied to the document returned by the reader, before the filters (README: language of the input document)",
  "abstains: unknown --filter names; unknown keys / unknown modules in the JSON; invalid values in modules the conversion "
  "does not use; JSON null where README does not list null; numbers for boolean keys and booleans/non-integral numbers/"
  "digit strings for integer keys; letter-case variants of enumerated values (TCP/tcp, LEFT); white space inside fps; "
  "zero or negative fps; well-formedness of RFC 5646 tags and TTML font-family/colour component ranges; log levels known "
  "to `logging` but not to README (DEBUG...); clock_time_with_frames with a fractional fps; broken inline JSON when "
  "a config file is also given; file existence after errors other than unsupported type / unknown sub-command; "
  "`tt` without sub-command; option abbreviations; BOM / non-UTF-8 inputs",
  "progress-bar display is judged only from the text written to the CLI's log handler and only when `general` is present",
  "history independence is sampled (random orders), not all histories; hash seeds {0,1,2,12345,random}",
]
REQUIRED = (
  ["pair:%s->%s" % (i, o) for i in R.IN_TYPES for o in R.OUT_TYPES]
  + ["c1:bytes-compared", "c1:direct-compared", "c2:ext-case", "c2:explicit-type", "c2:type-overrides-extension",
     "c3:both-observable", "c3:config-file-only", "c4:lang-in-ttml", "c5:unsupported-input", "c5:unsupported-output",
     "c5:unknown-subcommand", "c4:lang-with-null-log-level", "c6:cli-valid", "c6:cli-invalid", "c6:cli-lenient-judged", "c6:parse-valid",
     "c6:parse-invalid", "c6:parse-lenient", "c7:hashseed-compared", "c7:history-compared", "c7:general-variants",
     "c7:progress-judged", "c7:progress-shown", "c7:progress-after-incomplete-bar", "filter:lcd", "filter:lcd-twice", "filter:probe-order", "filter:unknown-name", "kind:unused", "kind:empty-module", "nontrivial"]
)
SHARD_TIMEOUT = {"quick": 600, "thorough": 3000}

WORKROOT = os.path.join(core.WORK, "c19")
RES = os.path.join(core.REPO, "src/test/resources")
XML_LANG = "{http://www.w3.org/XML/1998/namespace}lang"

CORPUS_QUICK = {
  "ttml": ["ttml/referential_styling.ttml", "ttml/body_only.ttml", "ttml/lwsp_default.ttml"],
  "scc": ["scc/pop-on.scc", "scc/paint-on.scc"],
  "stl": ["stl/sandflow/vp18_3_lines.stl", "stl/sandflow/br_new_colors.stl", "stl/irt/requirement-0076-001.stl"],
  "srt": [],
  "vtt": ["vtt/style.vtt", "vtt/alignment.vtt", "vtt/position.vtt"],
}
KINDS = ["plain", "ext-case", "explicit", "filter", "writer-cfg", "reader-cfg", "lang", "general", "config-file", "both",
         "unused", "empty-module", "mixed"]
PAIRS = [(i, o) for i in R.IN_TYPES for o in R.OUT_TYPES]


# ----------------------------------------------------------------------------------------------------------------
# inputs

def corpus(tier):
  out = {k: list(v) for k, v in CORPUS_QUICK.items()}
  if tier == "thorough":
    out["scc"].append("scc/mix-rows-roll-up.scc")
    out["ttml"].append("ttml/lwsp_preserve.ttml")
    for sub, fmt, cap in (("stl/sandflow", "stl", 6), ("stl/irt", "stl", 30), ("vtt", "vtt", 4)):
      d = os.path.join(RES, sub)
      for name in sorted(os.listdir(d)):
        p = os.path.join(d, name)
        rel = sub + "/" + name
        if name.endswith("." + fmt) and os.path.isfile(p) and os.path.getsize(p) <= 2400 and rel not in out[fmt]:
          if sum(1 for x in out[fmt] if x.startswith(sub + "/")) < cap:
            out[fmt].append(rel)
  return out


WORDS = ["Hello", "wörld", "caption", "línea", "two", "ttconv", "naïve", "test", "subtitle", "row", "end", "Größe"]
ASCII_WORDS = ["Hello", "world", "caption", "line", "two", "ttconv", "plain", "test", "subtitle", "row", "end", "size"]


def _clock(ms, sep):
  return "%02d:%02d:%02d%s%03d" % (ms // 3600000, ms // 60000 % 60, ms // 1000 % 60, sep, ms % 1000)


def gen_ttml(rng):
  lang = rng.choice(["en", "fr", "de", "", "en-GB"])
  n = rng.randint(1, 4)
  ps, t = [], rng.choice([0, 500, 1000])
  for i in range(n):
    d = rng.choice([800, 1500, 2000, 2400])
    a, b = rng.choice(WORDS), rng.choice(WORDS)
    body = rng.choice([
      "%s %s" % (a, b), "%s <span style=\"s1\">%s</span>" % (a, b), "%s<br/>%s" % (a, b),
      "<span tts:fontWeight=\"bold\">%s</span> <span tts:textDecoration=\"underline\">%s</span>" % (a, b),
      "<span tts:color=\"#00ff00\">%s</span> %s" % (a, b)])
    ps.append("<p xml:id=\"p%d\" region=\"%s\" begin=\"%s\" end=\"%s\"%s>%s</p>" % (
      i, rng.choice(["r1", "r2"]), _clock(t, "."), _clock(t + d, "."),
      rng.choice(["", " tts:textAlign=\"center\"", " tts:textAlign=\"end\""]), body))
    t += d + rng.choice([0, 0, 400])
  return ("<?xml version=\"1.0\" encoding=\"UTF-8\"?>\n<tt xml:lang=\"%s\" xmlns=\"http://www.w3.org/ns/ttml\" "
          "xmlns:tts=\"http://www.w3.org/ns/ttml#styling\" xmlns:ttp=\"http://www.w3.org/ns/ttml#parameter\" "
          "ttp:cellResolution=\"32 15\">\n<head><styling><style xml:id=\"s1\" tts:color=\"yellow\" tts:fontStyle=\"italic\"/>"
          "</styling><layout><region xml:id=\"r1\" tts:origin=\"10%% 10%%\" tts:extent=\"80%% 20%%\" tts:textAlign=\"%s\" "
          "tts:backgroundColor=\"#000000c0\"/><region xml:id=\"r2\" tts:origin=\"%s\" tts:extent=\"70%% 15%%\" "
          "tts:displayAlign=\"after\" tts:fontFamily=\"monospace\"/></layout></head>\n<body><div>\n%s\n</div></body></tt>\n"
          % (lang, rng.choice(["start", "end", "center"]), rng.choice(["15% 75%", "10% 70%"]), "\n".join(ps))).encode("utf-8")


def gen_srt(rng):
  out, t = [], rng.choice([0, 1000, 61000])
  for i in range(rng.randint(1, 4)):
    d = rng.choice([900, 1500, 2200])
    a, b = rng.choice(WORDS), rng.choice(WORDS)
    text = rng.choice(["%s %s" % (a, b), "<b>%s</b> %s" % (a, b), "<i>%s</i>\n%s" % (a, b),
                       "<font color=\"#ff0000\">%s</font> <u>%s</u>" % (a, b), "%s\n<b><i>%s</i></b>" % (a, b)])
    out.append("%d\n%s --> %s\n%s\n" % (i + 1, _clock(t, ","), _clock(t + d, ","), text))
    t += d + rng.choice([0, 300, 1000])
  return "\n".join(out).encode("utf-8")


def gen_vtt(rng):
  out, t = ["WEBVTT\n"], rng.choice([0, 1000, 3600000])
  for i in range(rng.randint(1, 4)):
    d = rng.choice([900, 1500, 2200])
    a, b = rng.choice(WORDS), rng.choice(WORDS)
    text = rng.choice(["%s %s" % (a, b), "<b>%s</b> %s" % (a, b), "<i>%s</i>\n%s" % (a, b), "<u>%s</u> %s" % (a, b),
                       "<v Bob>%s</v> %s" % (a, b)])
    settings = rng.choice(["", " align:start", " align:end", " line:10%", " line:80% align:center", " position:20% size:60%"])
    ident = rng.choice(["", "cue%d\n" % i, "%d\n" % (i + 1)])
    out.append("%s%s --> %s%s\n%s\n" % (ident, _clock(t, "."), _clock(t + d, "."), settings, text))
    t += d + rng.choice([0, 300, 1000])
  return "\n".join(out).encode("utf-8")


def _par(b):
  return b | 0x80 if bin(b & 0x7F).count("1") % 2 == 0 else b & 0x7F


def _w(b1, b2):
  return "%02x%02x" % (_par(b1), _par(b2))


def _scc_text(s):
  if len(s) % 2:
    s += " "
  return [_w(ord(s[i]), ord(s[i + 1])) for i in range(0, len(s), 2)]


def gen_scc(rng):
  pacs = [(0x14, 0x70), (0x14, 0x50), (0x13, 0x70), (0x13, 0x52), (0x11, 0x50), (0x14, 0x72), (0x14, 0x62), (0x13, 0x4e)]
  lines, sec = ["Scenarist_SCC V1.0", ""], rng.choice([1, 10, 3600])
  style = rng.choice(["pop", "pop", "roll", "paint"])
  for _ in range(rng.randint(1, 3)):
    tc = "%02d:%02d:%02d:%02d" % (sec // 3600, sec // 60 % 60, sec % 60, rng.choice([0, 5, 12]))
    words = []
    rows = rng.sample(pacs, rng.choice([1, 2]))
    if style == "pop":
      words += [_w(0x14, 0x20)] * 2 + [_w(0x14, 0x2e)] * 2
    elif style == "roll":
      words += [_w(0x14, 0x25)] * 2 + [_w(0x14, 0x2d)] * 2
      rows = [(0x14, 0x70)]
    else:
      words += [_w(0x14, 0x29)] * 2
    for p in rows:
      words += [_w(*p)] * 2
      if rng.random() < 0.3:
        words += [_w(0x11, 0x2e)] * 2   # mid-row italics
      words += _scc_text(rng.choice(ASCII_WORDS) + " " + rng.choice(ASCII_WORDS))
    if style == "pop":
      words += [_w(0x14, 0x2c)] * 2 + [_w(0x14, 0x2f)] * 2
    lines += [tc + "\t" + " ".join(words), ""]
    sec += rng.choice([2, 3])
    lines += ["%02d:%02d:%02d:%02d\t%s" % (sec // 3600, sec // 60 % 60, sec % 60, 0, " ".join([_w(0x14, 0x2c)] * 2)), ""]
    sec += 1
  return "\n".join(lines).encode("ascii")


def gen_stl(rng):
  """EBU Tech 3264: one 1024-byte GSI block + 128-byte TTI blocks."""
  teletext = rng.random() < 0.5
  fps30 = rng.random() < 0.3
  ttis = []
  h = rng.choice([0, 10])
  t = 25
  n = rng.randint(1, 3)
  for i in range(n):
    tf = bytearray()
    nrows = rng.choice([1, 2, 2])
    for r in range(nrows):
      if r:
        tf += b"\x8a\x8a" if rng.random() < 0.3 else b"\x8a"
      if teletext:
        tf += bytes([rng.choice([0x07, 0x03, 0x06, 0x02])]) + b"\x0b\x0b"
      if rng.random() < 0.3:
        tf += b"\x80"
      tf += (rng.choice(ASCII_WORDS) + " " + rng.choice(ASCII_WORDS)).encode("ascii")
      if teletext:
        tf += b"\x0a\x0a"
    tf = bytes(tf[:112]).ljust(112, b"\x8f")
    dur = rng.choice([20, 40, 60])

    def tc(frames, hh=h):
      return bytes([hh, frames // (25 * 60) % 60, frames // 25 % 60, frames % 25])
    ttis.append(bytes([0]) + (i).to_bytes(2, "little") + b"\xff" + b"\x00" + tc(t) + tc(t + dur)
                + bytes([rng.choice([20, 18, 22, 4]) if teletext else rng.choice([8, 10, 2])]) + bytes([rng.choice([0, 1, 2, 3])]) + b"\x00" + tf)
    t += dur + rng.choice([0, 10])

  def f(s, n_):
    return s.encode("ascii").ljust(n_, b" ")
  gsi = (f("850", 3) + f("STL30.01" if fps30 else "STL25.01", 8) + f("1" if teletext else "0", 1) + f("00", 2) + f(rng.choice(["09", "0F", "08"]), 2)
         + f("Title", 32) + f("", 32) + f("", 32) + f("", 32) + f("", 32) + f("", 32) + f("", 16) + f("210101", 6) + f("210101", 6)
         + f("00", 2) + f("%05d" % n, 5) + f("%05d" % n, 5) + f("001", 3) + f("40", 2) + f(rng.choice(["23", "11"]), 2) + f("1", 1)
         + f("%02d000000" % h, 8) + f("%02d000100" % h, 8) + f("1", 1) + f("1", 1) + f("FRA", 3) + f("", 32) + f("", 32) + f("", 32)
         + b" " * 75 + b" " * 576)
  assert len(gsi) == 1024 and all(len(x) == 128 for x in ttis)
  return gsi + b"".join(ttis)


ORDER_SENSITIVE_TTML = ("<?xml version=\"1.0\" encoding=\"UTF-8\"?>\n<tt xml:lang=\"en\" xmlns=\"http://www.w3.org/ns/ttml\" "
  "xmlns:tts=\"http://www.w3.org/ns/ttml#styling\">\n<head><styling>"
  "<style xml:id=\"s1\" tts:color=\"red\" tts:fontStyle=\"italic\"/><style xml:id=\"s2\" tts:color=\"lime\" tts:fontWeight=\"bold\"/>"
  "<style xml:id=\"s4\" tts:color=\"blue\" tts:textDecoration=\"underline\"/>"
  "<style xml:id=\"s3\" style=\"s2 s4 s1\"/><style xml:id=\"s5\" style=\"s1 s2 s4 s2\"/></styling>"
  "<layout><region xml:id=\"r1\" tts:extent=\"80% 20%\" tts:origin=\"10% 70%\"><style style=\"s4 s2\"/></region>"
  "<region xml:id=\"r2\" tts:extent=\"80% 20%\" tts:origin=\"10% 10%\" style=\"s1 s4\"/></layout></head>\n"
  "<body><div><p region=\"r1\" begin=\"0s\" end=\"2s\" style=\"s3\">chained <span style=\"s5\">references</span></p>"
  "<p region=\"r2\" begin=\"2s\" end=\"4s\" style=\"s2 s1\">later <span style=\"s4 s3 s4\">wins</span></p>"
  "<p region=\"r1\" begin=\"4s\" end=\"5s\">inherited from the region</p></div></body></tt>\n").encode("utf-8")


def gen_ttml_any(rng):
  """Half of the TTML inputs come from the schema generator (chained / repeated / conflicting style references, initial values, set,
  ruby, every style attribute): conversions of such documents exercise every order-sensitive step of the reader."""
  if rng.random() < 0.5:
    from vt.gen import ttml as gt
    return gt.generate(rng, p_loop=0.0)[0].encode("utf-8") if "p_loop" in getattr(gt.Gen.__init__, "__code__").co_varnames else gt.generate(rng)[0].encode("utf-8")
  return gen_ttml(rng)


GENS = {"ttml": gen_ttml_any, "scc": gen_scc, "stl": gen_stl, "srt": gen_srt, "vtt": gen_vtt}


def load_inputs(ctx_or_seed, tier, n_gen=None):
  """-> {fmt: [(src, bytes)]}; generated files depend on the seed only."""
  import random
  seed = ctx_or_seed
  out = {}
  c = corpus(tier)
  if n_gen is None:
    n_gen = 3 if tier == "quick" else 12
  for fmt in R.IN_TYPES:
    lst = []
    for rel in c[fmt]:
      with open(os.path.join(RES, rel), "rb") as f:
        lst.append(("corpus:" + rel, f.read()))
    for k in range(n_gen + (2 if fmt == "srt" else 0)):
      rng = random.Random(core.mix_seed("C19", "gen", seed, fmt, k))
      lst.append(("gen:%s:%d" % (fmt, k), GENS[fmt](rng)))
    if fmt == "ttml":
      # several references per style attribute, with conflicting values: the result depends on the order in which they are merged
      lst += [("fixed:order-sensitive-styles", ORDER_SENSITIVE_TTML)] * 3
    out[fmt] = lst
  return out


# ----------------------------------------------------------------------------------------------------------------
# specs -> argv, execution

def rand_case(rng, s):
  while True:
    t = "".join(ch.upper() if rng.random() < 0.5 else ch.lower() for ch in s)
    if t != s.lower() or not s:
      return t


def module_config(rng, module, p_key=0.6, force_key=None):
  """A random documented-valid configuration dictionary for one module."""
  d = {}
  if module in R.PROBE_NAMES:
    return {"suffix": rng.choice(["x", "Y", "-1"])} if rng.random() < p_key else {}
  for key in R.MODULE_KEYS[module]:
    if key == force_key or rng.random() < p_key:
      d[key] = rng.choice(R.TABLE[(module, key)]["valid"])
  if module == "imsc_writer":
    if R.imsc_combination(d) != "valid":
      d["fps"] = rng.choice(["25/1", "30/1", "24/1"])
  return d


def new_spec(kind, src, data, in_fmt, out_fmt):
  return {"kind": kind, "sub": "convert", "src": src, "in_fmt": in_fmt, "in_hex": data.hex(), "in_name": "in." + in_fmt,
          "out_name": "out." + out_fmt, "itype": None, "otype": None, "filters": [], "config": None, "config_file": None, "order": 0}


def valid_full_config(rng, in_fmt, out_fmt, filters, p_mod=0.6):
  cfg = {}
  for m in R.used_modules(in_fmt, out_fmt, filters):
    if rng.random() < p_mod:
      cfg[m] = module_config(rng, m)
  return cfg


def make_spec(rng, kind, in_fmt, out_fmt, src, data):
  s = new_spec(kind, src, data, in_fmt, out_fmt)
  s["order"] = rng.randrange(1 << 16)
  wmod = R.WRITER_MODULE[out_fmt]
  rmod = R.READER_MODULE.get(in_fmt)
  if kind == "plain":
    pass
  elif kind == "ext-case":
    s["in_name"] = "In." + rand_case(rng, in_fmt)
    s["out_name"] = "Out." + (rand_case(rng, out_fmt) if rng.random() < 0.7 else out_fmt)
  elif kind == "explicit":
    mode = rng.choice(["both", "in", "out", "both"])
    others_in = [x for x in R.IN_TYPES if x != in_fmt]
    others_out = [x for x in R.OUT_TYPES if x != out_fmt]
    if mode in ("both", "in"):
      s["itype"] = rng.choice([in_fmt.upper(), in_fmt, rand_case(rng, in_fmt)])
      s["in_name"] = "in" + rng.choice([".dat", ".txt", "", "." + rng.choice(others_in), "." + rng.choice(others_in).upper()])
    if mode in ("both", "out"):
      s["otype"] = rng.choice([out_fmt.upper(), out_fmt, rand_case(rng, out_fmt)])
      s["out_name"] = "out" + rng.choice([".dat", ".out", "", "." + rng.choice(others_out), "." + rng.choice(["scc", "STL"])])
  elif kind == "filter":
    s["filters"] = rng.choice([["lcd"], ["lcd", "lcd"], ["vta", "vtb"], ["vtb", "vta"], ["vta", "lcd", "vtb"], ["vtb", "lcd", "vta", "vta"], ["lcd", "vtb"]])
    if rng.random() < 0.3:
      # a name that is no registered filter, anywhere in the list
      s["filters"] = list(s["filters"])
      s["filters"].insert(rng.randrange(len(s["filters"]) + 1), rng.choice(["no_such_filter", "lcd2", "LCDX", "isd"]))
    cfg = {}
    if rng.random() < 0.7 and "lcd" in s["filters"]:
      cfg["lcd"] = module_config(rng, "lcd")
    for name in R.PROBE_NAMES:
      if name in s["filters"] and rng.random() < 0.5:
        cfg[name] = {"suffix": rng.choice(["x", "Y", "-1", "é"])}
    if cfg or rng.random() < 0.5:
      s["config"] = cfg
  elif kind == "writer-cfg":
    s["config"] = {wmod: module_config(rng, wmod, 0.8)}
  elif kind == "reader-cfg":
    if rmod is not None:
      s["config"] = {rmod: module_config(rng, rmod, 0.7)}
    else:
      s["config"] = {wmod: module_config(rng, wmod, 0.5), "general": module_config(rng, "general", 0.5)}
  elif kind == "lang":
    s["config"] = {"general": {"document_lang": rng.choice(R.TABLE[("general", "document_lang")]["valid"])}}
    if rng.random() < 0.4:
      s["filters"] = ["lcd"]
    # the other general settings beside it, including JSON null (accepted by the code as "leave alone"): the
    # language override does not depend on them
    if rng.random() < 0.8:
      s["config"]["general"]["log_level"] = rng.choice(["INFO", "WARN", "ERROR", None, None, None])
    if rng.random() < 0.3:
      s["config"]["general"]["progress_bar"] = rng.choice([True, False, None])
  elif kind == "general":
    s["config"] = {"general": {"progress_bar": rng.choice([True, False]), "log_level": rng.choice(["INFO", "WARN", "ERROR"])}}
    if rng.random() < 0.3:
      del s["config"]["general"]["log_level"]
  elif kind == "config-file":
    s["filters"] = rng.choice([[], ["lcd"]])
    s["config_file"] = valid_full_config(rng, in_fmt, out_fmt, s["filters"], 0.8)
  elif kind == "both":
    s["filters"] = rng.choice([[], [], ["lcd"]])
    x = valid_full_config(rng, in_fmt, out_fmt, s["filters"], 0.4)
    y = valid_full_config(rng, in_fmt, out_fmt, s["filters"], 0.4)
    # force an observable difference between inline (x) and file (y)
    if out_fmt == "ttml":
      l1, l2 = rng.sample(R.TABLE[("general", "document_lang")]["valid"], 2)
      x.setdefault("general", {})["document_lang"] = l1
      y.setdefault("general", {})["document_lang"] = l2
    elif out_fmt == "vtt":
      b = rng.choice([True, False])
      x.setdefault("vtt_writer", {})["cue_id"] = b
      y.setdefault("vtt_writer", {})["cue_id"] = not b
    else:
      b = rng.choice([True, False])
      x.setdefault("srt_writer", {})["text_formatting"] = b
      y.setdefault("srt_writer", {})["text_formatting"] = not b
    s["config"], s["config_file"] = x, y
  elif kind == "unused":
    used = R.used_modules(in_fmt, out_fmt, [])
    unused = [m for m in R.ALL_MODULES if m not in used]
    cfg = {m: module_config(rng, m, 0.8) for m in rng.sample(unused, rng.randint(1, len(unused)))}
    s["config"] = cfg
  elif kind == "empty-module":
    s["filters"] = rng.choice([[], ["lcd"]])
    used = R.used_modules(in_fmt, out_fmt, s["filters"])
    s["config"] = {m: {} for m in rng.sample(used, rng.randint(1, len(used)))}
  elif kind == "mixed":
    s["filters"] = rng.choice([[], ["lcd"], ["lcd", "lcd"], ["vtb", "lcd"], ["vta"]])
    cfg = valid_full_config(rng, in_fmt, out_fmt, s["filters"], 0.7)
    if rng.random() < 0.5:
      s["config"] = cfg
    else:
      s["config_file"] = cfg
    if rng.random() < 0.5:
      s["in_name"] = "x." + rand_case(rng, in_fmt)
    if rng.random() < 0.3:
      s["otype"] = rand_case(rng, out_fmt)
      s["out_name"] = "o.bin"
  else:
    raise ValueError(kind)
  return s


def build_argv(spec, wdir):
  """Writes the input (and config) files into wdir; returns (argv, in_path, out_path)."""
  import random
  in_path = os.path.join(wdir, spec["in_name"])
  out_path = os.path.join(wdir, "o", spec["out_name"])
  os.makedirs(os.path.join(wdir, "o"), exist_ok=True)
  with open(in_path, "wb") as f:
    f.write(bytes.fromhex(spec["in_hex"]))
  groups = [["-i", in_path], ["-o", out_path]]
  if spec["itype"] is not None:
    groups.append(["--itype", spec["itype"]])
  if spec["otype"] is not None:
    groups.append(["--otype", spec["otype"]])
  if spec["config"] is not None:
    groups.append(["--config", spec["config"] if isinstance(spec["config"], str) else json.dumps(spec["config"])])
  if spec["config_file"] is not None:
    cpath = os.path.join(wdir, "config.json")
    with open(cpath, "w", encoding="utf-8") as f:
      json.dump(spec["config_file"], f)
    groups.append(["--config_file", cpath])
  random.Random(spec.get("order", 0)).shuffle(groups)
  # filters keep their relative order; inserted at a pseudo-random position
  pos = spec.get("order", 0) % (len(groups) + 1)
  fl = [["--filter", name] for name in spec["filters"]]
  groups = groups[:pos] + fl + groups[pos:]
  argv = [spec["sub"]] + [x for g in groups for x in g]
  return argv, in_path, out_path


_tt = None


def run_cli(argv):
  """Runs ttconv.tt.main(argv) in-process. -> {"status": "ok"|"error", "err": str, "log": str}"""
  global _tt
  if _tt is None:
    import ttconv.tt as _tt_mod
    _tt = _tt_mod
  buf, so, se = io.StringIO(), io.StringIO(), io.StringIO()
  old = _tt.progress.setStream(buf)
  res = {"status": "ok", "err": None}
  try:
    with contextlib.redirect_stdout(so), contextlib.redirect_stderr(se):
      _tt.main(list(argv))
  except SystemExit as e:
    if e.code not in (0, None):
      res = {"status": "error", "err": "SystemExit(%r)" % (e.code,)}
  except Exception as e:  # pylint: disable=broad-except
    res = {"status": "error", "err": "%s: %s" % (type(e).__name__, str(e)[:200])}
  finally:
    _tt.progress.flush()
    if old is not None:
      _tt.progress.setStream(old)
  res["log"] = buf.getvalue()
  return res


def run_lib(fn, *a, **k):
  try:
    return ("ok", fn(*a, **k))
  except R.Unsupported:
    raise
  except Exception as e:  # pylint: disable=broad-except
    return ("exc", "%s: %s" % (type(e).__name__, str(e)[:200]))


def read_out(out_path):
  if os.path.isfile(out_path):
    with open(out_path, "rb") as f:
      return f.read()
  return None


def is_nontrivial(out_type, data):
  if not data:
    return False
  if out_type == "ttml":
    return b"<p " in data or b"<p>" in data
  return b"-->" in data


def first_diff(a, b):
  n = min(len(a), len(b))
  i = next((k for k in range(n) if a[k] != b[k]), n)
  return "len %d vs %d, first difference at byte %d: %r vs %r" % (len(a), len(b), i, a[max(0, i - 30):i + 40], b[max(0, i - 30):i + 40])


class Work:
  """Fresh temp directories under /verif/.work/c19/<pid>/ ; removed on exit."""

  def __init__(self):
    self.root = os.path.join(WORKROOT, "p%d" % os.getpid())
    self.n = 0

  def __enter__(self):
    shutil.rmtree(self.root, ignore_errors=True)
    for _ in range(5):
      try:
        os.makedirs(self.root, exist_ok=True)
        break
      except FileNotFoundError:   # a concurrent run removed the (empty) parent in between
        continue
    return self

  def fresh(self):
    self.n += 1
    d = os.path.join(self.root, "c%d" % self.n)
    os.makedirs(d)
    return d

  def done(self, d):
    shutil.rmtree(d, ignore_errors=True)

  def __exit__(self, *a):
    shutil.rmtree(self.root, ignore_errors=True)


def freeze(spec):
  """Replay files are written with sorted keys: keep the JSON texts so that key order survives."""
  s = dict(spec)
  s["config_text"] = None if spec["config"] is None else json.dumps(spec["config"])
  s["config_file_text"] = None if spec["config_file"] is None else json.dumps(spec["config_file"])
  return s


def thaw(spec):
  s = dict(spec)
  if s.get("config_text") is not None:
    s["config"] = json.loads(s["config_text"])
  if s.get("config_file_text") is not None:
    s["config_file"] = json.loads(s["config_file_text"])
  s.pop("config_text", None)
  s.pop("config_file_text", None)
  return s


def payload(spec, **extra):
  p = {"kind": "case", "spec": freeze(spec)}
  p.update(extra)
  return p


def triple_key(spec):
  return ("t", hashlib.sha1(bytes.fromhex(spec["in_hex"])).hexdigest(), spec["sub"], spec["in_name"], spec["out_name"], spec["itype"],
          spec["otype"], tuple(spec["filters"]), json.dumps(spec["config"], sort_keys=True), json.dumps(spec["config_file"], sort_keys=True),
          spec.get("order", 0))


def effective_config(spec):
  """Statement: a configuration file takes precedence over an inline configuration."""
  return spec["config_file"] if spec["config_file"] is not None else spec["config"]


def classify_config(cfg, used):
  """-> (invalid [(m,k,v,mech)], lenient [(m,k,v,reading)], unknown bool, n_valid)"""
  inv, len_, unknown, n_valid = [], [], False, 0
  if cfg is None:
    return inv, len_, unknown, n_valid
  if not isinstance(cfg, dict):
    return inv, len_, True, 0
  for m in used:
    if m not in cfg or m in R.PROBE_NAMES:
      continue
    mc = cfg[m]
    if not isinstance(mc, dict):
      unknown = True
      continue
    for k, v in mc.items():
      c, x = R.classify_value(m, k, v)
      if c == "valid":
        n_valid += 1
      elif c == "invalid":
        inv.append((m, k, v, x))
      elif c == "lenient":
        len_.append((m, k, v, x))
      else:
        unknown = True
    if m == "imsc_writer" and not any(i[0] == m for i in inv):
      comb = R.imsc_combination(mc)
      if comb == "invalid":
        inv.append((m, "fps", None, "imsc-fps-required-not-enforced"))
      elif comb == "unknown":
        unknown = True
  return inv, len_, unknown, n_valid


def with_readings(cfg, lenient, flip=False):
  c = json.loads(json.dumps(cfg))
  for m, k, _v, reading in lenient:
    c[m][k] = (not reading) if flip else reading
  return c


KIND_MECH = {
  "plain": "cli-vs-library", "ext-case": "type-inference-extension-case", "explicit": "type-inference-explicit-type",
  "filter": "filter-composition", "writer-cfg": "writer-config", "reader-cfg": "reader-config", "lang": "document-lang",
  "general": "general-settings-change-output", "config-file": "config-file", "both": "config-file-precedence",
  "unused": "unused-module-config-has-effect", "empty-module": "empty-module-config", "mixed": "cli-vs-library",
  "table": "config-value", "history": "cli-vs-library", "replay": "cli-vs-library",
}


def progress_shown(log):
  return "Reading: |" in log or "Writing: |" in log


def check_case(ctx, work, spec, cli_first=True):
  """One CLI execution judged against the oracle. Returns the CLI output bytes (or None)."""
  wdir = work.fresh()
  try:
    return _check_case(ctx, wdir, spec, cli_first)
  finally:
    work.done(wdir)


def _check_case(ctx, wdir, spec, cli_first):
  kind = spec["kind"]
  mech0 = KIND_MECH.get(kind, "cli-vs-library")
  argv, in_path, out_path = build_argv(spec, wdir)
  shown_argv = [a.replace(wdir, "<tmp>") for a in argv]
  in_type = R.infer_type(spec["itype"], spec["in_name"])
  out_type = R.infer_type(spec["otype"], spec["out_name"])
  cfg = effective_config(spec)
  ctx.ev()

  # ---- clause 5: unknown sub-command / unsupported type: error and no output file
  if spec["sub"] != "convert" or in_type not in R.IN_TYPES or out_type not in R.OUT_TYPES:
    cls = "unknown-subcommand" if spec["sub"] != "convert" else ("unsupported-input" if in_type not in R.IN_TYPES else "unsupported-output")
    cli = run_cli(argv)
    ctx.count("c5:" + cls)
    leftovers = sorted(os.listdir(os.path.join(wdir, "o")))
    if cli["status"] != "error":
      ctx.violation(cls + "-accepted", "%s: expected an error, the CLI returned normally (files: %s)" % (shown_argv, leftovers), payload(spec))
    if leftovers:
      ctx.violation(cls + "-leaves-output", "%s: output directory contains %s after %s" % (shown_argv, leftovers, cli["err"]), payload(spec))
    return None

  # names that are not registered document filters: the CLI may refuse them (error, judged like a refused lenient value) or
  # skip them - the registered ones among the named filters are applied in order either way
  known_filters = [f for f in spec["filters"] if f == "lcd" or f in R.PROBE_NAMES]
  unknown_filter = len(known_filters) != len(spec["filters"])
  used = R.used_modules(in_type, out_type, known_filters)
  inv, lenient, unknown, n_valid = classify_config(cfg, used)
  ctx.count("pair:%s->%s" % (in_type, out_type))
  ctx.count("kind:" + kind)
  if "lcd" in spec["filters"]:
    ctx.count("filter:lcd-twice" if spec["filters"].count("lcd") > 1 else "filter:lcd")
  if all(n in spec["filters"] for n in R.PROBE_NAMES):
    ctx.count("filter:probe-order")

  lib = {}

  def library():
    if inv:
      return
    base = with_readings(cfg, lenient) if lenient else cfg
    if not lenient:
      lib["A"] = run_lib(R.compose, in_path, in_type, out_type, known_filters, cfg, "parse")
    if not unknown:
      lib["B"] = run_lib(R.compose, in_path, in_type, out_type, known_filters, base, "direct")
      if lenient:
        lib["Bflip"] = run_lib(R.compose, in_path, in_type, out_type, known_filters, with_readings(cfg, lenient, True), "direct")
    if kind == "both" and spec["config"] is not None and spec["config_file"] is not None:
      lib["X"] = run_lib(R.compose, in_path, in_type, out_type, known_filters, spec["config"], "parse")

  if not cli_first:
    library()
  cli = run_cli(argv)
  if unknown_filter:
    ctx.count("filter:unknown-name")
    if cli["status"] == "error":
      ctx.count("filter:unknown-name-refused")
      return None
  data = read_out(out_path) if cli["status"] == "ok" else None
  if cli_first:
    library()

  if cli["status"] == "ok" and is_nontrivial(out_type, data):
    ctx.nontriv(triple_key(spec))
    ctx.count("nontrivial")
    if kind in ("both", "filter", "explicit", "lang"):
      ctx.sample({"argv": shown_argv, "config_file": spec["config_file"], "input": spec["src"], "output_bytes": len(data),
                  "output_sha256": hashlib.sha256(data).hexdigest()[:16], "verdict": "equal to the library composition"})

  # ---- clause 6: documented-invalid value in a module this conversion uses
  if inv:
    ctx.count("c6:cli-invalid")
    if cli["status"] == "ok":
      m, k, v, mech = inv[0]
      ctx.violation(mech, "%s.%s = %s is documented-invalid (README) but `tt convert` accepted it and wrote %s bytes; argv %s"
                    % (m, k, json.dumps(v), None if data is None else len(data), shown_argv), payload(spec))
    return data

  # ---- clause 6: undocumented spelling of a boolean: rejected, or behaves as the obvious reading
  if lenient:
    m, k, v, reading = lenient[0]
    general_pb = (m, k) == ("general", "progress_bar")
    if cli["status"] == "error":
      ctx.count("c6:cli-lenient-rejected")
      ctx.count("c6:cli-lenient-judged")
      return data
    if general_pb:
      ctx.count("c6:cli-lenient-judged")
      if reading is False and progress_shown(cli["log"]):
        ctx.violation("progress-bar-string-is-truthy", "general.progress_bar = %s accepted and the progress bar was shown (JSON string, not a boolean); argv %s"
                      % (json.dumps(v), shown_argv), payload(spec))
      return data
    b, bf = lib.get("B"), lib.get("Bflip")
    if b is None or b[0] != "ok" or bf is None or bf[0] != "ok" or b[1] == bf[1]:
      ctx.count("c6:cli-lenient-unobservable")
      return data
    ctx.count("c6:cli-lenient-judged")
    if data != b[1]:
      what = "as %s" % (not reading) if data == bf[1] else "differently from both readings"
      ctx.violation("bool-string-false-is-true" if data == bf[1] else "bool-string-misread",
                    "%s.%s = %s (a JSON string) was accepted and treated %s; argv %s" % (m, k, json.dumps(v), what, shown_argv), payload(spec))
    return data

  a, b = lib.get("A"), lib.get("B")
  if n_valid:
    ctx.count("c6:cli-valid")

  # ---- the two harness compositions against each other (documented meaning of values and defaults)
  if b is not None:
    if a[0] == "ok" and b[0] == "ok":
      ctx.count("c1:direct-compared")
      if a[1] != b[1]:
        ctx.violation("parsed-config-differs-from-documented", "library composition with parse(json) differs from the one with the documented "
                      "values/defaults: config %s; %s" % (json.dumps(cfg), first_diff(a[1], b[1])), payload(spec))
    elif a[0] == "exc" and b[0] == "ok":
      ctx.violation("valid-value-rejected", "documented-valid configuration %s rejected by parse/library: %s" % (json.dumps(cfg), a[1]), payload(spec))
    elif a[0] == "ok" and b[0] == "exc":
      ctx.count("abstain:direct-composition-raises")
      ctx.notes.append("direct composition raised %s for %s" % (b[1], json.dumps(cfg)))

  # ---- clause 1 (and 2, 3, 4 through the choice of argv): CLI bytes == library bytes
  if a[0] == "exc":
    ctx.count("c1:library-raises")
    if cli["status"] == "ok":
      ctx.violation("cli-succeeds-library-raises", "library composition raises %s but the CLI wrote %s bytes; argv %s"
                    % (a[1], None if data is None else len(data), shown_argv), payload(spec))
    return data
  if cli["status"] != "ok":
    ctx.violation(mech0 + ":cli-raises", "library composition succeeds (%d bytes) but the CLI ended with %s; argv %s config %s"
                  % (len(a[1]), cli["err"], shown_argv, json.dumps(cfg)), payload(spec))
    return data
  if data is None:
    ctx.violation(mech0 + ":no-output", "the CLI returned normally but wrote no file; argv %s" % shown_argv, payload(spec))
    return data
  ctx.count("c1:bytes-compared")
  if kind == "ext-case":
    ctx.count("c2:ext-case")
  if spec["itype"] is not None or spec["otype"] is not None:
    ctx.count("c2:explicit-type")
    ext_i, ext_o = R.infer_type(None, spec["in_name"]), R.infer_type(None, spec["out_name"])
    if (spec["itype"] is not None and ext_i in R.IN_TYPES and ext_i != in_type) or \
       (spec["otype"] is not None and ext_o in ("ttml", "srt", "vtt", "scc", "stl") and ext_o != out_type):
      ctx.count("c2:type-overrides-extension")
  if spec["config_file"] is not None and spec["config"] is None:
    ctx.count("c3:config-file-only")
  if data != a[1]:
    mech = mech0
    x = lib.get("X")
    if x is not None and x[0] == "ok" and data == x[1]:
      mech = "config-file-precedence"
    ctx.violation(mech, "CLI output differs from the library composition; argv %s config %s; %s"
                  % (shown_argv, json.dumps(cfg), first_diff(data, a[1])), payload(spec))
  x = lib.get("X")
  if x is not None:
    if x[0] == "ok" and x[1] != a[1]:
      ctx.count("c3:both-observable")
    else:
      ctx.count("c3:both-unobservable")

  # ---- clause 4: document_lang observable in TTML output
  lang = cfg.get("general", {}).get("document_lang") if isinstance(cfg, dict) and isinstance(cfg.get("general"), dict) else None
  if lang is not None and out_type == "ttml":
    import xml.etree.ElementTree as et
    try:
      got = et.fromstring(data).get(XML_LANG)
    except et.ParseError as e:
      got = "unparseable output: %s" % e
    ctx.count("c4:lang-in-ttml")
    if "log_level" in cfg["general"] and cfg["general"]["log_level"] is None:
      ctx.count("c4:lang-with-null-log-level")
    if got != lang:
      ctx.violation("document-lang", "general.document_lang = %r but the TTML output has xml:lang = %r; argv %s" % (lang, got, shown_argv), payload(spec))

  # ---- progress bar setting (only when `general` is given, so that no earlier run decides)
  g = cfg.get("general") if isinstance(cfg, dict) else None
  if isinstance(g, dict) and isinstance(g.get("progress_bar", True), bool):
    ctx.count("c7:progress-judged")
    want = g.get("progress_bar", True)
    shown = progress_shown(cli["log"])
    if shown:
      ctx.count("c7:progress-shown")
    if not want and shown:
      ctx.violation("progress-bar-setting", "general %s: progress bar shown; argv %s" % (json.dumps(g), shown_argv), payload(spec))
  return data


# ----------------------------------------------------------------------------------------------------------------
# shard kinds

def plan(tier, seed):
  q = tier == "quick"
  shards = []
  n_conv = 8 if q else 16
  for i in range(n_conv):
    shards.append({"kind": "conv", "part": i, "parts": n_conv, "total": 208 if q else 4800})
  n_tab = 3 if q else 8
  for i in range(n_tab):
    shards.append({"kind": "table", "part": i, "parts": n_tab, "reps": 1 if q else 4})
  shards.append({"kind": "parse", "combos": 300 if q else 20000})
  shards.append({"kind": "errors", "reps": 1 if q else 6})
  for i in range(4 if q else 10):
    shards.append({"kind": "history", "part": i, "n_cases": 12, "n_orders": 5 if q else 20})
  for i in range(1 if q else 4):
    shards.append({"kind": "hashseed", "part": i, "n_cases": 18 if q else 40})
  return shards


def run(ctx, params):
  R.probe_filters()
  with Work() as work:
    kind = params["kind"]
    if kind == "conv":
      run_conv(ctx, work, params)
    elif kind == "table":
      run_table(ctx, work, params)
    elif kind == "parse":
      run_parse(ctx, params)
    elif kind == "errors":
      run_errors(ctx, work, params)
    elif kind == "history":
      run_history(ctx, work, params)
    elif kind == "hashseed":
      run_hashseed(ctx, work, params)
    else:
      raise ValueError(kind)


def pick_input(rng, inputs, fmt):
  return rng.choice(inputs[fmt])


NO_BODY_TTML = b'<?xml version="1.0" encoding="UTF-8"?>\n<tt xmlns="http://www.w3.org/ns/ttml" xml:lang="en"><head><layout/></head></tt>\n'


def run_conv(ctx, work, p):
  inputs = load_inputs(ctx.seed, ctx.tier)
  if p["part"] == 0:
    # directed: the language override beside JSON null general settings, to TTML, from every input format
    for in_fmt in R.IN_TYPES:
      for null_key in ("log_level", "progress_bar"):
        rng = ctx.rng("null-general", in_fmt, null_key)
        src, data = pick_input(rng, inputs, in_fmt)
        spec = make_spec(rng, "lang", in_fmt, "ttml", src, data)
        spec["config"]["general"][null_key] = None
        check_case(ctx, work, spec)
    # directed: a name that is no registered filter before / between registered ones
    for k, fl in enumerate([["no_such_filter", "lcd"], ["lcd", "no_such_filter", "vta"], ["nope", "vtb", "vta"], ["vta", "lcd2", "lcd"]]):
      rng = ctx.rng("unknown-filter", k)
      in_fmt = R.IN_TYPES[k % len(R.IN_TYPES)]
      src, data = pick_input(rng, inputs, in_fmt)
      spec = make_spec(rng, "plain", in_fmt, "ttml", src, data)
      spec["kind"] = "filter"
      spec["filters"] = fl
      spec["config"] = {"lcd": {"safe_area": 10, "color": "red"}}
      check_case(ctx, work, spec)
    # directed history: a conversion whose progress never reaches 100% (document without body), then a conversion
    # with the progress bar disabled - the setting is honoured whatever the earlier conversion left behind
    for out_fmt in R.OUT_TYPES:
      rng = ctx.rng("stale-bar", out_fmt)
      check_case(ctx, work, dict(new_spec("plain", "fixed:no-body", NO_BODY_TTML, "ttml", out_fmt),
                                 config={"general": {"progress_bar": True, "log_level": "INFO"}}))
      src, data = pick_input(rng, inputs, "ttml")
      spec = make_spec(rng, "general", "ttml", out_fmt, src, data)
      spec["config"] = {"general": {"progress_bar": False, "log_level": "INFO"}}
      check_case(ctx, work, spec)
      ctx.count("c7:progress-after-incomplete-bar")
  for i in range(p["part"], p["total"], p["parts"]):
    rng = ctx.rng("conv", i)
    kind = KINDS[i % len(KINDS)]
    in_fmt, out_fmt = PAIRS[(i // len(KINDS) + i) % len(PAIRS)]
    src, data = pick_input(rng, inputs, in_fmt)
    spec = make_spec(rng, kind, in_fmt, out_fmt, src, data)
    out = check_case(ctx, work, spec, cli_first=(i // len(KINDS)) % 2 == 0)
    if kind == "general" and out is not None:
      # clause 7: output bytes do not depend on progress_bar / log_level
      plain = dict(spec, kind="plain", config=None)
      out2 = check_case(ctx, work, plain)
      ctx.count("c7:general-variants")
      if out2 is not None and out2 != out:
        ctx.violation("general-settings-change-output", "output with general=%s differs from the output without it; %s"
                      % (json.dumps(spec["config"]), first_diff(out, out2)), payload(spec))


def table_cases():
  """Every README table entry as (module, key, class, value)."""
  out = []
  for (m, k), ent in R.TABLE.items():
    for v in ent["valid"]:
      out.append((m, k, "valid", v))
    for v, _ in ent["invalid"]:
      out.append((m, k, "invalid", v))
    for v, _ in ent.get("lenient", []):
      out.append((m, k, "lenient", v))
  out.append(("imsc_writer", "time_format", "combo", {"time_format": "frames"}))
  out.append(("imsc_writer", "time_format", "combo", {"time_format": "clock_time_with_frames"}))
  return out


# conversions on which a module is used and its settings are visible
MODULE_ROUTE = {
  "general": (None, "ttml", []), "imsc_writer": (None, "ttml", []), "srt_writer": (None, "srt", []), "vtt_writer": (None, "vtt", []),
  "scc_reader": ("scc", "ttml", []), "stl_reader": ("stl", "ttml", []), "lcd": (None, "ttml", ["lcd"]),
}


def table_spec(rng, inputs, m, k, cls, v):
  in_fmt, out_fmt, filters = MODULE_ROUTE[m]
  if in_fmt is None:
    in_fmt = rng.choice(["ttml", "srt", "vtt", "ttml"] if m != "general" else list(R.IN_TYPES))
  if m == "lcd" and k == "preserve_text_align":
    in_fmt = "ttml"
  if m == "general" and rng.random() < 0.5:
    out_fmt = rng.choice(R.OUT_TYPES)
  src, data = pick_input(rng, inputs, in_fmt)
  s = new_spec("table", src, data, in_fmt, out_fmt)
  s["filters"] = list(filters)
  s["order"] = rng.randrange(1 << 16)
  if cls == "combo":
    mc = dict(v)
  else:
    mc = {k: v}
    if m == "imsc_writer" and cls == "valid":
      if k == "time_format" and v != "clock_time":
        mc["fps"] = rng.choice(["25/1", "30/1"])
      elif k == "fps" and rng.random() < 0.5:
        mc["time_format"] = rng.choice(["frames", "clock_time"])
    elif rng.random() < 0.4:
      for k2 in R.MODULE_KEYS[m]:
        if k2 != k and rng.random() < 0.5 and m != "imsc_writer":
          mc[k2] = rng.choice(R.TABLE[(m, k2)]["valid"])
  cfg = {m: mc}
  if rng.random() < 0.5:
    s["config"] = cfg
  else:
    s["config_file"] = cfg
  return s


def run_table(ctx, work, p):
  inputs = load_inputs(ctx.seed, ctx.tier)
  cases = table_cases()
  n = 0
  for rep in range(p["reps"]):
    for idx, (m, k, cls, v) in enumerate(cases):
      if idx % p["parts"] != p["part"]:
        continue
      rng = ctx.rng("table", rep, idx)
      spec = table_spec(rng, inputs, m, k, cls, v)
      check_case(ctx, work, spec, cli_first=(n % 2 == 0))
      ctx.count("table:%s" % cls)
      n += 1


def same_value(got, want):
  comps = getattr(got, "components", None)
  wcomps = getattr(want, "components", None)
  if wcomps is not None:
    return comps is not None and tuple(comps) == tuple(wcomps)
  if isinstance(want, bool) or isinstance(got, bool):
    return got is want
  return type(got) is type(want) and got == want


def parse_one(ctx, module, mc, judged_key, cls, extra=None):
  """cls: expectation for judged_key's value in mc."""
  ccls = R.config_class(module)
  pl = {"kind": "parse", "module": module, "config": mc, "key": judged_key}
  ent = R.TABLE[(module, judged_key)]
  v = mc[judged_key]
  try:
    obj = ccls.parse(json.loads(json.dumps(mc)))
    err = None
  except Exception as e:  # pylint: disable=broad-except
    obj, err = None, "%s: %s" % (type(e).__name__, str(e)[:160])
  if cls == "valid":
    ctx.count("c6:parse-valid")
    if err is not None:
      ctx.violation("valid-value-rejected", "%s.parse(%s): documented-valid value rejected: %s" % (ccls.__name__, json.dumps(mc), err), pl)
      return
    for k2, v2 in mc.items():
      want = R.decode_value(module, k2, v2)
      got = getattr(obj, k2, "<<missing>>")
      if not same_value(got, want):
        ctx.violation("parse-value-mismatch", "%s.parse(%s).%s = %r, documented meaning %r" % (ccls.__name__, json.dumps(mc), k2, got, want), pl)
    for k2 in R.MODULE_KEYS[module]:
      if k2 not in mc:
        want = R.decode_value(module, k2, R.TABLE[(module, k2)]["default"])
        got = getattr(obj, k2, "<<missing>>")
        if got is not None and not same_value(got, want):
          ctx.violation("parse-default-mismatch", "%s.parse(%s).%s = %r, README default %r" % (ccls.__name__, json.dumps(mc), k2, got, want), pl)
  elif cls == "invalid":
    if module == "general":
      return   # general values are validated (if at all) by the CLI: judged in the table shards
    ctx.count("c6:parse-invalid")
    if err is None:
      mech = [mm for vv, mm in ent["invalid"] if R._eq(vv, v)][0]
      ctx.violation(mech, "%s.parse(%s) accepted the documented-invalid value -> %s = %r" % (ccls.__name__, json.dumps(mc), judged_key, getattr(obj, judged_key, None)), pl)
  else:
    if module == "general":
      return
    ctx.count("c6:parse-lenient")
    reading = [rr for vv, rr in ent["lenient"] if R._eq(vv, v)][0]
    if err is None and getattr(obj, judged_key) is not reading:
      ctx.violation("bool-string-false-is-true", "%s.parse(%s).%s = %r: the JSON string %s is neither rejected nor read as %s"
                    % (ccls.__name__, json.dumps(mc), judged_key, getattr(obj, judged_key), json.dumps(v), reading), pl)


def run_parse(ctx, p):
  for (m, k, cls, v) in table_cases():
    if cls == "combo":
      continue
    parse_one(ctx, m, {k: v}, k, cls)
  rng = ctx.rng("parse")
  mods = list(R.ALL_MODULES)
  for i in range(p["combos"]):
    m = mods[i % len(mods)]
    keys = R.MODULE_KEYS[m]
    k = rng.choice(keys)
    ent = R.TABLE[(m, k)]
    cls = rng.choice(["valid", "valid", "invalid", "lenient" if ent.get("lenient") else "invalid"])
    v = rng.choice(ent["valid"]) if cls == "valid" else rng.choice(ent["invalid"])[0] if cls == "invalid" else rng.choice(ent["lenient"])[0]
    mc = {k2: rng.choice(R.TABLE[(m, k2)]["valid"]) for k2 in keys if k2 != k and rng.random() < 0.6}
    mc[k] = v
    mc = {k2: mc[k2] for k2 in rng.sample(sorted(mc), len(mc))}
    parse_one(ctx, m, mc, k, cls)
    ctx.count("parse:combos")


def run_errors(ctx, work, p):
  inputs = load_inputs(ctx.seed, ctx.tier)
  for rep in range(p["reps"]):
    rng = ctx.rng("errors", rep)
    specs = []
    for ext in (".txt", ".pdf", ".json", "", ".ttmlx", ".sc", ".TXT", "."):
      fmt = rng.choice(R.IN_TYPES)
      s = new_spec("errors", *pick_input(rng, inputs, fmt), fmt, rng.choice(R.OUT_TYPES))
      s["in_name"] = "in" + ext
      specs.append(s)
    for it in ("foo", "txt", "pdf", "", "cap", "TTMLX", "sc c"):
      fmt = rng.choice(R.IN_TYPES)
      s = new_spec("errors", *pick_input(rng, inputs, fmt), fmt, rng.choice(R.OUT_TYPES))
      s["itype"] = it
      if rng.random() < 0.5:
        s["in_name"] = "in.dat"
      specs.append(s)
    for ext in (".scc", ".stl", ".txt", "", ".SCC", ".html", ".vttx", ".docx"):
      fmt = rng.choice(R.IN_TYPES)
      s = new_spec("errors", *pick_input(rng, inputs, fmt), fmt, "ttml")
      s["out_name"] = "out" + ext
      specs.append(s)
    for ot in ("scc", "stl", "SCC", "foo", "pdf", "", "Stl", "imsc"):
      fmt = rng.choice(R.IN_TYPES)
      s = new_spec("errors", *pick_input(rng, inputs, fmt), fmt, rng.choice(R.OUT_TYPES))
      s["otype"] = ot
      if rng.random() < 0.5:
        s["filters"] = ["lcd"]
      specs.append(s)
    for sub in ("frobnicate", "validate", "convertx", "conver", "convert2", "help", "c"):
      fmt = rng.choice(R.IN_TYPES)
      s = new_spec("errors", *pick_input(rng, inputs, fmt), fmt, rng.choice(R.OUT_TYPES))
      s["sub"] = sub
      specs.append(s)
    for s in specs:
      s["order"] = rng.randrange(1 << 16)
      check_case(ctx, work, s)


# ---- sub-process worker ---------------------------------------------------------------------------------------

def cli_only(spec, wdir):
  argv, _in_path, out_path = build_argv(spec, wdir)
  cli = run_cli(argv)
  data = read_out(out_path) if cli["status"] == "ok" else None
  return {"status": cli["status"], "err": cli["err"], "b64": None if data is None else base64.b64encode(data).decode("ascii")}


def worker_main(job_path, out_path):
  core.bootstrap()
  R.probe_filters()
  with open(job_path, encoding="utf-8") as f:
    job = json.load(f)
  results = []
  root = job["workdir"]
  for n, spec in enumerate(job["specs"]):
    d = os.path.join(root, "w%d" % n)
    os.makedirs(d)
    results.append(cli_only(spec, d))
    shutil.rmtree(d, ignore_errors=True)
  with open(out_path, "w", encoding="utf-8") as f:
    json.dump({"results": results, "hashseed": os.environ.get("PYTHONHASHSEED"), "hash_of_a": hash("a")}, f)


def run_worker(work, specs, hashseed):
  d = work.fresh()
  job, out = os.path.join(d, "job.json"), os.path.join(d, "out.json")
  with open(job, "w", encoding="utf-8") as f:
    json.dump({"specs": specs, "workdir": d}, f)
  env = dict(os.environ)
  env["PYTHONHASHSEED"] = hashseed
  env["PYTHONPATH"] = core.HERE
  env["PYTHONDONTWRITEBYTECODE"] = "1"
  r = subprocess.run([sys.executable, "-B", "-m", "vt.props.c19", job, out], cwd=core.HERE, env=env, stdout=subprocess.PIPE,
                     stderr=subprocess.STDOUT, text=True, errors="replace", timeout=600, check=False)
  if r.returncode != 0 or not os.path.exists(out):
    work.done(d)
    raise RuntimeError("worker failed rc=%s: %s" % (r.returncode, r.stdout[-1500:]))
  with open(out, encoding="utf-8") as f:
    res = json.load(f)
  work.done(d)
  return res


def same_result(a, b):
  return a["status"] == b["status"] and a["b64"] == b["b64"]


def describe_result(r):
  if r["status"] != "ok":
    return "error %s" % r["err"]
  data = base64.b64decode(r["b64"]) if r["b64"] is not None else b""
  return "%d bytes sha256 %s" % (len(data), hashlib.sha256(data).hexdigest()[:12])


def diff_results(a, b):
  if a["status"] == "ok" and b["status"] == "ok" and a["b64"] is not None and b["b64"] is not None:
    return first_diff(base64.b64decode(a["b64"]), base64.b64decode(b["b64"]))
  return "%s vs %s" % (describe_result(a), describe_result(b))


def determinism_specs(ctx, part, n_cases, tag):
  """Valid-configuration conversions covering the 15 pairs (rotated by part), with filters and configurations."""
  inputs = load_inputs(ctx.seed, ctx.tier)
  specs = []
  kinds = ["plain", "filter", "mixed", "writer-cfg", "lang", "reader-cfg", "config-file"]
  for j in range(n_cases):
    rng = ctx.rng(tag, part, j)
    in_fmt, out_fmt = PAIRS[(part * 7 + j) % len(PAIRS)] if j % 4 else (rng.choice(R.IN_TYPES), "ttml")
    src, data = pick_input(rng, inputs, in_fmt)
    specs.append(make_spec(rng, kinds[(j + part) % len(kinds)], in_fmt, out_fmt, src, data))
  return specs


def note_nontrivial(ctx, spec, res):
  if res["status"] == "ok" and res["b64"]:
    out_type = R.infer_type(spec["otype"], spec["out_name"])
    if is_nontrivial(out_type, base64.b64decode(res["b64"])):
      ctx.nontriv(triple_key(spec))
      ctx.count("nontrivial")


def run_history(ctx, work, p):
  specs = determinism_specs(ctx, p["part"], p["n_cases"], "history")
  fresh = [run_worker(work, [s], "0")["results"][0] for s in specs]
  ctx.count("c7:fresh-interpreters", len(specs))
  for s, r in zip(specs, fresh):
    ctx.count("pair:%s->%s" % (R.infer_type(s["itype"], s["in_name"]), R.infer_type(s["otype"], s["out_name"])))
  rng = ctx.rng("history-orders", p["part"])
  executed = []
  for _o in range(p["n_orders"]):
    order = list(range(len(specs)))
    rng.shuffle(order)
    for idx in order:
      d = work.fresh()
      res = cli_only(specs[idx], d)
      work.done(d)
      executed.append(idx)
      ctx.ev()
      ctx.count("c7:history-compared")
      note_nontrivial(ctx, specs[idx], res)
      if not same_result(res, fresh[idx]):
        tail = executed[-25:]
        ctx.violation("history-dependence", "conversion #%d of this interpreter (%s -> %s, kind %s) differs from its result in a fresh "
                      "interpreter: %s" % (len(executed), specs[idx]["src"], specs[idx]["out_name"], specs[idx]["kind"], diff_results(res, fresh[idx])),
                      {"kind": "history", "specs": [freeze(specs[i]) for i in sorted(set(tail))], "sequence": [sorted(set(tail)).index(i) for i in tail]})
  if p["part"] == 0 and specs:
    ctx.sample({"history": "%d conversions x %d random orders in one interpreter, each compared with a fresh interpreter" % (len(specs), p["n_orders"]),
                "first": {"src": specs[0]["src"], "out": specs[0]["out_name"], "filters": specs[0]["filters"], "fresh": describe_result(fresh[0])}})


HASHSEEDS = ["0", "1", "2", "12345", "random"]


def run_hashseed(ctx, work, p):
  specs = determinism_specs(ctx, p["part"] + 100, p["n_cases"], "hashseed")
  runs = {hs: run_worker(work, specs, hs) for hs in HASHSEEDS}
  ctx.count("c7:hashseed-subprocesses", len(runs))
  if len({runs[hs]["hash_of_a"] for hs in HASHSEEDS}) < 3:
    ctx.notes.append("hash seeds had no effect on str hashes in the workers")
    return
  base = runs["0"]["results"]
  for i, s in enumerate(specs):
    ctx.ev(len(HASHSEEDS))
    note_nontrivial(ctx, s, base[i])
    ctx.count("pair:%s->%s" % (R.infer_type(s["itype"], s["in_name"]), R.infer_type(s["otype"], s["out_name"])))
    for hs in HASHSEEDS[1:]:
      ctx.count("c7:hashseed-compared")
      if not same_result(base[i], runs[hs]["results"][i]):
        ctx.violation("hash-seed-dependence", "%s -> %s (filters %s): PYTHONHASHSEED=0 and =%s give different results: %s"
                      % (s["src"], s["out_name"], s["filters"], hs, diff_results(base[i], runs[hs]["results"][i])),
                      {"kind": "hashseed", "spec": freeze(s)})
  ctx.sample({"hashseed": "%d conversions in 5 sub-processes PYTHONHASHSEED=%s" % (len(specs), HASHSEEDS),
              "first": {"src": specs[0]["src"], "out": specs[0]["out_name"], "result": describe_result(base[0])}})


# ----------------------------------------------------------------------------------------------------------------

def replay(ctx, pl):
  R.probe_filters()
  with Work() as work:
    k = pl["kind"]
    if k == "case":
      check_case(ctx, work, thaw(pl["spec"]))
    elif k == "parse":
      ent = R.classify_value(pl["module"], pl["key"], pl["config"][pl["key"]])
      parse_one(ctx, pl["module"], pl["config"], pl["key"], ent[0])
    elif k == "hashseed":
      runs = [run_worker(work, [thaw(pl["spec"])], hs)["results"][0] for hs in HASHSEEDS + ["random", "random"]]
      for r in runs[1:]:
        if not same_result(runs[0], r):
          ctx.violation("hash-seed-dependence", diff_results(runs[0], r), pl)
          break
    elif k == "history":
      specs = [thaw(x) for x in pl["specs"]]
      fresh = [run_worker(work, [s], "0")["results"][0] for s in specs]
      for n, idx in enumerate(pl["sequence"]):
        d = work.fresh()
        res = cli_only(specs[idx], d)
        work.done(d)
        if not same_result(res, fresh[idx]):
          ctx.violation("history-dependence", "step %d: %s" % (n, diff_results(res, fresh[idx])), pl)
          break


def finalize(tier, counters):
  try:
    os.rmdir(WORKROOT)    # only when empty: shards remove their own directories
  except OSError:
    pass
  return {"pairs_covered": sum(1 for k, v in counters.items() if k.startswith("pair:") and v > 0),
          "table_entries": len(table_cases()),
          "exhaustive": False}


if __name__ == "__main__":
  worker_main(sys.argv[1], sys.argv[2])
