"""C03 - every snapshot element carries the style values TTML style resolution prescribes.
Reference style resolution (vt/ref/isd.py) vs get_style on every element of every snapshot."""
from vt.props import _isdwork

ID = "C03"
RULE = ("documents from vt/gen/model_docs.py profile 'style' (round-robin focus over the 36 properties; all value forms and units; "
        "3 cell and 3 pixel resolutions; 4 writing modes; initial-value overrides; animation steps) x probe times as in C01; every "
        "applicable property of every element compared. Non-trivial: snapshot with content; distinct = distinct (document, time, mode); "
        "counters cmp:<kind>:<property>:<source> give the compared triples")
ASSUMPTIONS = [
  "reference style resolution in vt/ref/isd.py written from TTML2 10.4.4 and the per-attribute computed-value clauses, IMSC 1.1 8-9",
  "abstains: linePadding in c (axis), horizontal text-shadow offsets / blur in c or px (axis), disparity in em, direction when the "
  "writing mode is animated or only an initial value, position stemming only from an initial value while origin is specified, "
  "partially specified textDecoration at the root of inheritance",
  "numeric tolerance 1e-9 relative",
]
REQUIRED = ["corpus-docs", "snapshots:plain", "snapshots:cached", "snapshots:non-empty"]
SHARD_TIMEOUT = {"quick": 900, "thorough": 7200}
N = {"quick": 20, "thorough": 2000}


def plan(tier, seed):
  return [{"n": N[tier], "shard": i} for i in range(14)] + _isdwork.corpus_shards(tier)


def run(ctx, params):
  _isdwork.run_docs(ctx, params, {"C03"}, "style")


def replay(ctx, payload):
  _isdwork.replay_doc(ctx, payload, {"C03"})


def finalize(tier, counters):
  triples = sorted(k for k in counters if k.startswith("cmp:"))
  sources = {}
  for k in triples:
    _, kind, prop, src = k.split(":")
    sources.setdefault(prop, set()).add(src)
  return {"compared_triples": len(triples), "properties_compared": len(sources),
          "sources_per_property": {p: sorted(s) for p, s in sorted(sources.items())}}
