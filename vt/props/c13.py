"""C13 - every snapshot satisfies the documented ISD shape.
Invariant walker (vt/mon/isdcheck.check_c13 + white-space reference) over every snapshot of generated documents
(profiles isd + style: every style property in every unit on every element kind)."""
from vt.props import _isdwork

ID = "C13"
RULE = ("documents from vt/gen/model_docs.py (profiles 'isd' and 'style') x probe times as in C01, uncached and cached snapshots; every "
        "node and style value of every snapshot walked. Non-trivial: snapshot with content; distinct = distinct (document, time, mode)")
ASSUMPTIONS = [
  "applicability tables written from the TTML2/IMSC 'Applies to' clauses; ruby containers (Ruby/Rbc/Rtc) may carry either the "
  "reduced set documented for the canonical model or the full span set",
  "ISD ruby containers may hold any sub-sequence of the documented child patterns (children can be pruned by time/display/region)",
  "white space judged only when the paragraph's text nodes all share one xml:space value, never inside rt/rtc/rp",
  "node identity is checked against the source document's objects (not against internal cache clones)",
]
REQUIRED = ["corpus-docs", "snapshots:plain", "snapshots:cached", "snapshots:non-empty", "c13:nodes", "class:ruby", "class:preserve-space", "class:ws-varied", "class:unicode-space"]
SHARD_TIMEOUT = {"quick": 900, "thorough": 7200}
N = {"quick": 20, "thorough": 1500}


def plan(tier, seed):
  return [{"n": N[tier], "shard": i, "profile": "isd" if i % 2 == 0 else "style"} for i in range(14)] + _isdwork.corpus_shards(tier)


def run(ctx, params):
  _isdwork.run_docs(ctx, params, {"C13"}, params.get("profile", "isd"))


def replay(ctx, payload):
  _isdwork.replay_doc(ctx, payload, {"C13"})
