"""C09 - the EBU STL reader reproduces every subtitle's time, text and attributes.
Differential monitor: vt/ref/stl.py (reference Tech 3264 interpreter) vs ttconv.stl.reader.to_model, observed through
ISD snapshots at each subtitle's begin, begin-eps, midpoint, end-eps and end, plus ISD.significant_times for exactness."""
from __future__ import annotations

import difflib
import glob
import hashlib
import io
import itertools
import os
import re
import traceback
import unicodedata
from fractions import Fraction

from vt.gen import stl as G
from vt.ref import stl as R

ID = "C09"
RULE = ("byte-level STL files from vt/gen/stl.py (GSI: five DFC, CCT 00-04, teletext/open DSC, TCP, MNR; <= 30 TTI with "
        "SN/EBN chains/CS sets/JC/VP/CF/user data; TF over characters incl. ISO 6937 diacritic pairs, control codes, newlines, "
        "space runs, filler) x reader configuration (program_start_tc None/TCP/literal, max_row_count None/MNR/int, booleans, "
        "font_stack); table files enumerating every character cell and all 156 diacritic pairs; the IRT and sandflow files "
        "under src/test/resources/stl differentially. Non-trivial: file with >= 1 rendered subtitle whose text field contains a "
        "control code, a newline or a non-ASCII character; distinct = distinct (file bytes, configuration) hash")
ASSUMPTIONS = [
  "reference interpreter written from EBU Tech 3264-E and ISO/IEC 6937 (vt/ref/stl.py); ISD.from_model is the trusted observer (C01)",
  "STL30.01: accepted as 30000/1001 drop-frame, 30000/1001 non-drop or exactly 30 fps (one reading per file); STL23.01: nominal-24 labels at 24000/1001",
  "ISO 6937 cells 24h, 7Fh, A0h, A4h, A6h, C0h, C9h, CCh, D8h-DBh, E5h, diacritic+space and diacritic+letter pairs outside the repertoire: any rendering accepted",
  "a control code may or may not render as one space cell; leading/trailing spaces of a row not judged; a run containing k real spaces must leave 1..run-length spaces",
  "the run of spaces/control codes directly after a diacritic+space cell (whether that space still separates words) is not judged",
  "runs of newline codes: at least one break; blank rows not judged; attributes of space cells not judged",
  "open (non-teletext) subtitles: colour before any colour code and after a newline not judged; italics/underline after a newline may persist or reset",
  "boxing (0Ah/0Bh, 84h/85h): no effect on text presence judged; background after a boxing code not judged; mosaic/conceal/reserved codes: subtitle not judged",
  "green may be #00FF00 or #008000; JC = 0: alignment not judged; cumulative members may share one paragraph or be separate",
  "vertical position: only displayAlign in {before, after}, region inside the safe area when VP..VP+rows-1 fits the documented row count, and vertical order of anchors (a larger VP is never placed above a smaller one; two fitting VP >= 1 never coincide; VP 0 and 1 may) for equal-shape subtitles with the same displayAlign; anchor side judged away from the middle of the row grid in force (rows entirely above 40 % of the grid: top-anchored; VP below 60 %: bottom-anchored; the reader's own rule is VP < rows // 2); no exact coordinates; double-height geometry only as the order of bottom anchors by last occupied row (VP + newline codes + 1; equal last rows, equal anchors) for text fields whose newline runs are all even",
  "files with a CS sequence other than 01 02* 03 (per set): only 'the reader does not crash' is judged (abstain:cs-irregular); a regular set whose first member precedes the programme start IS judged (remaining members at their own times)",
  "each block's text field ends at its first unused-space code (8Fh); the blocks of a subtitle are then concatenated",
  "extension blocks whose CS/TCI/TCO differ from the first block, invalid time-code labels, TCO < TCI, unknown DFC/CCT: not judged; differing VP/JC inside a chain: layout not judged",
  "observed text is compared raw and, for CCT 00 when that fails, after NFC normalisation (a decomposed rendering of a diacritic pair is accepted)",
  "mech keys carry context tags naming irregular input features a violation may derive from: "
  ":cum-after-dropped (an earlier member of a cumulative set is dropped by the programme start), :inner-filler (an unused-space code is followed by text), "
  ":mnr-invalid (max_row_count=MNR with a non-numeric GSI MNR), :diacritic-before-space (ISO 6937 diacritic followed by 20h); crash:<Type>:<site> keys belong mainly to C18",
]
REQUIRED = ["files", "corpus:files", "table:files", "probe:isd", "cmp:chars", "cmp:attrs", "cmp:align", "cmp:region", "cmp:order-pairs",
            "cmp:sigtimes", "feat:ext-chain", "feat:cumulative", "feat:comment", "feat:userdata", "feat:dropped-before-start", "feat:cum-member-after-dropped-first",
            "feat:diacritic-pair", "feat:control", "feat:newline", "feat:space-run",
            "dfc:STL25.01", "dfc:STL30.01", "dfc:STL24.01", "dfc:STL50.01", "dfc:STL23.01",
            "cct:00", "cct:01", "cct:02", "cct:03", "cct:04", "dsc:teletext", "dsc:open",
            "cfg:start:None", "cfg:start:TCP", "cfg:start:literal", "cfg:rows:None", "cfg:rows:MNR", "cfg:rows:int", "cmp:anchor", "cmp:split-equivalence", "cmp:last-row-pairs", "cmp:last-row-equal"]
SHARD_TIMEOUT = {"quick": 900, "thorough": 5400}

CORPUS_DIR = "src/test/resources/stl"
EPS = Fraction(1, 10**6)
COLORS = {
  (0, 0, 0): "black", (255, 0, 0): "red", (0, 255, 0): "green", (0, 128, 0): "green", (255, 255, 0): "yellow", (0, 0, 255): "blue",
  (255, 0, 255): "magenta", (0, 255, 255): "cyan", (255, 255, 255): "white",
}


def plan(tier, seed):
  if tier == "thorough":
    shards = [{"kind": "gen", "lo": i * 1000, "n": 1000} for i in range(30)]
  else:
    shards = [{"kind": "gen", "lo": i * 50, "n": 50} for i in range(8)]
  shards.append({"kind": "corpus", "part": 0, "parts": 2})
  shards.append({"kind": "corpus", "part": 1, "parts": 2})
  shards.append({"kind": "table"})
  return shards


# ------------------------------------------------------------------------------------------------------------------
# observation through the ISD

def _color_name(c):
  if c is None:
    return None
  comps = tuple(c.components)
  if len(comps) == 4 and comps[3] == 0:
    return "transparent"
  if len(comps) == 4 and comps[3] != 255:
    return "rgba" + repr(comps)
  return COLORS.get(comps[:3], "rgb" + repr(comps[:3]))


class ObsP:
  __slots__ = ("text", "attrs", "align", "region", "rid")

  def visible_text(self):
    return self.text.replace(" ", "").replace("\n", "")


def observe(isd, nfc=False):
  """-> list of ObsP for every paragraph of the snapshot that carries at least one non-space character.
  nfc: text nodes are NFC-normalised first (a decomposed rendering of a diacritic pair is accepted)."""
  from ttconv import model
  import ttconv.style_properties as S
  SP = S.StyleProperties
  out = []

  def pct(length, axis):
    u = length.units
    if u in (S.LengthType.Units.rh, S.LengthType.Units.rw, S.LengthType.Units.pct):
      return Fraction(length.value)
    return None

  def walk_inline(e, fg, bg, it, ul, chars, attrs):
    for c in e:
      if isinstance(c, model.Br):
        chars.append("\n")
        attrs.append(None)
      elif isinstance(c, model.Text):
        t = unicodedata.normalize("NFC", c.get_text()) if nfc else c.get_text()
        for ch in t:
          chars.append(ch)
          attrs.append((fg, bg, it, ul))
      elif isinstance(c, model.Span):
        col = c.get_style(SP.Color)
        b = c.get_style(SP.BackgroundColor)
        fs = c.get_style(SP.FontStyle)
        td = c.get_style(SP.TextDecoration)
        n_fg = _color_name(col) if col is not None else fg
        n_bg = bg
        if b is not None and _color_name(b) != "transparent":
          n_bg = _color_name(b)
        n_it = (fs in (S.FontStyleType.italic, S.FontStyleType.oblique)) if fs is not None else it
        n_ul = ul
        if td is not None and td is not S.SpecialValues.none:
          if getattr(td, "underline", None) is not None:
            n_ul = bool(td.underline)
        elif td is S.SpecialValues.none:
          n_ul = False
        walk_inline(c, n_fg, n_bg, n_it, n_ul, chars, attrs)
      else:
        walk_inline(c, fg, bg, it, ul, chars, attrs)

  def walk_block(e, region):
    for c in e:
      if isinstance(c, model.P):
        chars, attrs = [], []
        pbg = c.get_style(SP.BackgroundColor)
        bg0 = _color_name(pbg) if pbg is not None else "transparent"
        walk_inline(c, None, bg0, False, False, chars, attrs)
        text = "".join(chars)
        if text.replace(" ", "").replace("\n", "") == "":
          continue
        o = ObsP()
        o.text, o.attrs = text, attrs
        ta = c.get_style(SP.TextAlign)
        o.align = ta.value if ta is not None else None
        o.region = region
        o.rid = region["id"]
        out.append(o)
      elif isinstance(c, (model.Body, model.Div)):
        walk_block(c, region)

  for r in isd.iter_regions():
    org = r.get_style(SP.Origin)
    ext = r.get_style(SP.Extent)
    da = r.get_style(SP.DisplayAlign)
    reg = {"id": r.get_id(), "da": da.value if da is not None else None, "x": None, "y": None, "w": None, "h": None}
    if org is not None and ext is not None:
      reg["x"], reg["y"] = pct(org.x, "x"), pct(org.y, "y")
      reg["w"], reg["h"] = pct(ext.width, "x"), pct(ext.height, "y")
    walk_block(r, reg)
  return out


# ------------------------------------------------------------------------------------------------------------------
# expected blocks -> regular expressions

class Variant:
  __slots__ = ("strict", "relaxed", "groups", "nchars", "rows")


def _row_items(lines):
  """Rows with at least one character item; None when some row cannot be judged."""
  rows = []
  for ln in lines:
    if any(it[0] == "o" for it in ln):
      return None
    cs = [it for it in ln if it[0] == "c"]
    if not cs:
      continue
    if all(it[1] is None for it in cs):
      return None                       # a row of abstained characters might be blank
    items = list(ln)
    while items and items[0][0] == "g":
      items.pop(0)
    while items and items[-1][0] == "g":
      items.pop()
    rows.append(items)
  return rows


def _alt(acc):
  if acc is None:
    return "([^\\n]{0,3}?)"
  return "(" + "|".join(re.escape(a) for a in sorted(acc)) + ")"


def build_variant(rows) -> Variant:
  v = Variant()
  strict, relaxed, groups = [], [], []
  for items in rows:
    s, r = [], []
    for it in items:
      if it[0] == "c":
        groups.append(it)
        s.append(_alt(it[1]))
        r.append(_alt(it[1]))
      else:
        real, ctrl = it[1], it[2]
        s.append(" {%d,%d}" % (1 if real else 0, real + ctrl))
        r.append(" *")
    strict.append("".join(s))
    relaxed.append("".join(r))
  sep = " *\\n[ \\n]*"
  v.strict = re.compile("[ \\n]*" + sep.join(strict) + "[ \\n]*", re.S)
  v.relaxed = re.compile("[ \\n]*" + sep.join(relaxed) + "[ \\n]*", re.S)
  v.groups = groups
  v.rows = rows
  v.nchars = len(groups)
  return v


class FileCheck:
  """All state of one (file bytes, configuration) evaluation."""

  def __init__(self, ctx, data: bytes, cfg: dict, source: str):
    self.ctx, self.data, self.cfg, self.source = ctx, data, cfg, source
    self.rf = R.parse(data)
    self.viol = []                      # (mech, what)
    self.sub_rows = {}                  # sub index -> list of rows-lists (one per judgeable reading) | None (unjudgeable) | [] (no text)
    self.block_cache = {}
    for s in self.rf.subs:
      rs = []
      bad = False
      for lines, _flags in s.readings:
        rows = _row_items(lines)
        if rows is None:
          bad = True
          break
        rs.append(rows)
      if bad or s.irregular:
        self.sub_rows[s.index] = None
      else:
        nonempty = [r for r in rs if r]
        if nonempty and len(nonempty) != len(rs):
          self.sub_rows[s.index] = None   # one reading empty, another not: presence not judgeable
        else:
          self.sub_rows[s.index] = nonempty
    self.rows_cfg = self._row_count()
    self.cum_after_dropped = set()      # members of a cumulative set one of whose earlier members is dropped (before programme start)

  # --- configuration --------------------------------------------------------------------------------------------
  def _row_count(self):
    if self.rf.teletext:
      return 23
    m = self.cfg.get("max_row_count")
    if m is None:
      return 23                          # documented default
    if m == "MNR":
      return self.rf.mnr()
    return int(m)

  def reader_config(self):
    from ttconv.stl.config import STLReaderConfiguration
    import ttconv.style_properties as S
    fs = self.cfg.get("font_stack")
    if fs is not None:
      generic = {g.value: g for g in S.GenericFontFamilyType}
      fs = tuple(generic.get(f, f) for f in fs)
    return STLReaderConfiguration(
      disable_fill_line_gap=bool(self.cfg.get("disable_fill_line_gap", False)),
      program_start_tc=self.cfg.get("program_start_tc"),
      disable_line_padding=bool(self.cfg.get("disable_line_padding", False)),
      font_stack=fs,
      max_row_count=self.cfg.get("max_row_count"))

  # --- blocks ---------------------------------------------------------------------------------------------------
  def block_variants(self, key):
    """key: tuple of sub indices displayed as one paragraph -> list of Variant (one per combination of readings)."""
    vs = self.block_cache.get(key)
    if vs is None:
      vs = []
      for combo in itertools.islice(itertools.product(*[self.sub_rows[i] for i in key]), 8):
        rows = [r for part in combo for r in part]
        vs.append(build_variant(rows))
      self.block_cache[key] = vs
    return vs

  def text_match(self, key, obs: ObsP, mode: str):
    for v in self.block_variants(key):
      m = getattr(v, mode).fullmatch(obs.text)
      if m is not None:
        return v, m
    return None

  def attr_diffs(self, v: Variant, m, obs: ObsP, count=True):
    diffs = []
    names = ("fg", "bg", "italic", "underline")
    for gi, it in enumerate(v.groups, start=1):
      if it[1] is None:
        continue                          # abstained cell: what it captured is not aligned with certainty
      a, b = m.span(gi)
      exp = it[2]
      for pos in range(a, b):
        ch = obs.text[pos]
        if ch in " \n":
          continue
        if count:
          self.ctx.count("cmp:chars")
        oa = obs.attrs[pos]
        for k in range(4):
          if exp[k] is None:
            continue
          if count:
            self.ctx.count("cmp:attrs")
          if oa[k] not in exp[k]:
            diffs.append(("attr:" + names[k], f"character {ch!r} (#{gi}): {names[k]} expected {sorted(map(str, exp[k]))} observed {oa[k]!r}"))
    # de-duplicate by mech, keep first message
    seen, out = set(), []
    for mech, what in diffs:
      if mech not in seen:
        seen.add(mech)
        out.append((mech, what))
    return out

  def layout_diffs(self, key, obs: ObsP, count=True):
    diffs = []
    subs = [self.rf.subs[i] for i in key]
    if any(s.layout_irregular for s in subs):
      return diffs
    jcs = {s.jc for s in subs}
    if subs[0].cum_set is not None:
      # a cumulative set may be one paragraph (one alignment): judged only when the whole set shares one JC
      jcs = {s.jc for s in self.rf.subs if s.cum_set == subs[0].cum_set}
    if len(jcs) == 1:
      jc = subs[0].jc
      want = {1: ("start", "left"), 2: ("center",), 3: ("end", "right")}.get(jc)
      if want is not None:
        if count:
          self.ctx.count("cmp:align")
        if obs.align not in want:
          diffs.append(("align", f"JC={jc}: textAlign expected {want[0]} observed {obs.align}"))
    reg = obs.region
    if count:
      self.ctx.count("cmp:region")
    if reg["da"] not in ("before", "after"):
      diffs.append(("region:display-align", f"region {reg['id']} displayAlign {reg['da']} is neither before (top-anchored) nor after (bottom-anchored)"))
    if len(key) == 1 and subs[0].cum_set is None and self.fits(subs[0]):
      if None in (reg["x"], reg["y"], reg["w"], reg["h"]):
        diffs.append(("region:units", f"region {reg['id']} origin/extent not root-relative"))
      else:
        tol = Fraction(1, 10**6)
        x, y, w, h = reg["x"], reg["y"], reg["w"], reg["h"]
        if x < 5 - tol or x + w > 95 + tol or y < 10 - tol or y + h > 90 + tol or w <= 0 or h <= 0:
          tag = ":vp0" if subs[0].vp == 0 else ""
          diffs.append(("region:outside-safe-area" + tag,
                        f"VP={subs[0].vp} rows={self.max_rows(subs[0])} of {self.rows_cfg}: region {reg['id']} x={float(x):.3f} y={float(y):.3f} "
                        f"w={float(w):.3f} h={float(h):.3f} not inside the safe area [5,95]x[10,90]"))
      # anchoring follows the position on the row grid in force (23 rows, or max_row_count for open subtitles): judged away
      # from the middle only, so that the exact threshold (and its rounding) is the reader's choice
      R, n, vp = self.rows_cfg, self.max_rows(subs[0]), subs[0].vp
      if R >= 6 and reg["da"] in ("before", "after"):
        want_da = "before" if 10 * (vp + n - 1) < 4 * R else ("after" if 10 * vp > 6 * R else None)
        if want_da is not None:
          if count:
            self.ctx.count("cmp:anchor")
          if reg["da"] != want_da:
            diffs.append(("region:anchor-side", f"VP={vp} rows={n} of {R} ({'teletext' if self.rf.teletext else 'open'}, max_row_count="
                          f"{self.cfg.get('max_row_count')!r}): subtitle in the {'upper' if want_da == 'before' else 'lower'} part of the row grid "
                          f"is anchored {reg['da']}"))
    return diffs

  def max_rows(self, s):
    return s.readings[0][1]["n_newline_codes"] + 1

  def fits(self, s) -> bool:
    if self.rows_cfg is None or any(fl["double_height"] for _, fl in s.readings) or len(s.readings) != 1 or s.layout_irregular:
      return False
    low = 1 if self.rf.teletext else 0
    return low <= s.vp and s.vp + self.max_rows(s) - 1 <= self.rows_cfg

  def v(self, mech, what, sub=None, key=None):
    """Records a violation; appends context tags that name irregular input features the mechanism may derive from."""
    subs = [sub] if sub is not None else []
    if key:
      subs = [self.rf.subs[i] for i in key]
    # file-level contexts
    if self.cum_after_dropped:
      mech += ":cum-after-dropped"
    if not self.rf.teletext and self.cfg.get("max_row_count") == "MNR" and self.rf.mnr() is None:
      mech += ":mnr-invalid"
    if any(s.inner_filler for s in subs):
      mech += ":inner-filler"
    if mech.startswith(("text:", "paragraph-mismatch", "space-mismatch", "unexpected-content")) and \
       any(fl["diacritic_space"] for s in subs for _, fl in s.readings):
      mech += ":diacritic-before-space"
    self.viol.append((mech, what))


# ------------------------------------------------------------------------------------------------------------------
def _max_matching(n_e, n_o, ok):
  """Maximum bipartite matching; ok(e, o) -> bool. Returns dict e -> o."""
  match_o = {}

  def try_e(e, seen):
    for o in range(n_o):
      if o in seen or not ok(e, o):
        continue
      seen.add(o)
      if o not in match_o or try_e(match_o[o], seen):
        match_o[o] = e
        return True
    return False

  for e in range(n_e):
    try_e(e, set())
  return {e: o for o, e in match_o.items()}


def _site(exc):
  tb = traceback.extract_tb(exc.__traceback__)
  site = "?"
  for fr in tb:
    if "/ttconv/" in fr.filename:
      site = os.path.basename(fr.filename)[:-3] + "." + fr.name
  return site


def check_with_interp(fc: FileCheck, doc, interp, sig_set):
  """Compares the document with the reference under one timing interpretation. Fills fc.viol."""
  ctx, rf = fc.ctx, fc.rf
  timing = rf.timing(fc.cfg.get("program_start_tc"), interp)
  subs = rf.subs
  lenient_extra = False
  probes = {}            # t -> set of (sub index, kind)
  info = {}              # sub index -> state
  for s, tm in zip(subs, timing):
    rows = fc.sub_rows[s.index]
    st = {"tm": tm, "rows": rows, "shown": False}
    info[s.index] = st
    if tm[0] == "unjudged":
      lenient_extra = True
      continue
    if tm[0] == "dropped":
      continue
    b, e = tm[1], tm[2]
    st["shown"] = (not s.comment) and e > b
  fc.cum_after_dropped = set()
  dropped_sets = set()
  for s, tm in zip(subs, timing):
    if s.cum_set is not None:
      if s.cum_set in dropped_sets:
        fc.cum_after_dropped.add(s.index)
      if tm[0] == "dropped":
        dropped_sets.add(s.cum_set)
  # probe times
  off = rf.start_offset(fc.cfg.get("program_start_tc"), interp)
  for s, tm in zip(subs, timing):
    if tm[0] == "unjudged" or off is None:
      continue
    if tm[0] == "dropped":
      # as if it had not been dropped
      b = rf.label_seconds(s.tci, interp) - off
      e = rf.label_seconds(s.tco, interp) - off
    else:
      b, e = tm[1], tm[2]
    cand = [(b, "begin")]
    if e > b:
      cand += [((b + e) / 2, "mid"), (e - EPS, "pre-end"), (e, "end")]
    cand.append((b - EPS, "pre-begin"))
    for t, kind in cand:
      if t >= 0:
        probes.setdefault(t, set()).add((s.index, kind))
  found = {i: {} for i in info}        # sub index -> {kind: bool}
  from ttconv.isd import ISD

  def visible(i, t):
    st = info[i]
    return st["shown"] and st["tm"][1] <= t < st["tm"][2]

  for t in sorted(probes):
    vis = [s.index for s in subs if visible(s.index, t)]
    if any(fc.sub_rows[i] is None for i in vis):
      ctx.count("abstain:probe-unjudgeable-sub")
      continue
    vis = [i for i in vis if fc.sub_rows[i]]            # subtitles with no text produce nothing that is judged
    ctx.count("probe:isd")
    try:
      isd = ISD.from_model(doc, t)
      obs = observe(isd)
    except Exception as e:  # pylint: disable=broad-except
      fc.v(f"crash:{type(e).__name__}:{_site(e)}", f"ISD.from_model(doc, {t}) raised {type(e).__name__}: {e}")
      continue
    # groupings of cumulative members
    sets = {}
    for i in vis:
      cs = subs[i].cum_set
      sets.setdefault(("set", cs) if cs is not None else ("sub", i), []).append(i)
    merged = [tuple(v) for v in sets.values()]
    options = [merged]
    if any(len(k) > 1 for k in merged):
      options.append([(i,) for i in vis])
    results = []
    for blocks in options:
      res = match_probe(fc, blocks, obs, count=(blocks is options[0]))
      results.append(res)
      if not res["viol"] and not res["missing"] and not res["extra"]:
        break
    if rf.cct == b"00" and all(r["viol"] or r["missing"] or r["extra"] for r in results):
      obs_n = observe(isd, nfc=True)
      if [o.text for o in obs_n] != [o.text for o in obs]:
        for blocks in options:
          results.append(match_probe(fc, blocks, obs_n, count=False))
    res = min(results, key=lambda r: len(r["viol"]) + len(r["missing"]) + len(r["extra"]))
    for key in res["missing"]:
      if res["extra"]:
        # something else is displayed instead: a content difference, not a timing one
        fc.v("paragraph-mismatch", f"t={t}: expected {_desc(fc, key)} rows {[_expected_text(fc, (i,)) for i in key]}; "
             f"displayed instead: {[o.text for o in res['extra']]}", key=key)
        continue
      for i in key:
        found[i].setdefault("any", []).append((t, False))
    for key in res["present"]:
      for i in key:
        found[i].setdefault("any", []).append((t, True))
    for mech, what, key in res["viol"]:
      fc.v(mech, f"t={t} ({float(t):.6f} s): " + what, key=key)
    # unexpected paragraphs
    for o in res["extra"]:
      if lenient_extra:
        ctx.count("abstain:extra-with-unjudged-timing")
        continue
      classify_extra(fc, o, t, info, interp, off)
  # per-subtitle presence verdicts
  for s in subs:
    st = info[s.index]
    seen = found[s.index].get("any", [])
    if not seen:
      continue
    misses = [t for t, ok in seen if not ok]
    if not misses:
      continue
    b, e = st["tm"][1], st["tm"][2]
    desc = f"subtitle SN={s.sn} (blocks {s.block_indices}, CS={s.cs}) TCI={s.tci} TCO={s.tco} expected visible over [{b}, {e}) s"
    if len(misses) == len(seen):
      fc.v("subtitle-lost", desc + f": not present in any of {len(seen)} snapshots inside its interval", s)
    else:
      for t in misses:
        kind = "begin" if t == b else ("before-end" if t == e - EPS else "inside")
        fc.v("time:missing-at-" + kind, desc + f": absent at t={t}", s)
  # exactness through significant times
  if sig_set is not None:
    for s in subs:
      st = info[s.index]
      if st["shown"] and fc.sub_rows[s.index] and not s.cs_irregular:
        seen = found[s.index].get("any", [])
        if seen and all(ok for _, ok in seen):
          ctx.count("cmp:sigtimes")
          b, e = st["tm"][1], st["tm"][2]
          for nm, x in (("begin", b), ("end", e)):
            if x not in sig_set:
              near = min(sig_set, key=lambda y: abs(y - x)) if sig_set else None
              fc.v("time:not-exact", f"subtitle SN={s.sn}: {nm} {x} s is not a significant time of the document (nearest {near})", s)


def match_probe(fc: FileCheck, blocks, obs, count):
  """Matches expected blocks with observed paragraphs at one probe time."""
  n_e, n_o = len(blocks), len(obs)
  strict = {}
  for e in range(n_e):
    for o in range(n_o):
      r = fc.text_match(blocks[e], obs[o], "strict")
      if r is not None:
        strict[(e, o)] = r
  full = {}
  for (e, o), (v, m) in strict.items():
    d = fc.attr_diffs(v, m, obs[o], count=False) + fc.layout_diffs(blocks[e], obs[o], count=False)
    if not d:
      full[(e, o)] = True
  res = {"viol": [], "missing": [], "present": [], "extra": [], "pairs": []}
  mt = _max_matching(n_e, n_o, lambda e, o: (e, o) in full)
  if len(mt) < min(n_e, n_o) or n_e != n_o:
    mt2 = _max_matching(n_e, n_o, lambda e, o: (e, o) in strict)
    if len(mt2) > len(mt):
      mt = mt2
  used_o = set(mt.values())
  for e, o in mt.items():
    v, m = strict[(e, o)]
    for mech, what in fc.attr_diffs(v, m, obs[o], count=count) + fc.layout_diffs(blocks[e], obs[o], count=count):
      res["viol"].append((mech, f"{_desc(fc, blocks[e])}: {what}; observed text {obs[o].text!r}", blocks[e]))
    res["present"].append(blocks[e])
    res["pairs"].append((blocks[e], obs[o]))
  rest_e = [e for e in range(n_e) if e not in mt]
  rest_o = [o for o in range(n_o) if o not in used_o]
  # relaxed (space-insensitive) matches
  for e in list(rest_e):
    for o in list(rest_o):
      r = fc.text_match(blocks[e], obs[o], "relaxed")
      if r is None:
        continue
      v, m = r
      res["viol"].append(space_violation(fc, blocks[e], v, obs[o]))
      for mech, what in fc.attr_diffs(v, m, obs[o], count=count) + fc.layout_diffs(blocks[e], obs[o], count=count):
        res["viol"].append((mech, f"{_desc(fc, blocks[e])}: {what}; observed text {obs[o].text!r}", blocks[e]))
      res["present"].append(blocks[e])
      res["pairs"].append((blocks[e], obs[o]))
      rest_e.remove(e)
      rest_o.remove(o)
      break
  # text mismatches: pair the leftovers by similarity
  while rest_e and rest_o:
    best = None
    for e in rest_e:
      exp_txt = _expected_text(fc, blocks[e])
      for o in rest_o:
        ratio = difflib.SequenceMatcher(None, exp_txt, obs[o].visible_text()).ratio()
        if best is None or ratio > best[0]:
          best = (ratio, e, o)
    ratio, e, o = best
    if ratio < 0.5:
      break
    res["viol"].append(text_violation(fc, blocks[e], obs[o]))
    res["present"].append(blocks[e])
    rest_e.remove(e)
    rest_o.remove(o)
  for e in rest_e:
    res["missing"].append(blocks[e])
  for o in rest_o:
    res["extra"].append(obs[o])
  return res


def _desc(fc, key):
  subs = [fc.rf.subs[i] for i in key]
  return "subtitle SN=" + "+".join(str(s.sn) for s in subs) + " TF=" + "|".join(s.tf_variants[0].hex() for s in subs)


def _expected_text(fc, key):
  out = []
  for i in key:
    for rows in fc.sub_rows[i][:1]:
      for items in rows:
        for it in items:
          if it[0] == "c":
            out.append(sorted(it[1])[0] if it[1] else "?")
  return "".join(out)


def space_violation(fc, key, v: Variant, obs: ObsP):
  """The text matches once spaces are ignored: name which kind of space run lost all its spaces (or grew)."""
  kinds = set()
  for wild in ("(?:[^ \\n]{0,3}?)", "(?:[^\\n]{0,3}?)"):
    gaps, parts = [], []
    for items in v.rows:
      p = []
      for it in items:
        if it[0] == "c":
          p.append(wild if it[1] is None else "(?:" + _alt(it[1])[1:])
        else:
          gaps.append(it)
          p.append("( *)")
      parts.append("".join(p))
    rx = re.compile("[ \\n]*" + " *\\n[ \\n]*".join(parts) + "[ \\n]*", re.S)
    m2 = rx.fullmatch(obs.text)
    if m2 is None:
      continue
    for g, sp in zip(gaps, m2.groups()):
      real, ctrl = g[1], g[2]
      n = len(sp)
      if real >= 1 and n == 0:
        kinds.add("space-by-control-dropped" if ctrl else ("space-run-dropped" if real >= 2 else "single-space-dropped"))
      elif n > real + ctrl:
        kinds.add("space-invented")
    if kinds:
      break
  has_wild = any(it[0] == "c" and it[1] is None for items in v.rows for it in items)
  if has_wild and "single-space-dropped" in kinds:
    kinds.discard("single-space-dropped")     # the split around abstained cells is not certain
  if not kinds:
    kinds.add("space-mismatch")
  mech = sorted(kinds)[0]
  return (mech, f"{_desc(fc, key)}: spaces between words not preserved ({', '.join(sorted(kinds))}); observed text {obs.text!r}", key)


def text_violation(fc, key, obs: ObsP):
  """Expected and observed paragraphs paired by similarity only: name the first difference."""
  cct = fc.rf.cct.decode("latin-1")
  v = fc.block_variants(key)[0]
  exp_rows = [[it for it in items if it[0] == "c"] for items in v.rows]
  obs_rows = [r.replace(" ", "") for r in obs.text.split("\n")]
  obs_rows = [r for r in obs_rows if r]
  head = f"{_desc(fc, key)}: "
  if len(exp_rows) != len(obs_rows):
    return ("text:lines", head + f"expected {len(exp_rows)} non-blank rows, observed {len(obs_rows)}: {obs.text!r}", key)
  for k, (er, orow) in enumerate(zip(exp_rows, obs_rows)):
    es = "".join(sorted(it[1])[0] if it[1] else "\ufffc" for it in er)
    if any(it[1] is None for it in er) and len(es) != len(orow):
      continue                              # cannot align around abstained cells
    sm = difflib.SequenceMatcher(None, es, orow, autojunk=False)
    for tag, i1, i2, j1, j2 in sm.get_opcodes():
      if tag == "equal":
        continue
      if tag == "replace" and i2 - i1 == j2 - j1:
        for d in range(i2 - i1):
          it = er[i1 + d]
          got = orow[j1 + d]
          if it[1] is not None and got not in it[1]:
            pair = any(len(unicodedata.normalize("NFD", a)) > 1 for a in it[1])
            mech = f"text:char:cct{cct}" + (":diacritic" if pair and cct == "00" else "")
            return (mech, head + f"row {k + 1} character #{i1 + d + 1} expected {sorted(it[1])} observed {got!r}; observed text {obs.text!r}", key)
        continue
      if tag == "delete" or (tag == "replace" and i2 - i1 > j2 - j1):
        return ("text:chars-missing", head + f"row {k + 1}: expected characters {es[i1:i2]!r} absent; observed text {obs.text!r}", key)
      return ("text:chars-extra", head + f"row {k + 1}: characters {orow[j1:j2]!r} not in the text field; observed text {obs.text!r}", key)
  return ("text:structure", head + f"expected characters {_expected_text(fc, key)!r} observed text {obs.text!r}", key)


def classify_extra(fc: FileCheck, o: ObsP, t, info, interp, off):
  """A paragraph with visible text that no expected subtitle accounts for."""
  rf = fc.rf

  def window(s):
    if off is None or not (rf.label_valid(s.tci, interp) and rf.label_valid(s.tco, interp)):
      return None
    return rf.label_seconds(s.tci, interp) - off, rf.label_seconds(s.tco, interp) - off

  cands = [s for s in rf.subs if fc.sub_rows[s.index] and fc.text_match((s.index,), o, "relaxed") is not None]
  weak = False
  if not cands:
    # same characters but for a few (e.g. a diacritic applied to the wrong letter once spaces are lost)
    seen = o.visible_text()
    cands = [s for s in rf.subs if fc.sub_rows[s.index] and window(s) is not None
             and window(s)[0] <= t < max(window(s)[1], window(s)[0] + EPS)
             and difflib.SequenceMatcher(None, _expected_text(fc, (s.index,)), seen, autojunk=False).ratio() >= 0.6]
  if not cands:
    # text after an unused-space code: subtitles whose text field is empty up to the first 8Fh and whose window contains t
    cands = [s for s in rf.subs if (fc.sub_rows[s.index] is None or s.inner_filler)
             and window(s) is not None and window(s)[0] <= t < max(window(s)[1], window(s)[0] + EPS)]
    weak = True
  for s in cands:
    tm = info[s.index]["tm"]
    filler = ""
    if weak and s.inner_filler:
      filler = (f" (text field {b'|'.join(s.raw_tfs).rstrip(bytes([0x8f])).hex()} has an unused-space code 8Fh before this text)")
    if s.comment:
      fc.v("comment-rendered", f"t={t}: comment block (CF=1) SN={s.sn} TF={s.tf_variants[0].hex()}{filler} is rendered: {o.text!r}", s)
      return
    if tm[0] == "dropped":
      fc.v("before-start-rendered", f"t={t}: subtitle SN={s.sn} TCI={s.tci} starts before the programme start "
           f"{fc.cfg.get('program_start_tc')!r} (offset {off} s) but is rendered{filler}: {o.text!r}", s)
      return
    if weak and not s.inner_filler:
      continue
    if weak:
      fc.v("text-after-unused-space-rendered", f"t={t}: subtitle SN={s.sn}{filler} but {o.text!r} is rendered", s)
      return
    if tm[0] == "ok":
      b, e = tm[1], tm[2]
      if t >= e:
        fc.v("time:visible-at-or-after-end", f"subtitle SN={s.sn} TCO={s.tco} -> end {e} s ({interp[0]}) still visible at t={t}: {o.text!r}", s)
        return
      if t < b:
        fc.v("time:visible-before-begin", f"subtitle SN={s.sn} TCI={s.tci} -> begin {b} s ({interp[0]}) already visible at t={t}: {o.text!r}", s)
        return
  if "USERDATA" in o.text or "UDINCHAIN" in o.text:
    fc.v("userdata-rendered", f"t={t}: user-data block (EBN=FEh) rendered: {o.text!r}")
    return
  near = [s for s in rf.subs if window(s) is not None and window(s)[0] <= t < max(window(s)[1], window(s)[0] + EPS)
          and any(fl["diacritic_space"] for _, fl in s.readings)]
  fc.v("unexpected-content", f"t={t}: paragraph {o.text!r} in region {o.rid} corresponds to no subtitle visible at that time",
       key=tuple(s.index for s in near))


def _even_newline_runs(tf: bytes):
  """Double-height text field in the regular shape: no newline code at either end, every run of newline codes even
  (two per double-height row). -> number of newline codes, or None."""
  if not tf or tf[0] == 0x8A or tf[-1] == 0x8A:
    return None
  n = 0
  for run in re.findall(b"\x8a+", tf):
    if len(run) % 2:
      return None
    n += len(run)
  return n


def last_row_check(fc: FileCheck, doc, timing):
  """Teletext double-height subtitles (and the single-height ones beside them): a bottom-anchored region ends at the last
  row the subtitle occupies - VP + newline codes + 1 for double height (each row is two teletext rows, each empty
  double-height row two more newline codes), VP + newline codes for single height. Judged as an order: equal last rows,
  equal anchors; a lower last row, a strictly lower anchor. No coordinates."""
  from ttconv.isd import ISD
  if fc.rows_cfg is None or not (fc.rf.teletext or fc.source.startswith("table:dh-open")):
    return
  if not fc.rf.teletext:
    fc.ctx.count("class:double-height-ladder-open")
  seen = []
  for s, tm in zip(fc.rf.subs, timing):
    if tm[0] != "ok" or tm[2] <= tm[1] or s.comment or s.cum_set is not None or s.inner_filler or s.layout_irregular or len(s.readings) != 1:
      continue
    lines, fl = s.readings[0]
    if fl["opaque"] or s.vp < 1 or len(s.tf_variants) != 1 or not fc.sub_rows[s.index]:
      continue
    if fl["double_height"]:
      nn = _even_newline_runs(s.tf_variants[0])
      if nn is None or not s.tf_variants[0].startswith(b"\x0d"):
        continue
      last = s.vp + nn + 1
    else:
      if not fc.fits(s) or not fc.sub_rows[s.index] or len(fc.sub_rows[s.index][0]) != fc.max_rows(s):
        continue
      last = s.vp + fl["n_newline_codes"]
    if last > fc.rows_cfg:
      continue
    t = (tm[1] + tm[2]) / 2
    try:
      obs = observe(ISD.from_model(doc, t))
    except Exception:  # pylint: disable=broad-except
      continue
    cands = [o for o in obs if fc.text_match((s.index,), o, "relaxed") is not None]
    if len(cands) != 1:
      continue
    reg = cands[0].region
    if reg["da"] != "after" or None in (reg["y"], reg["h"]):
      continue
    seen.append((s, last, fl["double_height"], reg["y"] + reg["h"]))
    if len(seen) >= 10:
      break
  tol = Fraction(1, 10**6)
  for (a, la, dha, ya), (b, lb, dhb, yb) in itertools.combinations(seen, 2):
    if not (dha or dhb):
      continue
    fc.ctx.count("cmp:last-row-pairs")
    if la == lb:
      fc.ctx.count("cmp:last-row-equal")
    bad = abs(ya - yb) > tol if la == lb else ((ya - yb) * (la - lb) <= 0)
    if bad:
      fc.v("region:double-height-last-row", f"bottom-anchored subtitles SN={a.sn} (VP={a.vp}, last row {la}, {'double' if dha else 'single'} height) and "
           f"SN={b.sn} (VP={b.vp}, last row {lb}, {'double' if dhb else 'single'} height): region bottoms {float(ya):.4f} % and {float(yb):.4f} % "
           f"do not follow the last occupied rows")


def order_check(fc: FileCheck, doc, interp):
  """Two single-block-shaped subtitles with the same displayAlign and row count: a larger VP must lie strictly lower."""
  from ttconv.isd import ISD
  timing = fc.rf.timing(fc.cfg.get("program_start_tc"), interp)
  seen = []
  for s, tm in zip(fc.rf.subs, timing):
    if tm[0] != "ok" or tm[2] <= tm[1] or s.comment or s.cum_set is not None or not fc.sub_rows[s.index] or not fc.fits(s) or s.inner_filler:
      continue
    rows = fc.sub_rows[s.index][0]
    if len(rows) != fc.max_rows(s):
      continue
    t = (tm[1] + tm[2]) / 2
    try:
      obs = observe(ISD.from_model(doc, t))
    except Exception:  # pylint: disable=broad-except
      continue
    cands = [o for o in obs if fc.text_match((s.index,), o, "relaxed") is not None]
    if len(cands) != 1:
      continue
    reg = cands[0].region
    if reg["da"] not in ("before", "after") or None in (reg["y"], reg["h"]):
      continue
    anchor = reg["y"] if reg["da"] == "before" else reg["y"] + reg["h"]
    seen.append((s, len(rows), reg["da"], anchor))
    if len(seen) >= 8:
      break
  last_row_check(fc, doc, timing)
  for (a, na, da, ya), (b, nb, db, yb) in itertools.combinations(seen, 2):
    if na != nb or da != db or a.vp == b.vp:
      continue
    fc.ctx.count("cmp:order-pairs")
    lo, hi = ((a, ya), (b, yb)) if a.vp < b.vp else ((b, yb), (a, ya))
    # rows 1..R are distinct rows in teletext and open numbering alike: strict; row 0 vs row 1 (0- or 1-based) may coincide
    if lo[1] > hi[1] or (lo[0].vp >= 1 and lo[1] == hi[1]):
      fc.v("region:vertical-order", f"subtitles SN={lo[0].sn} (VP={lo[0].vp}) and SN={hi[0].sn} (VP={hi[0].vp}), {na} rows, displayAlign {da}: "
           f"anchors {float(lo[1]):.4f} % and {float(hi[1]):.4f} % do not keep the vertical order")


_TIME_MECHS = ("time", "subtitle-lost", "unexpected-content", "before-start-rendered")


def check_file(ctx, data: bytes, cfg: dict, source: str):
  """Runs the reader on one file under one configuration and compares with the reference. -> list of (mech, what)."""
  from ttconv.stl import reader
  from ttconv.isd import ISD
  snapshot = bytes(data)
  fc = FileCheck(ctx, snapshot, cfg, source)
  rf = fc.rf
  try:
    rcfg = fc.reader_config()
    doc = reader.to_model(io.BytesIO(bytes(data)), rcfg)
  except Exception as e:  # pylint: disable=broad-except
    site = _site(e)
    return fc, [(f"crash:{type(e).__name__}:{site}", f"reader.to_model raised {type(e).__name__}: {e} at {site} "
                 f"(GSI TCP={rf.gsi['TCP']!r} MNR={rf.gsi['MNR']!r}, first CS={[s.cs for s in rf.subs][:4]})")]
  if not rf.dfc_known or not rf.cct_known:
    ctx.count("abstain:unknown-dfc-or-cct")
    return fc, []
  if any(s.cs_irregular for s in rf.subs):
    # CS sequences other than 01 02* 03 are outside what the statement defines: only the no-crash clause is judged
    ctx.count("abstain:cs-irregular")
    try:
      list(ISD.significant_times(doc))
    except Exception as e:  # pylint: disable=broad-except
      return fc, [(f"crash:{type(e).__name__}:{_site(e)}", f"ISD.significant_times raised {type(e).__name__}: {e}")]
    return fc, []
  try:
    sig_list = list(ISD.significant_times(doc))
    sig_set = set(Fraction(x) for x in sig_list)
    nonrat = [x for x in sig_list if not isinstance(x, (Fraction, int))]
    if nonrat:
      fc.v("time:not-rational", f"significant time {nonrat[0]!r} is not a Fraction")
  except Exception as e:  # pylint: disable=broad-except
    sig_set = None
    fc.v(f"crash:{type(e).__name__}:{_site(e)}", f"ISD.significant_times raised {type(e).__name__}: {e}")
  best = None
  pre = list(fc.viol)
  for interp in rf.interps:
    fc.viol = list(pre)
    check_with_interp(fc, doc, interp, sig_set)
    score = sum(1 for m, _ in fc.viol if m.split(":")[0] in _TIME_MECHS)
    if best is None or score < best[2]:
      best = (interp, list(fc.viol), score)
    if not fc.viol:
      break
  fc.viol = best[1]
  order_check(fc, doc, best[0])
  return fc, fc.viol


# ------------------------------------------------------------------------------------------------------------------
def _features(ctx, fc: FileCheck, cfg):
  rf = fc.rf
  ctx.count("dfc:" + rf.gsi["DFC"].decode("latin-1"))
  ctx.count("cct:" + rf.cct.decode("latin-1"))
  ctx.count("dsc:teletext" if rf.teletext else "dsc:open")
  st = cfg.get("program_start_tc")
  ctx.count("cfg:start:" + ("None" if st is None else ("TCP" if st == "TCP" else "literal")))
  m = cfg.get("max_row_count")
  ctx.count("cfg:rows:" + ("None" if m is None else ("MNR" if m == "MNR" else "int")))
  nontrivial = False
  judged = not any(s.cs_irregular for s in rf.subs)
  timing = rf.timing(st, rf.interps[0]) if rf.dfc_known else [("unjudged", "")] * len(rf.subs)
  dropped_sets = set()
  for s, tm in zip(rf.subs, timing):
    if s.cum_set is not None and judged:
      if s.cum_set in dropped_sets and tm[0] == "ok":
        ctx.count("feat:cum-member-after-dropped-first")
      if tm[0] == "dropped":
        dropped_sets.add(s.cum_set)
  if rf.n_userdata:
    ctx.count("feat:userdata")
  for s, tm in zip(rf.subs, timing):
    if len(s.block_indices) > 1:
      ctx.count("feat:ext-chain")
    if s.cum_set is not None:
      ctx.count("feat:cumulative")
    if s.comment:
      ctx.count("feat:comment")
    if tm[0] == "dropped":
      ctx.count("feat:dropped-before-start")
    lines, fl = s.readings[0]
    for ln in lines:
      for it in ln:
        if it[0] == "c" and it[1] is not None and any(len(unicodedata.normalize("NFD", a)) > 1 for a in it[1]):
          ctx.count("feat:diacritic-pair")
        if it[0] == "g" and it[1] >= 2:
          ctx.count("feat:space-run")
    if fl["control"]:
      ctx.count("feat:control")
    if fl["newline"]:
      ctx.count("feat:newline")
    if tm[0] == "ok" and tm[2] > tm[1] and not s.comment and fc.sub_rows[s.index]:
      if fl["control"] or fl["newline"] or fl["nonascii"]:
        nontrivial = True
  return nontrivial and judged


def merge_extension_chains(data: bytes):
  """-> (bytes, number of chains merged): every subtitle spread over extension blocks whose concatenated text (each block cut at its
  first 8Fh) fits one text field is rewritten as a single block (header of the last block). None if nothing can be merged."""
  gsi, body = data[:1024], data[1024:]
  blocks = [body[i:i + 128] for i in range(0, len(body) - len(body) % 128, 128)]
  out, chain, merged = [], [], 0
  for b in blocks:
    ebn = b[3]
    if ebn <= 0xEF:
      if chain and (chain[0][1:3] != b[1:3]):
        out += chain
        chain = []
      chain.append(b)
      continue
    if ebn == 0xFF and chain and chain[0][1:3] == b[1:3] and all(c[15] == b[15] for c in chain):
      tf = b"".join(c[16:].split(b"\x8f", 1)[0] for c in chain + [b])
      if len(tf) <= 112:
        out.append(b[:16] + tf + b"\x8f" * (112 - len(tf)))
        merged += 1
        chain = []
        continue
    out += chain
    chain = []
    out.append(b)
  out += chain
  if not merged:
    return None, 0
  return gsi + b"".join(out) + body[len(blocks) * 128:], merged


def split_equivalence(ctx, fc, data, cfg, source):
  """'extension blocks concatenated': a subtitle reads the same whether its text is sent in one block or spread over several."""
  from ttconv.stl import reader
  from vt.ref import absdoc
  one, n = merge_extension_chains(data)
  if one is None:
    return []
  try:
    a = absdoc.fingerprint(reader.to_model(io.BytesIO(bytes(data)), fc.reader_config()))
    b = absdoc.fingerprint(reader.to_model(io.BytesIO(one), fc.reader_config()))
  except Exception:  # pylint: disable=broad-except
    return []       # crashes are reported by check_file
  ctx.count("cmp:split-equivalence", n)
  if a != b:
    part = "regions" if a[2] != b[2] else "content" if a[3] != b[3] else "parameters"
    return [("split-differs:" + part, f"the document differs ({part}) when the {n} subtitle(s) sent over extension blocks are sent in one block each")]
  return []


def evaluate(ctx, data, cfg, source):
  ctx.ev()
  ctx.count("files")
  fc, viol = check_file(ctx, data, cfg, source)
  if source.startswith("gen:") and not any(m.startswith("crash:") for m, _ in viol):
    viol = list(viol) + split_equivalence(ctx, fc, data, cfg, source)
  nontrivial = _features(ctx, fc, cfg)
  if nontrivial:
    ctx.nontriv(hashlib.blake2b(data + repr(sorted(cfg.items())).encode(), digest_size=8).digest().hex())
  seen = set()
  for mech, what in viol:
    if mech in seen:
      continue
    seen.add(mech)
    ctx.violation(mech, f"[{source}] cfg={cfg} " + what, {"data": data.hex(), "config": cfg, "source": source})
  return fc, viol


DEFAULT_CFG = {"program_start_tc": None, "max_row_count": None, "disable_fill_line_gap": False, "disable_line_padding": False,
               "font_stack": None}


def table_files():
  """Deterministic files that enumerate every character cell of every table and every ISO 6937 diacritic pair."""
  out = []
  for dsc in ("1", "0"):
    for cct in ("00", "01", "02", "03", "04"):
      cells = []
      for b in range(0x21, 0x7F):
        cells.append(bytes([b]))
      for b in range(0xA1, 0x100):
        if cct == "00" and 0xC0 <= b <= 0xCF:
          continue
        cells.append(bytes([b]))
      if cct == "00":
        cells += [bytes(p) for p in G.PAIRS]
      ttis = []
      sn = 1
      k = 0
      t = 0
      while k < len(cells):
        tf = b""
        while k < len(cells) and len(tf) + len(cells[k]) + 1 <= 30:
          tf += cells[k] + b"x"
          k += 1
        ttis.append({"sn": sn, "tci": (0, 0, t, 0), "tco": (0, 0, t + 1, 0), "vp": 20, "jc": 2, "tf": b"x" + tf})
        sn += 1
        t += 1
        if len(ttis) == G.MAX_TTI:
          out.append((f"table:cct{cct}:dsc{dsc}:{len(out)}", G.assemble({"dfc": "STL25.01", "dsc": dsc, "cct": cct}, ttis)))
          ttis, t = [], 0
      if ttis:
        out.append((f"table:cct{cct}:dsc{dsc}:{len(out)}", G.assemble({"dfc": "STL25.01", "dsc": dsc, "cct": cct}, ttis)))
  # double-height ladders in open / undefined-DSC files (s-C09-14): the reader counts a double-height row as two rows for every
  # DSC, so the bottom anchor must follow the last occupied row there as well; enumerated, own random streams
  import random
  for k in range(8):
    data, _ast = G.gen_dh_file(random.Random(9000 + k), dsc="0" if k % 2 == 0 else " ")
    out.append((f"table:dh-open:{k}", data))
  return out


def run(ctx, p):
  from vt import core
  if p["kind"] == "gen":
    for i in range(p["lo"], p["lo"] + p["n"]):
      rng = ctx.rng("file", i)
      force = {"dfc": G.DFCS[i % 5]} if i % 3 == 0 else None
      if i % 12 == 7:
        data, ast = G.gen_dh_file(rng)
        ctx.count("class:double-height-ladder")
      else:
        data, ast = G.gen_file(rng, force)
      cfg = G.gen_config(rng, ast)
      fc, viol = evaluate(ctx, data, cfg, f"gen:{i}")
      if len(ctx.samples) < 2 and not viol and len(data) <= 1024 + 3 * 128:
        ctx.sample({"source": f"gen:{i}", "config": cfg, "gsi": ast["gsi"], "subs": ast["subs"][:3]})
  elif p["kind"] == "table":
    for name, data in table_files():
      ctx.count("table:files")
      evaluate(ctx, data, dict(DEFAULT_CFG), name)
  else:
    files = sorted(glob.glob(os.path.join(core.REPO, CORPUS_DIR, "**", "*.stl"), recursive=True))
    for k, path in enumerate(files):
      if k % p["parts"] != p["part"]:
        continue
      with open(path, "rb") as f:
        data = f.read()
      name = "corpus:" + os.path.relpath(path, os.path.join(core.REPO, CORPUS_DIR))
      cfgs = [dict(DEFAULT_CFG), dict(DEFAULT_CFG, program_start_tc="TCP"), dict(DEFAULT_CFG, max_row_count="MNR", disable_line_padding=True),
              dict(DEFAULT_CFG, program_start_tc="TCP", max_row_count=30, disable_fill_line_gap=True, font_stack=["Arial"])]
      for cfg in cfgs:
        ctx.count("corpus:files")
        fc, viol = evaluate(ctx, data, cfg, name)
        if len(ctx.samples) < 1 and not viol:
          ctx.sample({"source": name, "config": cfg, "subtitles": len(fc.rf.subs), "first": fc.rf.subs[0].describe() if fc.rf.subs else None})


def replay(ctx, payload):
  data = bytes.fromhex(payload["data"])
  evaluate(ctx, data, payload["config"], payload.get("source", "replay"))


def finalize(tier, counters):
  return {"isd_snapshots": counters.get("probe:isd", 0), "characters_compared": counters.get("cmp:chars", 0),
          "attribute_comparisons": counters.get("cmp:attrs", 0)}
