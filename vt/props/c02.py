"""C02 - the presentation changes only at the reported significant times.
Monitors: (i) metamorphic on the real code - the snapshot at any probe time equals the snapshot at the greatest
significant time not after it (empty before the first); (ii) reference change points - every instant at which the
reference ISD changes must be reported; (iii) generate_isd_sequence == snapshots at the entries, in order."""
from __future__ import annotations

from fractions import Fraction

from vt.gen import model_docs
from vt.props._isdwork import exc_site
from vt.ref import absdoc, build, isd as refisd

ID = "C02"
RULE = ("documents from vt/gen/model_docs.py profile 'isd' with extra animation steps (class anim-on-offset-element required); probes = all "
        "absolute begins/ends of elements, regions and animation steps as the reference computes them (animation relative to the element's own "
        "begin), midpoints between consecutive reported entries, before the first and after the last entry. Non-trivial: document with >= 3 "
        "significant times and a non-empty snapshot; distinct = distinct (document, probe)")
ASSUMPTIONS = [
  "snapshots compared through a full canonical form (structure, text, every style value) taken with public getters",
  "a reported superset of the true change points is allowed",
  "sequence entries are compared with ISD.from_model(doc, s, sig) exactly and with the uncached snapshot modulo content-less regions (C14's relaxation)",
]
REQUIRED = ["sig:lists", "probe:compared", "probe:before-first", "refchange:checked", "sequence:entries", "class:anim-on-offset-element",
            "class:timed-region", "class:gating-region"]
SHARD_TIMEOUT = {"quick": 900, "thorough": 7200}
N = {"quick": 25, "thorough": 1250}
KNOWN = "D-SIG-ANIM"


def plan(tier, seed):
  return [{"n": N[tier], "shard": i} for i in range(16)]


def _round(v):
  """Floats compared to 10 significant digits: two snapshots of one document may resolve the same relative length along
  different but equivalent arithmetic paths (6.666666666666667 vs 6.666666666666668 rh) - not a change of the presentation."""
  if isinstance(v, float):
    return float("%.10g" % v)
  if isinstance(v, tuple):
    return tuple(_round(x) for x in v)
  return v


def _norm_style(k, v):
  # unspecified text-decoration components left at the root of inheritance mean "not decorated" (abstention of the reference)
  if k == "TextDecoration" and isinstance(v, tuple) and v and v[0] == "D":
    return ("D", v[1], tuple((f, False if x is None else x) for f, x in v[2]))
  return _round(v)


def canon_el(e: absdoc.AbsEl):
  return (e.kind, e.id, e.text, e.space, e.lang, e.begin, e.end, e.region_id,
          tuple(sorted(((k, _norm_style(k, v)) for k, v in e.styles.items()), key=lambda kv: kv[0])),
          tuple(e.anims), tuple(canon_el(c) for c in e.children))


def paints(r: absdoc.AbsEl) -> bool:
  """A content-less region only matters to the presentation when it paints a background."""
  if r.children:
    return True
  bg = r.styles.get("BackgroundColor")
  if bg is None or bg[1][3] == 0:
    return False
  if r.styles.get("Opacity") == 0 or r.styles.get("Visibility") == ("E", "VisibilityType", "hidden"):
    return False
  return True


def drop_empty_ruby(e: absdoc.AbsEl):
  """Childless Rb/Rbc render nothing (and whether they survive is not judged, see C01): remove them and any
  container left childless by that."""
  for c in e.children:
    had = bool(c.children)
    drop_empty_ruby(c)
    c._had = had  # pylint: disable=protected-access
  e.children = [c for c in e.children
                if not ((c.kind in ("Rb", "Rbc", "Ruby") and not c.children) or
                        (c.kind not in ("Text", "Br") and not c.children and getattr(c, "_had", False)))]


def canon_isd(isd, drop_empty_regions=False, normalize_ruby=False):
  """Canonical form of a snapshot; content-less regions that paint nothing are never part of it."""
  a = absdoc.snap_isd(isd)
  if normalize_ruby:
    for r in a.regions:
      drop_empty_ruby(r)
  regs = [r for r in a.regions if (r.children or not drop_empty_regions) and paints(r)]
  if normalize_ruby:
    # a whenActive region whose only content was empty ruby bases (not judged) counts as content-less
    regs = [r for r in regs if r.children or r.styles.get("ShowBackground") != ("E", "ShowBackgroundType", "whenActive")]
  return (a.params(), tuple(canon_el(r) for r in regs))


def canon_ref(r: refisd.RefISD):
  def ce(n):
    return (n.kind, n.id, n.text, tuple(sorted(((k, v[0]) for k, v in n.styles.items()), key=lambda kv: kv[0])), tuple(ce(c) for c in n.children))

  def rpaints(n):
    if n.children:
      return True
    bg = n.styles["BackgroundColor"][0]
    return not (bg[1][3] == 0 or n.styles["Opacity"][0] == 0 or n.styles["Visibility"][0] == ("E", "VisibilityType", "hidden"))
  return tuple(ce(x) for x in r.regions if rpaints(x))


def dsig_points(adoc: absdoc.AbsDoc):
  """Instants of animation steps whose correct resolution (relative to the element's own interval) differs from the
  resolution relative to the parent's interval - the mechanism of known finding D-SIG-ANIM."""
  pts = set()

  def visit(el, pint):
    if el.kind in ("Text", "Br"):
      interval = pint
    else:
      interval = refisd.make_abs(el.begin, el.end, pint[0], pint[1])
    for _p, b, e, _v in el.anims:
      correct = refisd.make_abs(b, e, interval[0], interval[1])
      coded = refisd.make_abs(b, e, pint[0], pint[1])
      if correct != coded:
        pts.update(x for x in correct if x is not None)
    for c in el.children:
      visit(c, interval)
  for r in adoc.regions:
    visit(r, (Fraction(0), None))
  if adoc.body is not None:
    visit(adoc.body, (Fraction(0), None))
  return pts


def coded_expected(adoc: absdoc.AbsDoc):
  """Times that must be reported even under the known finding: begin/end of every region and of every element that can
  be presented in some region, plus animation endpoints resolved the (wrong) way the finding describes."""
  out = set()

  def add(interval):
    out.update(x for x in interval if x is not None)

  def visit(el, pint, selected, inherited):
    own = None
    if el.region_id is not None:
      own = ("id", el.region_id) if el.region_ok else ("dangling", el.region_id)
    assoc = own if own is not None else inherited
    if assoc != selected and (not el.children or assoc is not None):
      return
    interval = pint if el.kind in ("Text", "Br") else refisd.make_abs(el.begin, el.end, pint[0], pint[1])
    add(interval)
    for _p, b, e, _v in el.anims:
      add(refisd.make_abs(b, e, pint[0], pint[1]))
    for c in el.children:
      visit(c, interval, selected, assoc)

  root = (Fraction(0), None)
  for r in adoc.regions:
    add(refisd.make_abs(r.begin, r.end, root[0], root[1]))
    for _p, b, e, _v in r.anims:
      add(refisd.make_abs(b, e, root[0], root[1]))
  if adoc.body is not None:
    if adoc.regions:
      for r in adoc.regions:
        visit(adoc.body, root, ("id", r.id), None)
    else:
      visit(adoc.body, root, None, None)
  return out


def check_doc(ctx, adoc0, classes=()):
  from ttconv.isd import ISD
  payload = {"doc": build.dumps(adoc0)}
  doc = build.build_doc(adoc0)
  adoc = absdoc.snap_doc(doc)
  for c in classes:
    ctx.count("class:" + c)
  try:
    sig = ISD.significant_times(doc)
    offsets = list(sig)
  except Exception as e:  # pylint: disable=broad-except
    ctx.violation("significant_times-raises:" + exc_site(e), f"{type(e).__name__}: {e}", payload)
    return
  ctx.ev()
  ctx.count("sig:lists")
  if any(not b > a for a, b in zip(offsets, offsets[1:])):
    ctx.violation("not-strictly-increasing", f"significant times {offsets}", payload)
  if any(isinstance(x, float) for x in offsets):
    ctx.count("sig:float-entries")
  bounds = refisd.boundaries(adoc)
  dsig = dsig_points(adoc) - coded_expected(adoc)
  if dsig:
    ctx.count("docs-with-dsig-mechanism")

  # --- (ii) reference change points must be reported; first entry no later than first visible content ------------
  first_visible = None
  real_changes = set()
  gaps = [b - a for a, b in zip(bounds, bounds[1:]) if b > a]
  delta = (min(gaps) / 2) if gaps else Fraction(1, 2)
  for b in bounds:
    cur = canon_ref(refisd.compute_isd(adoc, b))
    before = canon_ref(refisd.compute_isd(adoc, b - delta)) if b - delta >= 0 else ()
    ctx.count("refchange:checked")
    if first_visible is None and any(r[4] for r in cur):
      first_visible = b
    if cur != before:
      real_changes.add(b)
      if b not in offsets:
        fid = KNOWN if b in dsig else None
        ctx.violation("ref-change-point-missing", f"the presentation changes at {b} (reference) but it is not among the {len(offsets)} significant "
                      f"times (nearest: {[str(x) for x in offsets if abs(x - b) < 2][:8]})", payload, finding=fid)
  if first_visible is not None and (not offsets or offsets[0] > first_visible):
    ctx.violation("first-entry-late", f"first visible content at {first_visible}, significant times {offsets}", payload)

  # --- (i) metamorphic probes on the real code ---------------------------------------------------------------
  probes = set(bounds)
  for a, b in zip(offsets, offsets[1:]):
    probes.add((a + b) / 2)
  if offsets:
    probes.add(offsets[-1] + 1)
    probes.add(offsets[-1] + Fraction(1, 3000))
    if offsets[0] > 0:
      probes.add(offsets[0] / 2)
      probes.add(Fraction(0))
  cache = {}

  def snap(t):
    if t not in cache:
      try:
        cache[t] = canon_isd(ISD.from_model(doc, t))
      except Exception as e:  # pylint: disable=broad-except
        cache[t] = ("raised", exc_site(e))
    return cache[t]

  nontrivial = False
  for t in sorted(probes):
    ctx.ev()
    le = [s for s in offsets if s <= t]
    s_t = snap(t)
    if s_t[0] == "raised":
      ctx.count("probe:raised")
      continue
    rp = dict(payload, t=f"{t.numerator}/{t.denominator}")
    if not le:
      ctx.count("probe:before-first")
      if s_t[1]:
        ctx.violation("non-empty-before-first", f"snapshot at {t} is not empty but the first significant time is {offsets[:1]}", rp)
      continue
    entry = le[-1]
    ctx.count("probe:compared")
    if s_t[1]:
      nontrivial = True
      ctx.nontriv(("p", payload["doc"], str(t)))
    s_e = snap(entry)
    if s_e[0] == "raised":
      continue
    if s_t != s_e:
      missing = [c for c in bounds if entry < c <= t and c not in offsets and c in real_changes]
      fid = KNOWN if missing and all(c in dsig for c in missing) else None
      ctx.violation("change-between-entries", f"snapshot at {t} differs from the snapshot at the greatest significant time not after it ({entry}); "
                    f"unreported change instants in between (reference): {[str(c) for c in missing]}", rp, finding=fid)

  # --- (iii) the generated sequence ---------------------------------------------------------------------------
  try:
    seq = ISD.generate_isd_sequence(doc)
  except Exception as e:  # pylint: disable=broad-except
    ctx.violation("generate_isd_sequence-raises:" + exc_site(e), f"{type(e).__name__}: {e}", payload)
    return
  if [s for s, _ in seq] != offsets:
    ctx.violation("sequence-times", f"sequence times {[s for s, _ in seq]} != significant times {offsets}", payload)
  else:
    for s, isd in seq:
      ctx.count("sequence:entries")
      got = canon_isd(isd)
      try:
        exp_cached = canon_isd(ISD.from_model(doc, s, sig))
        exp_plain = canon_isd(ISD.from_model(doc, s), normalize_ruby=True)
      except Exception:  # pylint: disable=broad-except
        continue
      if got != exp_cached:
        ctx.violation("sequence-entry-differs", f"sequence entry at {s} is not the snapshot ISD.from_model(doc, {s}, sig)", dict(payload, t=str(s)))
      elif canon_isd(isd, normalize_ruby=True) != exp_plain:
        ctx.violation("sequence-entry-differs-uncached", f"sequence entry at {s} differs from the uncached snapshot (content-less regions that paint nothing are not compared)",
                      dict(payload, t=str(s)))
  if nontrivial and len(offsets) >= 3 and len(ctx.samples) < 3:
    ctx.sample({"significant_times": [str(x) for x in offsets], "probes": len(probes), "classes": sorted(classes)})


def run(ctx, params):
  for i in range(params["n"]):
    rng = ctx.rng("doc", params["shard"], i)
    adoc0, classes = model_docs.generate(rng, "isd", None, p_anim=0.45, p_time=0.7, p_region_time=0.5)
    # regions that paint nothing on their own but gate their content with begin/end instants no other element uses
    # (added after seeded change s-C02-2 was only caught by the thorough tier)
    for r in adoc0.regions:
      if rng.random() < 0.4:
        r.styles["ShowBackground"] = ("E", "ShowBackgroundType", "whenActive")
        r.anims = [a for a in r.anims if a[0] not in ("BackgroundColor", "Display", "Opacity", "ShowBackground", "Visibility")]
        r.begin = rng.choice([None, Fraction(7, 6), Fraction(19, 6), Fraction(1, 7)])
        r.end = rng.choice([None, Fraction(29, 6), Fraction(41, 6)])
        classes.add("gating-region")
    try:
      check_doc(ctx, adoc0, classes)
    except Exception as e:  # pylint: disable=broad-except
      ctx.notes.append(f"harness error: {type(e).__name__}: {e}")
      raise


def replay(ctx, payload):
  check_doc(ctx, build.loads(payload["doc"]))
