"""C14 - snapshot acceleration and repeated use never change results or the source.
Call-history monitor: wrappers on ISD.significant_times / from_model / generate_isd_sequence and the SRT / VTT / IMSC
writers fingerprint the document argument before and after EVERY call (nested calls included); a driver runs random
interleavings on one document object, compares cached with uncached snapshots, repeated calls with first calls and
results inside a history with results on a freshly built copy."""
from __future__ import annotations

import io
import xml.etree.ElementTree as et
from fractions import Fraction

from vt.gen import model_docs
from vt.mon.install import wrap
from vt.props._isdwork import exc_site, probe_times
from vt.props.c02 import canon_isd
from vt.ref import absdoc, build

ID = "C14"
RULE = ("documents from vt/gen/model_docs.py (profiles isd/text/style; 0, 1, many regions; regions whose background is visible only by "
        "animation or initial value) x one random history of 4-9 operations over {significant_times, snapshot uncached, snapshot with a "
        "SignificantTimes computed earlier, generate_isd_sequence, SRT x2 configs, VTT x4 configs, IMSC x4 configs} on ONE document object, "
        "plus cached-vs-uncached comparison at every boundary instant. Non-trivial: history with >= 2 distinct operation kinds on a document "
        "with content; distinct = distinct (document, history)")
ASSUMPTIONS = [
  "source unchanged = deep structural fingerprint through public getters (structure, ids, timing, styles, animation steps, region refs, "
  "registry, initial values, parameters) plus object identity of every element, before vs after every monitored call",
  "cached vs uncached snapshots compared after deleting content-less regions that paint nothing (transparent/absent background, "
  "opacity 0, hidden) from both, as the statement allows",
  "writer outputs compared as strings / serialised bytes",
]
REQUIRED = ["mon:fingerprints", "mon:nested-calls", "cmp:cached-vs-plain", "cmp:repeat", "cmp:fresh", "op:sig", "op:plain", "op:cached",
            "op:seq", "op:srt", "op:vtt", "op:imsc", "class:regions:0", "class:regions:1", "class:regions:many", "class:bg-by-animation"]
SHARD_TIMEOUT = {"quick": 900, "thorough": 7200}
N = {"quick": 18, "thorough": 900}


def plan(tier, seed):
  return [{"n": N[tier], "shard": i, "profile": ["isd", "text", "style"][i % 3]} for i in range(16)]


def identity(doc):
  ids = [id(r) for r in doc.iter_regions()]
  b = doc.get_body()
  if b is not None:
    ids.extend(id(e) for e in b.dfs_iterator())
  return tuple(ids)


class SourceMonitor:
  """Fingerprints the document argument around every call of the monitored functions."""

  def __init__(self, ctx):
    self.ctx = ctx
    self.depth = 0
    self.history = []       # names of outermost operations, for messages
    self.payload = None

  def install(self):
    from ttconv.isd import ISD
    import ttconv.srt.writer as srt_writer
    import ttconv.vtt.writer as vtt_writer
    import ttconv.imsc.writer as imsc_writer
    for owner, name in ((ISD, "significant_times"), (ISD, "from_model"), (ISD, "generate_isd_sequence"),
                        (srt_writer, "from_model"), (vtt_writer, "from_model"), (imsc_writer, "from_model")):
      label = f"{getattr(owner, '__name__', owner)}.{name}".replace("ttconv.", "")
      wrap(owner, name, post=self._post(label), pre=self._pre)

  def _pre(self, args, kwargs):
    doc = args[0] if args else kwargs.get("doc", kwargs.get("model_doc"))
    self.depth += 1
    if self.depth > 1:
      self.ctx.count("mon:nested-calls")
    try:
      return (doc, absdoc.fingerprint(doc), identity(doc))
    except Exception:  # pylint: disable=broad-except
      return None

  def _post(self, label):
    def post(state, args, kwargs, result, exc):
      self.depth -= 1
      if state is None:
        return
      doc, fp, ident = state
      self.ctx.count("mon:fingerprints")
      try:
        fp2, ident2 = absdoc.fingerprint(doc), identity(doc)
      except Exception as e:  # pylint: disable=broad-except
        self.ctx.violation("source-broken:" + label, f"document cannot be walked after {label}: {type(e).__name__}: {e}", self.payload or {})
        return
      if fp2 != fp or ident2 != ident:
        what = describe_change(fp, fp2) if fp2 != fp else "element objects replaced"
        self.ctx.violation("source-changed:" + label, f"{label} changed the source document ({what}); history so far {self.history}",
                           self.payload or {})
    return post


def describe_change(a, b):
  if a[0] != b[0]:
    return f"parameters {a[0]} -> {b[0]}"
  if a[1] != b[1]:
    return "initial values"
  if a[2] != b[2]:
    return "regions"
  return "body content"


SRT_CFGS = [None, {"text_formatting": False}]
VTT_CFGS = [None, {"line_position": True}, {"text_align": True, "cue_id": False}, {"line_position": True, "text_align": True}]
IMSC_CFGS = [None, {"time_format": "clock_time"}, {"time_format": "frames", "fps": "25/1"}, {"time_format": "clock_time_with_frames", "fps": "30/1"}]


class Raised:
  def __init__(self, site):
    self.site = site

  def __eq__(self, other):
    return isinstance(other, Raised) and other.site == self.site

  def __hash__(self):
    return hash(self.site)


def run_op(doc, op, sigs):
  """Executes one operation; returns a comparable result."""
  from ttconv.isd import ISD
  import ttconv.srt.writer as srt_writer
  import ttconv.vtt.writer as vtt_writer
  import ttconv.imsc.writer as imsc_writer
  from ttconv.srt.config import SRTWriterConfiguration
  from ttconv.vtt.config import VTTWriterConfiguration
  from ttconv.imsc.config import IMSCWriterConfiguration
  kind = op[0]
  if kind == "sig":
    s = ISD.significant_times(doc)
    sigs.append(s)
    return tuple(s)
  if kind == "plain":
    return canon_isd(ISD.from_model(doc, op[1]))
  if kind == "cached":
    if not sigs:
      sigs.append(ISD.significant_times(doc))
    return canon_isd(ISD.from_model(doc, op[1], sigs[op[2] % len(sigs)]))
  if kind == "seq":
    return tuple((t, canon_isd(i)) for t, i in ISD.generate_isd_sequence(doc))
  if kind == "srt":
    cfg = SRT_CFGS[op[1]]
    return srt_writer.from_model(doc, None if cfg is None else SRTWriterConfiguration.parse(cfg))
  if kind == "vtt":
    cfg = VTT_CFGS[op[1]]
    return vtt_writer.from_model(doc, None if cfg is None else VTTWriterConfiguration.parse(cfg))
  if kind == "imsc":
    cfg = IMSC_CFGS[op[1]]
    tree = imsc_writer.from_model(doc, None if cfg is None else IMSCWriterConfiguration.parse(cfg))
    buf = io.BytesIO()
    tree.write(buf, encoding="utf-8", xml_declaration=True)
    return buf.getvalue()
  raise ValueError(op)


def op_key(op):
  # a cached snapshot is keyed without the index of the SignificantTimes object used: any of them must give the same
  return op[:2] if op[0] == "cached" else op


def gen_history(rng, times):
  ops = []
  n = rng.randint(4, 9)
  kinds = ["sig", "plain", "cached", "seq", "srt", "vtt", "imsc"]
  for _ in range(n):
    k = rng.choice(kinds)
    if k in ("plain", "cached"):
      t = rng.choice(times)
      ops.append((k, t, rng.randrange(4)) if k == "cached" else (k, t))
    elif k == "srt":
      ops.append((k, rng.randrange(len(SRT_CFGS))))
    elif k == "vtt":
      ops.append((k, rng.randrange(len(VTT_CFGS))))
    elif k == "imsc":
      ops.append((k, rng.randrange(len(IMSC_CFGS))))
    else:
      ops.append((k,))
  # repeat two of the operations so that "repeating a call returns an equal result" is exercised
  for _ in range(2):
    ops.insert(rng.randrange(len(ops) + 1), rng.choice(ops))
  return ops


def enc_ops(ops):
  return [[o[0]] + [f"{x.numerator}/{x.denominator}" if isinstance(x, Fraction) else x for x in o[1:]] for o in ops]


def dec_ops(ops):
  return [tuple([o[0]] + [Fraction(x) if isinstance(x, str) and "/" in x else x for x in o[1:]]) for o in ops]


def run_history(ctx, mon, adoc0, ops, classes=()):
  from ttconv.isd import ISD
  payload = {"doc": build.dumps(adoc0), "ops": enc_ops(ops)}
  mon.payload = payload
  mon.history = []
  doc = build.build_doc(adoc0)
  for c in classes:
    ctx.count("class:" + c)
  sigs = []
  first = {}
  kinds = set()
  had_content = False
  for op in ops:
    ctx.ev()
    ctx.count("op:" + op[0])
    mon.history.append(op[0])
    try:
      res = run_op(doc, op, sigs)
    except Exception as e:  # pylint: disable=broad-except
      ctx.count("op-raised:" + op[0])
      res = Raised(exc_site(e))
    kinds.add(op[0])
    if op[0] in ("plain", "cached") and not isinstance(res, Raised) and res[1]:
      had_content = True
    k = op_key(op)
    if k in first:
      ctx.count("cmp:repeat")
      if first[k] != res:
        ctx.violation("repeat-differs:" + op[0], f"repeating {op[0]}{tuple(str(x) for x in op[1:])} returned a different result; history {mon.history}", payload)
    else:
      first[k] = res
  # history independence: the same operation on a freshly built document object
  fresh_sigs = []
  for k, res in list(first.items())[:6]:
    if k[0] == "sig" or isinstance(res, Raised):
      continue
    fresh = build.build_doc(adoc0)
    try:
      res2 = run_op(fresh, k if k[0] != "cached" else (k[0], k[1], 0), fresh_sigs if k[0] != "cached" else [])
    except Exception as e:  # pylint: disable=broad-except
      res2 = Raised(exc_site(e))
    ctx.count("cmp:fresh")
    if res2 != res:
      ctx.violation("history-dependent:" + k[0], f"{k[0]} inside the history {mon.history} differs from the same call on a fresh document", payload)
  # cached vs uncached at all boundary instants
  adoc = absdoc.snap_doc(doc)
  rng = ctx.rng("probe")
  try:
    sig = ISD.significant_times(doc)
  except Exception:  # pylint: disable=broad-except
    sig = None
  if sig is not None:
    for t in probe_times(adoc, rng, n_random=2):
      try:
        a = canon_isd(ISD.from_model(doc, t), normalize_ruby=True)
        b = canon_isd(ISD.from_model(doc, t, sig), normalize_ruby=True)
      except Exception:  # pylint: disable=broad-except
        ctx.count("cmp:raised")
        continue
      ctx.ev()
      ctx.count("cmp:cached-vs-plain")
      if a[1]:
        had_content = True
      if a != b:
        ra = [r[1] for r in a[1]]
        rb = [r[1] for r in b[1]]
        mech = "cached-differs:regions" if ra != rb else "cached-differs:content"
        ctx.violation(mech, f"t={t}: uncached snapshot has regions {ra}, cached snapshot has regions {rb}"
                      + ("" if ra != rb else " with different content"), dict(payload, t=f"{t.numerator}/{t.denominator}"))
  if had_content and len(kinds) >= 2:
    ctx.nontriv(("h", payload["doc"], repr(payload["ops"])))
    if len(ctx.samples) < 3:
      ctx.sample({"history": enc_ops(ops), "regions": [r.id for r in adoc.regions], "classes": sorted(classes)})


def bg_by_animation(rng, adoc0, classes):
  """Makes the background of one region visible only through an animation step / an initial value (coverage class)."""
  if not adoc0.regions:
    return
  r = rng.choice(adoc0.regions)
  r.styles["BackgroundColor"] = ("C", (0, 0, 0, 0))
  r.styles["ShowBackground"] = ("E", "ShowBackgroundType", "always")
  r.styles.pop("Display", None)
  r.styles.pop("Opacity", None)
  r.styles.pop("Visibility", None)
  b = rng.choice([None, Fraction(0), Fraction(1), Fraction(9), Fraction(20)])
  e = rng.choice([None, Fraction(30), Fraction(25)])
  r.anims = [a for a in r.anims if a[0] not in ("BackgroundColor", "Display", "Opacity", "Visibility", "ShowBackground")]
  r.anims.append(("BackgroundColor", b, e, ("C", (255, 0, 0, 255))))
  classes.add("bg-by-animation")


def run(ctx, params):
  mon = SourceMonitor(ctx)
  mon.install()
  for i in range(params["n"]):
    rng = ctx.rng("doc", params["shard"], i)
    adoc0, classes = model_docs.generate(rng, params["profile"], None)
    if rng.random() < 0.35:
      bg_by_animation(rng, adoc0, classes)
    elif rng.random() < 0.2:
      adoc0.initials["BackgroundColor"] = ("C", (0, 0, 255, 255))
      classes.add("bg-by-initial")
    times = probe_times(absdoc.snap_doc(build.build_doc(adoc0)), rng, n_random=1, dense=False)
    ops = gen_history(rng, times)
    run_history(ctx, mon, adoc0, ops, classes)


def replay(ctx, payload):
  mon = SourceMonitor(ctx)
  mon.install()
  run_history(ctx, mon, build.loads(payload["doc"]), dec_ops(payload["ops"]))
