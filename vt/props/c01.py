"""C01 - a snapshot at time t shows exactly the content TTML makes active at t.
Reference ISD construction (vt/ref/isd.py, from TTML2 11.3.1.3 / 12) vs ISD.from_model on generated documents at all
boundary instants (+- delta) and random instants, uncached and with SignificantTimes."""
from vt.props import _isdwork

ID = "C01"
RULE = ("documents from vt/gen/model_docs.py profile 'isd' (0-4 timed regions, nested div/p/span/br/ruby, region references at any "
        "level, display styles/animations/initial values, xml:space) x probe times = every absolute begin/end of elements, regions "
        "and animation steps as the reference computes them, each +- half the smallest gap, before first / after last, random; "
        "each probe through ISD.from_model(doc,t) and ISD.from_model(doc,t,sig). Non-trivial: snapshot with content; distinct = "
        "distinct (document, time, mode)")
ASSUMPTIONS = [
  "reference ISD construction in vt/ref/isd.py written from TTML2 11.3.1.3 and 12.4",
  "childless Rb/Rbc (and Ruby left childless by that) are not judged",
  "regions without content are not judged here (C13/C14)",
  "text compared as token sequences (exact white space is C13's clause)",
]
REQUIRED = ["corpus-docs", "snapshots:plain", "snapshots:cached", "snapshots:non-empty", "probe-on-boundary", "class:regions:0", "class:regions:1",
            "class:regions:many", "class:ruby", "class:timed-region", "class:display-none-specified", "class:display-animated"]
SHARD_TIMEOUT = {"quick": 900, "thorough": 7200}
N = {"quick": 60, "thorough": 2500}


def plan(tier, seed):
  return [{"n": N[tier], "shard": i} for i in range(14)] + _isdwork.corpus_shards(tier)


def run(ctx, params):
  _isdwork.run_docs(ctx, params, {"C01"}, "isd")


def replay(ctx, payload):
  _isdwork.replay_doc(ctx, payload, {"C01"})
