"""C16 - the LCD filter simplifies style and layout but keeps the text timeline.
Post-state invariant walker + reference snapshots of the pre-filter document compared with snapshots of the filtered
document, over generated documents x filter configurations; idempotence by fingerprint."""
from __future__ import annotations

from fractions import Fraction

from vt.gen import model_docs
from vt.mon import isdcheck
from vt.props._isdwork import exc_site
from vt.ref import absdoc, build, isd as refisd

ID = "C16"
RULE = ("documents from vt/gen/model_docs.py (profiles isd/style: regions with origin, position on all edges, extent in every unit, writing "
        "modes, timed regions, 0-3 animation steps per element; with and without body / regions) x LCD configuration (safe_area in {0,5,10,30}, "
        "preserve_text_align, color, bg_color in {none, named, #rrggbbaa}). Non-trivial: document with >= 1 region and visible text; distinct = "
        "distinct (document, configuration)")
ASSUMPTIONS = [
  "text timeline compared as the set of visible text tokens per probe time (region-agnostic) using the reference ISD on the pre-filter and "
  "post-filter documents; only for documents without display / visibility / opacity styling (specified, animated or initial)",
  "merging clause: the filter erases the writing mode of every region, so regions are compared by timing, resulting displayAlign and the "
  "region-level values of the styles the configuration preserves (textAlign / color / backgroundColor): no "
  "two retained regions may share all of these; a removed region must have a retained region with the same timing and its "
  "references must point to such a region (merging regions that differ in writing mode is not forbidden by the statement)",
  "safe-area geometry accepted in % or in the equivalent rh/rw",
  "configured colour / background / alignment judged on the computed styles of the reference ISD of the filtered document",
]
REQUIRED = ["filtered", "cfg:color", "cfg:bg_color", "cfg:preserve_text_align", "timeline:compared", "idempotence:compared",
            "class:position-region", "class:no-body", "class:regions:many", "class:timed-region", "regions:merged", "snap:align-preserved", "class:region-level-styles", "class:twin-regions", "class:childless-body"]
SHARD_TIMEOUT = {"quick": 900, "thorough": 7200}
N = {"quick": 90, "thorough": 2500}
ALLOWED = {"DisplayAlign", "Extent", "Origin", "Color", "BackgroundColor", "TextAlign"}
HIDERS = ("Display", "Visibility", "Opacity")


def plan(tier, seed):
  return [{"n": N[tier], "shard": i, "profile": "isd" if i % 2 else "style"} for i in range(16)]


def gen_cfg(rng):
  cfg = {"safe_area": rng.choice([0, 5, 10, 10, 30])}
  if rng.random() < 0.5:
    cfg["preserve_text_align"] = rng.random() < 0.6
  if rng.random() < 0.5:
    cfg["color"] = rng.choice(["red", "#00ff00", "#12345680", "white"])
  if rng.random() < 0.5:
    cfg["bg_color"] = rng.choice(["black", "#00000080", "#ff000000", "blue"])
  return cfg


def region_wm(r: absdoc.AbsEl, adoc: absdoc.AbsDoc):
  v = r.styles.get("WritingMode") or adoc.initials.get("WritingMode")
  return v[2] if v else "lrtb"


def hides(adoc: absdoc.AbsDoc) -> bool:
  if any(h in adoc.initials for h in HIDERS):
    return True
  for root in list(adoc.regions) + ([adoc.body] if adoc.body else []):
    for el in root.walk():
      if any(h in el.styles for h in HIDERS) or any(a[0] in HIDERS for a in el.anims):
        return True
  return False


def tokens_at(adoc, t):
  out = set()
  for r in refisd.compute_isd(adoc, t).regions:
    for n in r.walk():
      if n.kind == "Text":
        out.update((n.text or "").split())
  return out


def conflict_tokens(adoc):
  """Tokens of text nodes that have at least two different region references on their ancestor chain (own element included):
  such content is not presentable before the filter and becomes presentable when the two regions are merged."""
  out = set()

  def visit(el, refs):
    if el.region_id is not None:
      refs = refs | {el.region_id}
    if el.kind == "Text":
      if len(refs) >= 2:
        out.update((el.text or "").split())
    for c in el.children:
      visit(c, refs)
  if adoc.body is not None:
    visit(adoc.body, frozenset())
  return out


def color_of(s):
  from ttconv.utils import parse_color
  return tuple(parse_color(s).components)


def check(ctx, adoc0, cfg, classes=()):
  from ttconv.filters.doc.lcd import LCDDocFilter, LCDDocFilterConfig
  payload = {"doc": build.dumps(adoc0), "cfg": cfg}
  doc = build.build_doc(adoc0)
  pre = absdoc.snap_doc(doc)
  for c in classes:
    ctx.count("class:" + c)
  if pre.body is None:
    ctx.count("class:no-body")
  if any("Position" in r.styles for r in pre.regions):
    ctx.count("class:position-region")
  for k in ("color", "bg_color", "preserve_text_align"):
    if k in cfg:
      ctx.count("cfg:" + k)
  ctx.ev()
  what = f"cfg={cfg}"
  try:
    config = LCDDocFilterConfig.parse(cfg)
    flt = LCDDocFilter(config)
    flt.process(doc)
  except Exception as e:  # pylint: disable=broad-except
    ctx.violation("filter-raises:" + exc_site(e), f"{what}: LCD filter raised {type(e).__name__}: {e}", payload)
    return
  ctx.count("filtered")
  post = absdoc.snap_doc(doc)
  sa = cfg["safe_area"]
  # --- 1. no animation, only allowed styles ---------------------------------------------------------------------
  for root in list(post.regions) + ([post.body] if post.body else []):
    for el in root.walk():
      if el.anims:
        ctx.violation("animation-left", f"{what}: {el.kind}#{el.id} still has {len(el.anims)} of its animation steps", payload)
        break
      extra = sorted(set(el.styles) - ALLOWED)
      if extra:
        ctx.violation("style-left:" + extra[0], f"{what}: {el.kind}#{el.id} still carries {extra}", payload)
        break
      # "as configured": with a configured colour the only value left anywhere is the configured one
      bad = [(k, prop) for k, prop in (("color", "Color"), ("bg_color", "BackgroundColor"))
             if k in cfg and prop in el.styles and tuple(el.styles[prop][1]) != color_of(cfg[k])]
      if bad:
        ctx.count("clause:configured-colour-only")
        ctx.violation("style-left:" + bad[0][1] + ":not-the-configured", f"{what}: {el.kind}#{el.id} still carries {bad[0][1]} "
                      f"{el.styles[bad[0][1]][1]} although {bad[0][0]} is configured", payload)
        break
  extra_init = sorted(set(post.initials) - ALLOWED)
  if extra_init:
    ctx.violation("initial-left:" + extra_init[0], f"{what}: initial values {extra_init} left", payload)
  # --- 2. safe-area geometry -------------------------------------------------------------------------------------
  for r in post.regions:
    o, e = r.styles.get("Origin"), r.styles.get("Extent")
    ok = o is not None and e is not None
    if ok:
      od, ed = dict(o[2]), dict(e[2])
      vals = [(od["x"], sa, ("pct", "rw")), (od["y"], sa, ("pct", "rh")), (ed["width"], 100 - 2 * sa, ("pct", "rw")), (ed["height"], 100 - 2 * sa, ("pct", "rh"))]
      ok = all(isdcheck.num_eq(v[1], exp) and v[2] in units for v, exp, units in vals)
    if not ok:
      ctx.violation("safe-area-geometry", f"{what}: region {r.id} origin {isdcheck.show(o)} extent {isdcheck.show(e)}, expected the safe area {sa}%", payload)
      break
  # --- 3. references and merging ----------------------------------------------------------------------------------
  if post.body is not None:
    for el in post.body.walk():
      if el.region_id is not None and not el.region_ok:
        ctx.violation("dangling-region-ref", f"{what}: {el.kind}#{el.id} references region {el.region_id} which is not registered", payload)
        break
  pre_regs = {r.id: r for r in pre.regions}
  post_regs = {r.id: r for r in post.regions}
  key_post = {}
  for r in post.regions:
    src = pre_regs.get(r.id)
    if src is None:
      ctx.violation("region-invented", f"{what}: region {r.id} did not exist before", payload)
      continue
    da = r.styles.get("DisplayAlign")
    # styles that the configuration preserves and that content inherits from its region are part of the "resulting alignment":
    # regions that differ in them need not (and, for the alignment to be preserved, must not) be merged
    kept = [p_ for p_, on in (("TextAlign", cfg.get("preserve_text_align")), ("Color", "color" not in cfg), ("BackgroundColor", "bg_color" not in cfg)) if on]
    k = (src.begin or 0, src.end, da[2] if da else None, repr([r.styles.get(p_) for p_ in kept]))
    if k in key_post:
      ctx.violation("regions-not-merged", f"{what}: regions {key_post[k]} and {r.id} have equal timing and alignment {k[2]}", payload)
    key_post[k] = r.id
  removed = [r for r in pre.regions if r.id not in post_regs]
  if removed:
    ctx.count("regions:merged", len(removed))
  retained_timing = {(k[0], k[1]) for k in key_post}
  for r in removed:
    if ((r.begin or 0), r.end) not in retained_timing:
      ctx.violation("merged-into-different-region", f"{what}: region {r.id} (begin {r.begin}, end {r.end}) was "
                    f"removed but no retained region has the same timing: {sorted(map(str, retained_timing))}", payload)
  # references: an element that referenced R must now reference a region with R's timing / writing mode
  if pre.body is not None and post.body is not None:
    for a, b in zip(pre.body.walk(), post.body.walk()):
      if a.kind != b.kind or a.id != b.id:
        ctx.violation("content-restructured", f"{what}: content tree changed at {a.kind}#{a.id} -> {b.kind}#{b.id}", payload)
        break
      if (a.region_id is None) != (b.region_id is None):
        ctx.violation("region-ref-changed", f"{what}: {a.kind}#{a.id} region {a.region_id} -> {b.region_id}", payload)
        break
      if a.region_id is not None and a.region_ok and b.region_id in post_regs and b.region_id in pre_regs:
        ra, rb = pre_regs[a.region_id], pre_regs[b.region_id]
        if ((ra.begin or 0), ra.end) != ((rb.begin or 0), rb.end):
          ctx.violation("redirected-to-different-region", f"{what}: {a.kind}#{a.id} referenced {a.region_id} (timing {ra.begin},{ra.end}, "
                        f"{region_wm(ra, pre)}) and now references {b.region_id} (timing {rb.begin},{rb.end}, {region_wm(rb, pre)})", payload)
          break
  # --- 4. text timeline and configured styles in snapshots ----------------------------------------------------------
  bounds = refisd.boundaries(pre)
  times = sorted(set(bounds) | {b + Fraction(1, 7) for b in bounds} | {Fraction(0)})[:50]
  visible = False
  hiding = hides(pre)
  if not hiding:
    for t in times:
      ctx.count("timeline:compared")
      ta, tb = tokens_at(pre, t), tokens_at(post, t)
      if ta:
        visible = True
      if ta != tb:
        fid = None
        if not (ta - tb) and all(tok in conflict_tokens(pre) for tok in tb - ta):
          fid = "D-LCD-NESTED-REGION-CONFLICT"
        ctx.violation("timeline:" + ("text-lost" if ta - tb else "text-added"), f"{what}: t={t}: visible tokens before {sorted(ta)[:12]}, after {sorted(tb)[:12]}",
                      dict(payload, t=str(t)), finding=fid)
        break
  else:
    ctx.count("timeline:skipped-hiding-styles")
  # snapshot uids are traversal counters (regions first): removing a region shifts them, so map post -> pre through the content tree
  pre_uid = {}
  if pre.body is not None and post.body is not None:
    pre_uid = {b.uid: a.uid for a, b in zip(pre.body.walk(), post.body.walk())}
  exp_color = color_of(cfg["color"]) if "color" in cfg else None
  exp_bg = color_of(cfg["bg_color"]) if "bg_color" in cfg else None
  done = False
  for t in times[:25]:
    ri = refisd.compute_isd(post, t)
    rpre = refisd.compute_isd(pre, t) if cfg.get("preserve_text_align") else None
    pre_align = {}
    pre_shown = set()      # (paragraph uid, region id) pairs presented before the filter, whatever the source of the alignment
    if rpre is not None:
      for r in rpre.regions:
        for n in r.walk():
          if n.kind == "P":
            pre_shown.add((n.src_uid, r.id))
            # judged only when the alignment stems from a specified value (on content or on the region): an animated value is
            # removed with the animation
            o = n
            while o.sources.get("TextAlign") == "inherit" and getattr(o, "_parent", None) is not None:
              o = o._parent  # pylint: disable=protected-access
            if o.sources.get("TextAlign") == "spec":
              # one source paragraph may be shown in several regions (with different inherited alignments)
              pre_align.setdefault(n.src_uid, []).append((r.id, n.styles["TextAlign"]))
    for r in ri.regions:
      for n in r.walk():
        if n.kind == "Span" and exp_color is not None and any(c.kind == "Text" for c in n.children):
          ctx.count("snap:color")
          if tuple(n.styles["Color"][0][1]) != exp_color:
            ctx.violation("snapshot-color", f"{what}: t={t}: span computes color {n.styles['Color'][0][1]}, configured {exp_color}", payload)
            done = True
        if n.kind == "P":
          if exp_bg is not None:
            ctx.count("snap:bg")
            if tuple(n.styles["BackgroundColor"][0][1]) != exp_bg:
              ctx.violation("snapshot-bg-color", f"{what}: t={t}: p computes background {n.styles['BackgroundColor'][0][1]}, configured {exp_bg}", payload)
              done = True
          ta_ = n.styles["TextAlign"][0][2]
          if not cfg.get("preserve_text_align"):
            ctx.count("snap:align")
            if ta_ != "center":
              ctx.violation("snapshot-align-not-centered", f"{what}: t={t}: p computes textAlign {ta_}", payload)
              done = True
          elif pre_uid.get(n.src_uid) in pre_align:
            # the paragraph as it was shown in this region, or in a region that has been merged away
            # (the latter only in documents without hiding styles, where a paragraph newly shown in a region can only come from a merge)
            cands = [v for rid, v in pre_align[pre_uid[n.src_uid]] if rid == r.id]
            if not cands and not hiding and (pre_uid[n.src_uid], r.id) not in pre_shown:
              cands = [v for rid, v in pre_align[pre_uid[n.src_uid]] if rid not in post_regs]
            if cands and all(v[1] for v in cands):
              ctx.count("snap:align-preserved")
              if ta_ not in {v[0][2] for v in cands}:
                ctx.violation("snapshot-align-not-preserved", f"{what}: t={t}: p textAlign {sorted({v[0][2] for v in cands})} -> {ta_} (region {r.id})", payload)
                done = True
        if done:
          break
      if done:
        break
    if done:
      break
  # --- 5. idempotence ----------------------------------------------------------------------------------------------
  fp1 = absdoc.fingerprint(doc)
  try:
    LCDDocFilter(LCDDocFilterConfig.parse(cfg)).process(doc)
    ctx.count("idempotence:compared")
    fp2 = absdoc.fingerprint(doc)
    if fp1 != fp2:
      part = "regions" if fp1[2] != fp2[2] else "content" if fp1[3] != fp2[3] else "initial values / parameters"
      ctx.violation("not-idempotent:" + part, f"{what}: applying the filter twice differs from applying it once ({part})", payload)
  except Exception as e:  # pylint: disable=broad-except
    ctx.violation("second-application-raises:" + exc_site(e), f"{what}: second application raised {type(e).__name__}: {e}", payload)
  if pre.regions and visible:
    ctx.nontriv(("lcd", payload["doc"], repr(sorted(cfg.items()))))
    if len(ctx.samples) < 3:
      ctx.sample({"cfg": cfg, "regions_before": [r.id for r in pre.regions], "regions_after": [r.id for r in post.regions]})


def run(ctx, params):
  for i in range(params["n"]):
    rng = ctx.rng("doc", params["shard"], i)
    over = {}
    if i % 7 == 3:
      over = {"p_display": 0.0}
    adoc0, classes = model_docs.generate(rng, params["profile"], None, **over)
    if i % 7 == 3 or i % 5 == 0:
      # make the text-timeline clause applicable: no hiding styles
      strip_hiders(adoc0)
    if i % 11 == 5:
      adoc0.body = None
    elif i % 11 == 8 and adoc0.body is not None:
      # a body without children (a falsy model element) that still carries styles and animation steps
      adoc0.body.children = []
      for prop in rng.sample(["FontStyle", "TextDecoration", "FontWeight", "Color", "TextAlign", "LineHeight"], 3):
        adoc0.body.styles[prop] = model_docs.style_value(rng, prop)
      adoc0.body.anims = [(prop, Fraction(rng.choice([0, 1])), Fraction(rng.choice([2, 3])), model_docs.style_value(rng, prop))
                          for prop in rng.sample(["Color", "Opacity", "Visibility", "FontStyle"], 2)]
      ctx.count("class:childless-body")
    cfg = gen_cfg(rng)
    if i % 6 == 1 and len(adoc0.regions) >= 2:
      # regions that are candidates for merging (same timing) but carry inheritable styles of their own, which the configuration keeps
      ctx.count("class:region-level-styles")
      strip_hiders(adoc0)
      for r in adoc0.regions:
        r.begin = r.end = None
        r.anims = [a for a in r.anims if a[0] not in ("TextAlign", "Color")]
        ta = rng.choice(["start", "start", "center", "end", None])
        if ta is None:
          r.styles.pop("TextAlign", None)      # unspecified: the document's initial value applies, not the spec default
        else:
          r.styles["TextAlign"] = ("E", "TextAlignType", ta)
        if rng.random() < 0.5:
          r.styles["Color"] = ("C", rng.choice([(255, 0, 0, 255), (0, 255, 0, 255), (255, 255, 255, 255)]))
      if rng.random() < 0.5:
        adoc0.initials["TextAlign"] = ("E", "TextAlignType", rng.choice(["end", "center"]))
      if rng.random() < 0.5:
        # twin regions: identical but for one preserved style, which one of them leaves unspecified and the other sets to the
        # value the specification (not necessarily this document) uses as initial value
        a_, b_ = adoc0.regions[0], adoc0.regions[-1]
        b_.styles = dict(a_.styles)
        b_.anims = list(a_.anims)
        prop, dflt = "TextAlign", ("E", "TextAlignType", "start")
        first, second = (a_, b_) if rng.random() < 0.7 else (b_, a_)
        first.styles.pop(prop, None)
        second.styles[prop] = dflt
        adoc0.initials["TextAlign"] = ("E", "TextAlignType", rng.choice(["end", "center"]))
        if adoc0.body is not None:
          ps = [el for el in adoc0.body.walk() if el.kind == "P"]
          if ps:
            q = rng.choice(ps)
            q.region_id, q.region_ok = second.id, True
            q.styles.pop("TextAlign", None)
            q.anims = [x for x in q.anims if x[0] != "TextAlign"]
        ctx.count("class:twin-regions")
      if adoc0.body is not None and rng.random() < 0.6:
        # every paragraph names its region, so that it is presented in that region only and follows it through a merge
        rids = [r.id for r in adoc0.regions]
        for el in adoc0.body.walk():
          if el.kind == "P" and el.region_id is None:
            el.region_id, el.region_ok = rng.choice(rids), True
      cfg["preserve_text_align"] = True
      cfg.pop("color", None)
    check(ctx, adoc0, cfg, classes)


def strip_hiders(adoc):
  for h in HIDERS:
    adoc.initials.pop(h, None)
  for root in list(adoc.regions) + ([adoc.body] if adoc.body else []):
    for el in root.walk():
      for h in HIDERS:
        el.styles.pop(h, None)
      el.anims = [a for a in el.anims if a[0] not in HIDERS]


def replay(ctx, payload):
  check(ctx, build.loads(payload["doc"]), payload["cfg"])
