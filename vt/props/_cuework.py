"""Shared workload for C06 (cue text/intervals) and C07 (grammar, tags vs computed styles, cue settings):
documents x writer configurations; SRT / VTT strings parsed by the strict parsers of vt/ref/cues.py and compared with
the cues expected from the reference ISD at each observed significant time."""
from __future__ import annotations

import itertools
from fractions import Fraction

from vt.props._isdwork import exc_site
from vt.ref import absdoc, build, cues as Q, isd as refisd

WHITE = (255, 255, 255, 255)

SRT_CFGS = [{"text_formatting": True}, {"text_formatting": False}]
VTT_CFGS = [{"line_position": lp, "text_align": ta, "cue_id": ci} for lp, ta, ci in itertools.product([False, True], repeat=3)]


def ms_of(t: Fraction):
  """Acceptable millisecond values of instant t. At an exact .5 ms tie either neighbour is acceptable, but one instant must
  round the same way wherever it is used (end of one cue, begin of the next): the tie is resolved by asking the library's own
  rounding function (whose result C12 checks to be a nearest millisecond) and keeping it when it is one of the candidates."""
  c = Q.ms_round(t)
  if len(c) == 2:
    try:
      from ttconv.time_code import ClockTime
      ct = ClockTime.from_seconds(t)
      v = ((ct.get_hours() * 60 + ct.get_minutes()) * 60 + ct.get_seconds()) * 1000 + ct.get_milliseconds()
      if v in c:
        return (v,)
    except Exception:  # pylint: disable=broad-except
      pass
  return c


class Expected:
  """Expected cues of one document for one writer configuration."""

  def __init__(self, adoc, offsets, per_region: bool):
    self.cues = []   # dicts: begin (tuple of ms), end (tuple of ms), chars [ExpChar], region RefNode|None, paras [(RefNode, chars)]
    for k, s in enumerate(offsets):
      nxt = offsets[k + 1] if k + 1 < len(offsets) else None
      ref = refisd.compute_isd(adoc, Fraction(s))
      groups = []
      for region in ref.regions:
        paras = Q.flatten_region(region)
        if not paras:
          continue
        if per_region:
          groups.append((region, paras))
        else:
          if not groups:
            groups.append((None, []))
          groups[0][1].extend(paras)
      for region, paras in groups:
        chars = []
        for i, (_p, cs) in enumerate(paras):
          if i:
            chars.append(Q.ExpChar("\n", Q.CharAttr()))
          chars.extend(cs)
        if not Q.lines_of(chars, True) and not Q.lines_of(chars, False):
          continue
        b = ms_of(Fraction(s))
        if nxt is None:
          e = tuple(x + 10000 for x in b)
        else:
          e = ms_of(Fraction(nxt))
        self.cues.append({"begin": b, "end": e, "chars": chars, "region": region, "paras": paras, "unbounded": nxt is None,
                          "may_vanish": min(e) <= max(b), "must_vanish": max(e) <= min(b),
                          "mandatory_blank": not Q.lines_of(chars, False)})


def source_has_arrow(adoc) -> bool:
  """D-SRT-ARROW applies when the text the document itself presents contains '-->': inside one text node, or across adjacent
  text nodes of one paragraph (nothing but tags can separate them in the payload)."""
  if adoc.body is None:
    return False
  for p_ in adoc.body.walk():
    if p_.kind == "P" and "-->" in "".join(n.text or "" for n in p_.walk() if n.kind == "Text"):
      return True
  return False


def match_cues(exp: Expected, obs_cues, diffs, what, plain_text=None):
  """Aligns expected and observed cues; appends (mech, msg) to diffs; returns list of (expected, observed) pairs."""
  pairs = []
  i = 0
  for ec in exp.cues:
    oc = obs_cues[i] if i < len(obs_cues) else None
    time_ok = oc is not None and oc.begin_ms in ec["begin"] and (oc.end_ms in ec["end"] or (ec["unbounded"] and oc.end_ms - oc.begin_ms == 10000))
    if ec["must_vanish"] or ((ec["may_vanish"] or ec["mandatory_blank"]) and not time_ok):
      continue
    if (ec["mandatory_blank"] or ec["may_vanish"]) and plain_text is not None:
      # optional cues (only ruby annotation text, or an interval that may round to zero length at a .5 ms tie) count only
      # if the output cue at that position holds exactly their text
      t = plain_text(oc)
      obs_lines = None if t is None else [Q.toks(ln) for ln in t.split("\n") if Q.toks(ln)]
      if obs_lines is None or obs_lines not in (Q.lines_of(ec["chars"], True), Q.lines_of(ec["chars"], False)):
        continue
    if oc is None:
      diffs.append(("cue-missing", f"{what}: expected a cue at {ec['begin']} ms with text {Q.lines_of(ec['chars'], False)} but the output has only {len(obs_cues)} cues"))
      return pairs
    if oc.begin_ms not in ec["begin"]:
      # is the expected cue missing, or an extra one present?
      later = [j for j in range(i, len(obs_cues)) if obs_cues[j].begin_ms in ec["begin"]]
      if later:
        diffs.append(("cue-unexpected", f"{what}: unexpected cue at {obs_cues[i].begin_ms} ms with payload {obs_cues[i].payload!r}"))
      else:
        diffs.append(("cue-missing-or-begin", f"{what}: expected a cue beginning at {ec['begin']} ms ({Q.lines_of(ec['chars'], False)}); next output cue begins at {oc.begin_ms} ms"))
      return pairs
    if not (oc.end_ms in ec["end"] or (ec["unbounded"] and oc.end_ms - oc.begin_ms == 10000)):
      diffs.append(("cue-end", f"{what}: cue at {oc.begin_ms} ms ends at {oc.end_ms} ms, expected {ec['end']}" + (" (unbounded: begin + 10 s)" if ec["unbounded"] else "")))
    pairs.append((ec, oc))
    i += 1
  if i < len(obs_cues):
    diffs.append(("cue-unexpected", f"{what}: {len(obs_cues) - i} cue(s) beyond the expected ones, first at {obs_cues[i].begin_ms} ms: {obs_cues[i].payload!r}"))
  return pairs


def text_diff(ec, obs_text, what):
  """Compares token lines. Returns (mech, msg) or None, and whether optional (ruby annotation) chars were written."""
  obs_lines = [Q.toks(ln) for ln in obs_text.split("\n") if Q.toks(ln)]
  for with_opt in (False, True):
    if Q.lines_of(ec["chars"], with_opt) == obs_lines:
      return None, with_opt
  exp_lines = Q.lines_of(ec["chars"], False)
  et = [t for ln in exp_lines for t in ln]
  ot = [t for ln in obs_lines for t in ln]
  all_t = [t for ln in Q.lines_of(ec["chars"], True) for t in ln]
  missing = [t for t in et if t not in ot]
  extra = [t for t in ot if t not in all_t]
  if missing:
    mech = "text-lost"
  elif extra:
    mech = "text-invented"
  elif sorted(ot) != sorted(t for t in ot if True) or len(ot) != len(set(ot)):
    mech = "text-repeated"
  elif [t for t in ot if t in et] != et:
    mech = "text-reordered"
  else:
    mech = "line-breaks"
  return (mech, f"{what}: cue at {ec['begin']} ms: expected lines {exp_lines}, payload has {obs_lines}"), False


def char_attr_diffs(ec, text, attrs, with_opt, fmt, what, has_bg):
  """Per-character style runs (C07)."""
  exp = [c for c in ec["chars"] if (with_opt or not c.optional) and not c.ch.isspace()]
  obs = [(ch, a) for ch, a in zip(text, attrs) if not ch.isspace()]
  if [c.ch for c in exp] != [ch for ch, _ in obs]:
    return []   # text differs: C06's clause
  out = []
  for c, (ch, a) in zip(exp, obs):
    e = c.attr
    if not fmt:
      if a != Q.CharAttr():
        out.append(("formatting-disabled-but-styled", f"{what}: char {ch!r} carries {a}"))
        break
      continue
    for idx, name in enumerate(("bold", "italic", "underline")):
      ev, av = getattr(e, name), getattr(a, name)
      if name == "italic" and c.oblique:
        continue
      if ev != av:
        # known finding: the attribute is switched on by an inline ancestor and reset to the default by the char's own span
        nested_reset = (not ev) and av and c.anc_on[idx]
        out.append((name + (":nested-reset" if nested_reset else ""),
                    f"{what}: char {ch!r} of cue at {ec['begin']} ms: computed {name}={ev}, tags give {name}={av}"
                    + (" (switched on by an ancestor span, reset by the char's own span)" if nested_reset else "")))
    for what_ in a.redundant:
      if what_ == "color" and "chain-default" not in e.redundant:
        continue      # the text resets a non-default inherited colour (possibly of an ancestor that has no tag of its own)
      out.append((what_ + "-markup-for-default", f"{what}: char {ch!r} of cue at {ec['begin']} ms is enclosed in {what_} markup that only restates the "
                                                    f"default ({'opaque white' if what_ == 'color' else 'transparent'})"))
    if (a.color or WHITE) != e.color:
      out.append(("color", f"{what}: char {ch!r} of cue at {ec['begin']} ms: computed color {e.color}, tags give {a.color or 'none (white)'}"))
    if has_bg and e.bg != "not-judged":
      ob = a.bg if (a.bg is not None and a.bg[3] != 0) else None
      if ob != e.bg:
        out.append(("background", f"{what}: char {ch!r} of cue at {ec['begin']} ms: computed background {e.bg}, classes give {ob}"))
    if out:
      break
  return out


def vtt_setting_diffs(ec, oc, cfg, what):
  out = []
  if not cfg["line_position"] and "line" in oc.settings:
    out.append(("line-setting-unrequested", f"{what}: line setting {oc.settings['line']!r} although line_position is off"))
  if not cfg["text_align"] and "align" in oc.settings:
    out.append(("align-setting-unrequested", f"{what}: align setting {oc.settings['align']!r} although text_align is off"))
  extra = set(oc.settings) - {"line", "align"}
  if extra:
    out.append(("unknown-setting", f"{what}: settings {sorted(extra)}"))
  if cfg["line_position"] and ec["region"] is not None:
    reg = ec["region"]
    da, dac = reg.styles["DisplayAlign"]
    org, orc = reg.styles["Origin"]
    ext, exc = reg.styles["Extent"]
    wm, wmc = reg.styles["WritingMode"]
    if dac and orc and exc and wmc and wm[2] in ("lrtb", "rltb"):
      y = Fraction(absdoc.dfield(org, "y")[1])
      h = Fraction(absdoc.dfield(ext, "height")[1])
      exp_line, kw = {"before": (y, "start"), "center": (y + h / 2, "center"), "after": (y + h, "end")}[da[2]]
      s = oc.settings.get("line")
      if s is None:
        out.append(("line-setting-missing", f"{what}: no line setting although line_position is on"))
      else:
        val, _, align = s.partition(",")
        if not val.endswith("%"):
          out.append(("line-not-percentage", f"{what}: line:{s}"))
        else:
          try:
            v = Fraction(val[:-1])
            if abs(v - exp_line) > Fraction(1, 2) + Fraction(1, 10**6):
              out.append(("line-value", f"{what}: line:{s} but the region's {da[2]} edge is at {float(exp_line):g}%"))
          except ValueError:
            out.append(("line-not-number", f"{what}: line:{s}"))
        if align and align != kw:
          out.append(("line-align", f"{what}: line:{s} but displayAlign is {da[2]}"))
        if not align and kw != "start":
          out.append(("line-align", f"{what}: line:{s} without alignment but displayAlign is {da[2]}"))
  if cfg["text_align"] and len(ec["paras"]) == 1:
    p = ec["paras"][0][0]
    ta, tac = p.styles["TextAlign"]
    di, dic = p.styles["Direction"]
    if tac and dic:
      exp = {"center": "center", "start": "right" if di[2] == "rtl" else "left", "end": "left" if di[2] == "rtl" else "right"}[ta[2]]
      got = oc.settings.get("align")
      if got is None:
        out.append(("align-setting-missing", f"{what}: no align setting although text_align is on"))
      elif got != exp:
        out.append(("align-value", f"{what}: align:{got} but textAlign={ta[2]} direction={di[2]}"))
  return out


def check_doc(ctx, doc, payload, props, classes=(), note_nontrivial=True):
  """doc: live ContentDocument. payload: replay payload base dict."""
  from ttconv.isd import ISD
  import ttconv.srt.writer as srt_writer
  import ttconv.vtt.writer as vtt_writer
  from ttconv.srt.config import SRTWriterConfiguration
  from ttconv.vtt.config import VTTWriterConfiguration
  adoc = absdoc.snap_doc(doc)
  for c in classes:
    ctx.count("class:" + c)
  try:
    offsets = list(ISD.significant_times(doc))
  except Exception as e:  # pylint: disable=broad-except
    ctx.count("sig-raised")
    if "C07" in props:
      ctx.violation("significant_times-raises:" + exc_site(e), f"{type(e).__name__}: {e}", payload)
    return
  exp_merged = Expected(adoc, offsets, per_region=False)
  exp_regions = None
  if any(len(refisd.compute_isd(adoc, Fraction(s)).regions) > 1 for s in offsets[:40]):
    ctx.count("class:multi-region-active")
  nontrivial = bool(exp_merged.cues)
  runs = [("srt", c) for c in SRT_CFGS] + [("vtt", c) for c in VTT_CFGS]
  for fmt, cfg in runs:
    ctx.ev()
    what = f"{fmt}{ {k: v for k, v in cfg.items() if v is not (fmt == 'srt')} }"
    rp = dict(payload, fmt=fmt, cfg=cfg)
    try:
      if fmt == "srt":
        text = srt_writer.from_model(doc, SRTWriterConfiguration.parse(cfg))
      else:
        text = vtt_writer.from_model(doc, VTTWriterConfiguration.parse(cfg))
    except Exception as e:  # pylint: disable=broad-except
      ctx.count("writer-raised")
      ctx.violation(f"{fmt}-writer-raises:" + exc_site(e), f"{what}: {type(e).__name__}: {e}", rp,
                    finding=None)
      continue
    ctx.count("outputs:" + fmt)
    try:
      if fmt == "srt":
        obs_cues = Q.parse_srt(text)
        css = {}
      else:
        vf = Q.parse_vtt(text)
        obs_cues, css = vf.cues, vf.css
    except Q.GrammarError as e:
      ctx.count("grammar-rejected")
      if "C07" in props:
        fid = None
        if fmt == "srt" and e.mech == "arrow-in-payload" and source_has_arrow(adoc):
          fid = "D-SRT-ARROW"
        ctx.violation(f"grammar:{fmt}:{e.mech}", f"{what}: {e}", rp, finding=fid)
      continue
    per_region = fmt == "vtt" and cfg["line_position"]
    if per_region:
      if exp_regions is None:
        exp_regions = Expected(adoc, offsets, per_region=True)
      exp = exp_regions
    else:
      exp = exp_merged
    if "C07" in props:
      for mech, msg in Q.check_cue_order(obs_cues, allow_simultaneous=per_region)[:2]:
        ctx.violation(f"{fmt}:{mech}", f"{what}: {msg}", rp)
      if fmt == "srt" or True:
        for mech, msg in Q.check_ids(obs_cues, fmt == "srt" or cfg["cue_id"])[:2]:
          ctx.violation(f"{fmt}:{mech}", f"{what}: {msg}", rp)
      if fmt == "vtt" and css and not vf.has_style:
        ctx.violation("vtt:css-without-style-block", what, rp)
    diffs = []

    def plain_text(oc, fmt=fmt, cfg=cfg, css=css):
      try:
        return (Q.srt_runs(oc.payload, True) if fmt == "srt" else Q.vtt_runs(oc.payload, css))[0]
      except Q.GrammarError:
        return None
    pairs = match_cues(exp, obs_cues, diffs, what, plain_text)
    ctx.count("cues:compared", len(pairs))
    if "C06" in props:
      for mech, msg in diffs[:2]:
        ctx.violation(f"{fmt}:{mech}", msg, rp)
    for ec, oc in pairs:
      try:
        if fmt == "srt":
          t, attrs = Q.srt_runs(oc.payload, cfg["text_formatting"])
        else:
          t, attrs = Q.vtt_runs(oc.payload, css)
      except Q.GrammarError as e:
        if "C07" in props:
          ctx.violation(f"grammar:{fmt}:{e.mech}", f"{what}: cue at {oc.begin_ms} ms: {e}", rp)
        continue
      d, with_opt = text_diff(ec, t, what)
      if d is not None:
        if "C06" in props:
          ctx.violation(f"{fmt}:{d[0]}", d[1], rp)
        continue
      if "C07" in props:
        ctx.count("chars:compared", len(attrs))
        for mech, msg in char_attr_diffs(ec, t, attrs, with_opt, fmt == "vtt" or cfg["text_formatting"], what, fmt == "vtt")[:2]:
          ctx.violation(f"{fmt}:style-{mech}", msg, rp, finding="D-NESTED-STYLE-RESET" if mech.endswith(":nested-reset") else None)
        if fmt == "vtt":
          for mech, msg in vtt_setting_diffs(ec, oc, cfg, what)[:2]:
            ctx.violation(f"vtt:{mech}", msg, rp)
  if nontrivial and note_nontrivial:
    ctx.nontriv(("d", payload.get("doc") or payload.get("file")))
    if len(ctx.samples) < 3:
      ctx.sample({"significant_times": [str(Fraction(s)) for s in offsets[:10]], "expected_cues": len(exp_merged.cues),
                  "first_cue": (Q.lines_of(exp_merged.cues[0]["chars"], False) if exp_merged.cues else None), "classes": sorted(classes)})
