"""C07 - SRT/WebVTT outputs are grammatical and tags reflect the computed styles."""
import glob
import io
import os

from vt import core
from vt.gen import model_docs
from vt.props import _cuework
from vt.ref import build

ID = "C07"
RULE = ("documents as in C06 with per-span style combinations (bold/italic/underline/color/background nested, overlapping, re-set to "
        "default inside a styled parent) and text containing & < > and '-->' x SRT text_formatting on/off x VTT 8 configurations; plus "
        "documents returned by the five readers on the bundled corpus. Outputs go through strict grammar parsers; per-character style runs "
        "recovered from the tags are compared with the per-character computed styles of the reference ISD. Non-trivial: document with >= 1 "
        "expected cue; distinct = distinct documents / files")
ASSUMPTIONS = [
  "strict parsers in vt/ref/cues.py written from the WebVTT file/cue-text grammar and the de-facto SubRip grammar",
  "fontStyle oblique is not judged; background judged for inline (span-level) backgrounds only, VTT only",
  "cue alignment judged only when the cue stems from a single paragraph; line judged for horizontal writing modes only, |delta| <= 0.5",
  "simultaneous cues with identical intervals under line_position=True count as non-overlapping",
  "per-character comparison only where the cue text itself is as expected (text faults are C06's clause)",
]
REQUIRED = ["outputs:srt", "outputs:vtt", "cues:compared", "chars:compared", "class:markup-chars", "class:styled-spans", "class:all-tags-on-one-span", "class:carry-offset", "reader-docs"]
SHARD_TIMEOUT = {"quick": 900, "thorough": 7200}
N = {"quick": 24, "thorough": 1000}
SRC = os.path.join(core.REPO, "src/test/resources")


def corpus(tier):
  files = []
  for pat, lim in (("ttml/imsc-tests/imsc1/ttml/**/*.ttml", 12), ("ttml/imsc-tests/imsc1_1/ttml/**/*.ttml", 12), ("scc/*.scc", 6),
                   ("stl/**/*.stl", 10), ("srt/*.srt", 8), ("vtt/*.vtt", 8)):
    fs = sorted(glob.glob(os.path.join(SRC, pat), recursive=True))
    if tier == "quick":
      step = max(1, len(fs) // lim)
      fs = fs[::step][:lim]
    files.extend(fs)
  return files


def plan(tier, seed):
  shards = [{"kind": "gen", "n": N[tier], "shard": i} for i in range(14)]
  files = corpus(tier)
  shards.append({"kind": "files", "files": files[0::2]})
  shards.append({"kind": "files", "files": files[1::2]})
  return shards


def style_spans(rng, adoc, classes):
  """Puts visible style combinations on spans (and some on p/div/region for inheritance)."""
  E = lambda c, n: ("E", c, n)  # noqa: E731
  pool = [
    ("FontWeight", E("FontWeightType", "bold")), ("FontWeight", E("FontWeightType", "normal")),
    ("FontStyle", E("FontStyleType", "italic")), ("FontStyle", E("FontStyleType", "normal")), ("FontStyle", E("FontStyleType", "oblique")),
    ("TextDecoration", ("D", "TextDecorationType", (("underline", True), ("line_through", None), ("overline", None)))),
    ("TextDecoration", ("D", "TextDecorationType", (("underline", False), ("line_through", None), ("overline", None)))),
    ("TextDecoration", ("D", "TextDecorationType", (("underline", None), ("line_through", True), ("overline", None)))),
    ("Color", ("C", (255, 0, 0, 255))), ("Color", ("C", (255, 255, 255, 255))), ("Color", ("C", (0, 255, 0, 255))), ("Color", ("C", (18, 52, 86, 255))),
    ("Color", ("C", (255, 255, 255, 128))),
    ("BackgroundColor", ("C", (0, 0, 0, 255))), ("BackgroundColor", ("C", (0, 0, 255, 255))), ("BackgroundColor", ("C", (0, 0, 0, 0))),
    ("BackgroundColor", ("C", (1, 2, 3, 200))),
  ]
  if adoc.body is None:
    return
  for el in adoc.body.walk():
    if el.kind in ("Span", "P", "Div", "Rb") and rng.random() < (0.55 if el.kind == "Span" else 0.2):
      for _ in range(rng.choice([1, 1, 2, 3])):
        k, v = rng.choice(pool)
        el.styles[k] = v
      classes.add("styled-spans")
    if el.kind == "Span" and rng.random() < 0.08:
      # every tag at once on one span (nesting order of the closing tags), on an otherwise plain span
      el.styles["FontWeight"] = E("FontWeightType", "bold")
      el.styles["FontStyle"] = E("FontStyleType", "italic")
      el.styles["TextDecoration"] = ("D", "TextDecorationType", (("underline", True), ("line_through", None), ("overline", None)))
      el.styles["Color"] = ("C", (255, 0, 0, 255))
      el.styles.pop("Display", None)
      classes.add("all-tags-on-one-span")


def run(ctx, params):
  if params["kind"] == "gen":
    for i in range(params["n"]):
      rng = ctx.rng("doc", params["shard"], i)
      adoc0, classes = model_docs.generate(rng, "text", None, p_markup=0.15, arrow=(i % 3 == 0), p_anim=0.15, p_uspace=0.08 if i % 2 else 0.0)
      style_spans(rng, adoc0, classes)
      if i % 7 == 4 and adoc0.regions:
        # a centre-aligned region away from the top: the line position of its cues is the middle of the region
        r0 = adoc0.regions[0]
        L, dmake = model_docs.L, model_docs.dmake
        r0.styles["DisplayAlign"] = ("E", "DisplayAlignType", "center")
        r0.styles["Origin"] = dmake("CoordinateType", x=L(10, "%"), y=L(rng.choice([20, 40, 55]), "%"))
        r0.styles["Extent"] = dmake("ExtentType", height=L(rng.choice([20, 30]), "%"), width=L(80, "%"))
        r0.styles.pop("Position", None)
        r0.anims = [x for x in r0.anims if x[0] not in ("DisplayAlign", "Origin", "Extent", "Position")]
        classes = set(classes) | {"centre-aligned-region"}
      if i % 5 == 2 and adoc0.body is not None:
        # times whose rounding to the millisecond carries into the seconds, minutes and hours fields (begin < end and the
        # order of cues are read from the printed time codes)
        from vt.props import c06
        c06.apply_carry(rng, adoc0)
        classes = set(classes) | {"carry-offset"}
      s = build.dumps(adoc0)
      _cuework.check_doc(ctx, build.build_doc(adoc0), {"doc": s}, {"C07"}, classes)
    return
  for path in params["files"]:
    doc = read_file(path)
    if doc is None:
      ctx.count("reader-none")
      continue
    ctx.count("reader-docs")
    _cuework.check_doc(ctx, doc, {"file": os.path.relpath(path, core.REPO)}, {"C07"}, ())


def read_file(path):
  import xml.etree.ElementTree as et
  import ttconv.imsc.reader as imsc_reader
  import ttconv.scc.reader as scc_reader
  import ttconv.stl.reader as stl_reader
  import ttconv.srt.reader as srt_reader
  import ttconv.vtt.reader as vtt_reader
  ext = os.path.splitext(path)[1].lower()
  try:
    if ext == ".ttml":
      return imsc_reader.to_model(et.parse(path))
    if ext == ".scc":
      with open(path, encoding="utf-8") as f:
        return scc_reader.to_model(f.read())
    if ext == ".stl":
      with open(path, "rb") as f:
        return stl_reader.to_model(f)
    if ext == ".srt":
      with open(path, encoding="utf-8") as f:
        return srt_reader.to_model(f)
    if ext == ".vtt":
      with open(path, encoding="utf-8") as f:
        return vtt_reader.to_model(f)
  except Exception:  # pylint: disable=broad-except
    return None     # reader failures are C18's business
  return None


def replay(ctx, payload):
  if "doc" in payload:
    _cuework.check_doc(ctx, build.build_doc(build.loads(payload["doc"])), {"doc": payload["doc"]}, {"C07"})
  else:
    doc = read_file(os.path.join(core.REPO, payload["file"]))
    if doc is not None:
      _cuework.check_doc(ctx, doc, {"file": payload["file"]}, {"C07"})
