"""C10 - the SRT reader reproduces every cue's time, lines and formatting exactly.

Driver: SubRip files from the cue grammar (vt/gen/srt.py) are fed to the real ttconv.srt.reader.to_model through a
text-mode file object with universal newlines (as tt.py opens SRT input).  Oracle: the generator's AST (cross-checked
against the independent strict parser vt/ref/srt_ast.py): one P per cue in order; begin/end equal as rationals to the
printed times and not binary floats; composed with the IMSC writer in `frames` syntax at 24/25/30 fps the frame number
of a time that lies exactly on a frame boundary is that frame; lines in order separated by Br; per-character
bold/italic/underline/colour; round trip through the SRT writer."""
import io
import math
from fractions import Fraction

from vt.gen import srt as G
from vt.ref import srt_ast as A

ID = "C10"
RULE = ("SubRip files drawn from the cue grammar: 0-12 cues; sequential / zero-based / gapped / repeated / zero-padded / huge / "
        "descending counters; 0-3 leading blank lines, 1-4 blank lines between cues, none/one/several line ends at EOF; times over "
        "00:00:00,000-999:59:59,999 with 2- or 3-digit hours and millisecond fields biased to 24/25/30 fps frame boundaries; 1-5 "
        "text lines of file-unique tokens; 0-6 properly nested b/i/u/font-colour tags per cue (depth <= 4, adjacent, inside words, "
        "empty, spanning lines) in angle, brace or mixed syntax, font colours as #rrggbb / 16 HTML names, quoted or not; LF or CRLF. "
        "85 % of files have non-overlapping ascending cues and are also round-tripped through srt.writer (text_formatting on and off) "
        "and written by imsc.writer in frames syntax at 24, 25 and 30 fps. One evaluation = one file. Non-trivial = file with >= 1 cue "
        "that has a tag or >= 2 lines; distinct = distinct file texts")
ASSUMPTIONS = [
  "oracle = the generator's AST, cross-checked on every file against the independent strict parser vt/ref/srt_ast.py written from "
  "the SubRip de-facto format description (Wikipedia 'SubRip', the reference named by ttconv's README); a disagreement aborts the shard",
  "not generated, hence not judged (de-facto grammar ambiguous): unknown tags, the ttconv-specific long names <bold>/{bold}/..., "
  "unbalanced or mis-nested tags, upper-case tag names, {font}, {\\an8}-style position overrides, coordinates after the timing line, "
  "the characters < > { } & and '-->' in text, white-space-only lines, leading/trailing spaces of a text line, missing counters, "
  "one-digit hours, minutes/seconds above 59, end <= begin, CR-only line ends, byte-order mark",
  "font colour: '#rrggbb' and the 16 HTML 4.01 colour names (any letter case), opaque; characters outside any font tag must have the "
  "colour that untagged text has in the same document (whatever default the reader chooses)",
  "frames clause: only times lying exactly on a frame boundary have an 'intended frame' by the statement (N = ms*fps/1000); for other "
  "times either neighbouring frame is accepted (the rounding direction is the IMSC writer's policy, judged by C05/C12)",
  "round trip: 'the cues that were written' are the cues printed in the writer's output as parsed by vt/ref/srt_ast.py; if that "
  "output is outside the strict grammar the case is counted (rt:abstain) and not judged; only files with ascending non-overlapping "
  "cues are round-tripped (overlapping cues are legitimately split/merged by the writer - C06); differences between the printed "
  "cues and the source cues that are the writer's doing (dropped tags, white colour, ...) belong to C06/C07 and are only counted",
  "in the re-read of the writer's output only the value of begin/end is judged (the float type is the same clause as on the first read: "
  "mech time-binary-float); literal {b}-style text coming back from the writer keeps the first read's mech brace-short-tag-literal",
  "a cue without any text line (optional class, 2 % of files) may yield an empty paragraph or none; only raising, returning None or "
  "damaging the other cues is a violation (mech empty-cue-*)",
  "trusted base: ttconv.model getters (get_begin/get_end/get_style/get_text, iteration), xml.etree of the IMSC writer",
]
REQUIRED = ["cls:eol-crlf", "cls:eol-lf", "cls:zero-cues", "cls:counter-odd", "cls:blank-run", "cls:leading-blank",
            "cls:trailing-blank", "cls:no-final-eol", "cls:hours-2-digits", "cls:hours-3-digits", "cls:hours>=100",
            "cls:lines-1", "cls:lines-2", "cls:lines-3", "cls:lines-4", "cls:lines-5",
            "cls:tag-angle", "cls:tag-brace", "cls:nested-tags", "cls:adjacent-tags", "cls:tag-spans-lines",
            "cls:tag-inside-word", "cls:font-hex", "cls:font-named", "cls:font-in-font",
            "cls:tag-kind-b", "cls:tag-kind-i", "cls:tag-kind-u", "cls:tag-kind-font",
            "chk:cue-count", "chk:time", "chk:lines", "chk:attrs", "chk:attrs-tagged-chars", "chk:frames", "chk:frames-boundary",
            "chk:rt-read", "chk:rt-formatting-on", "chk:rt-formatting-off", "harness:ast-crosscheck"]
SHARD_TIMEOUT = {"quick": 600, "thorough": 3600}

FPS = (24, 25, 30)
TTML_NS = "{http://www.w3.org/ns/ttml}"
SHORT_BRACE = ("{b}", "{/b}", "{i}", "{/i}", "{u}", "{/u}")


def plan(tier, seed):
  n = 16
  files = 50 if tier == "quick" else 3125
  return [{"shard": i, "files": files} for i in range(n)]


# ----------------------------------------------------------------------------------------------------------------------
# observation of the model through public getters
# ----------------------------------------------------------------------------------------------------------------------

def _open_text(text: str):
  """Text-mode file object with universal newlines over the UTF-8 bytes of the file, like open(path, 'r', encoding='utf-8')."""
  return io.TextIOWrapper(io.BytesIO(text.encode("utf-8")), encoding="utf-8", newline=None)


def _style_state(el, st):
  """st = (bold, italic, underline, color components or None); returns st updated by el's specified styles."""
  from ttconv.style_properties import StyleProperties as SP, FontWeightType, FontStyleType
  b, i, u, c = st
  v = el.get_style(SP.FontWeight)
  if v is not None:
    b = v is FontWeightType.bold
  v = el.get_style(SP.FontStyle)
  if v is not None:
    i = v is FontStyleType.italic
  v = el.get_style(SP.TextDecoration)
  if v is not None and getattr(v, "underline", None) is not None:
    u = bool(v.underline)
  v = el.get_style(SP.Color)
  if v is not None:
    c = tuple(v.components)
  return (b, i, u, c)


def _paragraphs(doc):
  """-> (list of (P, absolute offset of its parent, style state at P), list of problems)"""
  from ttconv import model
  out, problems = [], []
  body = doc.get_body()
  if body is None:
    return out, problems
  st0 = (False, False, False, None)
  region = body.get_region()
  if region is not None:
    st0 = _style_state(region, st0)

  def rec(el, offset, st):
    for ch in el:
      if isinstance(ch, model.P):
        out.append((ch, offset, _style_state(ch, st)))
      elif isinstance(ch, model.Div):
        b = ch.get_begin()
        rec(ch, offset + (Fraction(b) if b is not None else 0), _style_state(ch, st))
      else:
        problems.append(f"unexpected {type(ch).__name__} outside a paragraph")

  b = body.get_begin()
  rec(body, Fraction(b) if b is not None else Fraction(0), _style_state(body, st0))
  return out, problems


def _flatten(p, st):
  """-> (lines, problems); lines: list of lists of (char, bold, italic, underline, color)"""
  from ttconv import model
  lines, problems = [[]], []

  def rec(el, st):
    for ch in el:
      if isinstance(ch, model.Text):
        for c in ch.get_text():
          lines[-1].append((c,) + st)
      elif isinstance(ch, model.Br):
        lines.append([])
      elif isinstance(ch, model.Span):
        rec(ch, _style_state(ch, st))
      else:
        problems.append(f"unexpected {type(ch).__name__} inside a paragraph")

  rec(p, st)
  return lines, problems


def _txt(line):
  return "".join(x[0] for x in line)


# ----------------------------------------------------------------------------------------------------------------------
# the oracle
# ----------------------------------------------------------------------------------------------------------------------

def _time_findings(kind, raw, offset, exp_ms, judge_type=True):
  """-> list of (mech, message) for one begin/end value."""
  exp = Fraction(exp_ms, 1000)
  out = []
  if raw is None:
    return [(f"time-value:{kind}", f"{kind} is None, expected {exp} s")]
  if isinstance(raw, bool) or not isinstance(raw, (int, Fraction, float)):
    try:
      val = Fraction(raw)
    except Exception:  # pylint: disable=broad-except
      return [(f"time-type:{kind}", f"{kind} = {raw!r} of type {type(raw).__name__} is not a rational")]
    out.append((f"time-type:{kind}", f"{kind} = {raw!r} of type {type(raw).__name__}, expected int or Fraction"))
  else:
    val = Fraction(raw)
  val += offset
  if isinstance(raw, float):
    if judge_type:
      out.append(("time-binary-float", f"{kind} = {raw!r} is a Python float; printed time is {exp_ms} ms = {exp} s"
                  + ("" if val == exp else f" but the float is exactly {val}")))
    if abs(val - exp) > Fraction(1, 10**6):
      out.append((f"time-value:{kind}", f"{kind} = {raw!r}, printed time is {exp} s"))
  elif val != exp:
    out.append((f"time-value:{kind}", f"{kind} = {val} s, printed time is {exp} s"))
  return out


def check_doc(doc, cues, pfx=""):
  """Compares a document returned by the SRT reader with the cues of an AST.
  -> (findings, stats): findings = list of (mech, message, cue index or None); stats = dict of counters."""
  f, stats = [], {}

  def cnt(k, n=1):
    stats[k] = stats.get(k, 0) + n

  real = [c for c in cues if c["lines"]]
  has_empty = len(real) != len(cues)
  ps, problems = _paragraphs(doc)
  for pr in problems:
    f.append((pfx + "structure", pr, None))
  cnt("chk:cue-count")
  if has_empty:
    # a cue without text may or may not yield a paragraph
    if len(ps) == len(cues):
      pairs = [(i, c, ps[i]) for i, c in enumerate(cues) if c["lines"]]
    elif len(ps) == len(real):
      idx = [i for i, c in enumerate(cues) if c["lines"]]
      pairs = [(i, cues[i], ps[k]) for k, i in enumerate(idx)]
    else:
      f.append((pfx + "empty-cue-damage", f"{len(cues)} cues ({len(real)} with text) but {len(ps)} paragraphs", None))
      return f, stats
  else:
    if len(ps) != len(cues):
      f.append((pfx + "cue-count", f"{len(cues)} cues in the file but {len(ps)} paragraphs in the document", None))
      return f, stats
    pairs = [(i, c, ps[i]) for i, c in enumerate(cues)]

  for i, cue, (p, offset, st_p) in pairs:
    # (2) times
    cnt("chk:time", 2)
    for kind, raw, ms in (("begin", p.get_begin(), cue["b"]), ("end", p.get_end(), cue["e"])):
      for mech, msg in _time_findings(kind, raw, offset, ms, judge_type=not pfx):
        f.append((pfx + mech, f"cue {i + 1}: {msg}", i))
    # (3) lines
    cnt("chk:lines")
    lines, problems = _flatten(p, st_p)
    for pr in problems:
      f.append((pfx + "structure", f"cue {i + 1}: {pr}", i))
    exp_lines = [A.expand(l) for l in cue["lines"]]
    obs_text = [_txt(l) for l in lines]
    exp_text = [_txt(l) for l in exp_lines]
    if obs_text != exp_text:
      joined = "\n".join(obs_text)
      if any(t in cue["src"] and t in joined for t in SHORT_BRACE):
        f.append(("brace-short-tag-literal", f"cue {i + 1}: lines expected {exp_text!r} observed {obs_text!r}", i))
        continue
      if len(obs_text) != len(exp_text):
        mech = "line-count"
      elif sorted(obs_text) == sorted(exp_text):
        mech = "line-order"
      else:
        mech = "line-text"
      f.append((pfx + mech, f"cue {i + 1}: lines expected {exp_text!r} observed {obs_text!r}", i))
      continue
    # (4) per-character attributes; untagged characters must look like untagged text (state at P, which must be plain)
    cnt("chk:attrs")
    if st_p[:3] != (False, False, False):
      f.append((pfx + "attr-paragraph-styled", f"cue {i + 1}: text outside any tag is bold/italic/underline = {st_p[:3]}", i))
    default_color = st_p[3]
    for li, (el, ol) in enumerate(zip(exp_lines, lines)):
      for ci, (e, o) in enumerate(zip(el, ol)):
        if e[1] or e[2] or e[3] or e[4] is not None:
          cnt("chk:attrs-tagged-chars")
        for name, k in (("bold", 1), ("italic", 2), ("underline", 3)):
          if bool(o[k]) != e[k]:
            f.append((pfx + "attr-" + name, f"cue {i + 1} line {li + 1} char {ci} {e[0]!r}: {name} expected {e[k]} observed {o[k]}"
                      f" (source {cue['src']!r})", i))
        ec = e[4] if e[4] is not None else default_color
        if o[4] != ec:
          f.append((pfx + "attr-color", f"cue {i + 1} line {li + 1} char {ci} {e[0]!r}: colour expected "
                    f"{ec if e[4] is not None else 'default ' + str(default_color)} observed {o[4]} (source {cue['src']!r})", i))
  return f, stats


def check_frames(doc, cues, fps_list=FPS):
  """IMSC writer in frames syntax: begin/end="Nf" of the i-th p against the printed milliseconds."""
  import ttconv.imsc.writer as imsc_writer
  from ttconv.imsc.config import IMSCWriterConfiguration, TimeExpressionSyntaxEnum
  f, stats = [], {}
  for fps in fps_list:
    try:
      tree = imsc_writer.from_model(doc, IMSCWriterConfiguration(time_format=TimeExpressionSyntaxEnum.frames, fps=Fraction(fps)))
      root = tree.getroot()
      ps = list(root.iter(TTML_NS + "p"))
      timed_ancestors = [e for tag in ("body", "div") for e in root.iter(TTML_NS + tag) if e.get("begin") or e.get("end") or e.get("dur")]
    except Exception as e:  # pylint: disable=broad-except
      f.append((f"frames-imsc-raise:{type(e).__name__}", f"imsc.writer.from_model(frames, {fps} fps) raised {type(e).__name__}: {e}", None))
      continue
    if len(ps) != len(cues) or timed_ancestors:
      stats["frames:abstain-structure"] = stats.get("frames:abstain-structure", 0) + 1
      continue
    for i, (cue, pe) in enumerate(zip(cues, ps)):
      for kind, ms in (("begin", cue["b"]), ("end", cue["e"])):
        stats["chk:frames"] = stats.get("chk:frames", 0) + 1
        v = pe.get(kind)
        exact = Fraction(ms * fps, 1000)
        if v is None or not v.endswith("f") or not v[:-1].isdigit():
          f.append(("frames-syntax", f"cue {i + 1}: {kind}={v!r} at {fps} fps is not a frame count", i))
          continue
        n = int(v[:-1])
        if exact.denominator == 1:
          stats["chk:frames-boundary"] = stats.get("chk:frames-boundary", 0) + 1
          if n != exact:
            f.append(("frames-boundary", f"cue {i + 1}: {kind} {G.fmt_time(ms, 2)} is exactly frame {exact} at {fps} fps but the "
                      f"IMSC writer printed {kind}={v!r}", i))
        elif n not in (math.floor(exact), math.ceil(exact)):
          f.append(("frames-off", f"cue {i + 1}: {kind} {G.fmt_time(ms, 2)} = frame {float(exact):.3f} at {fps} fps but the IMSC "
                    f"writer printed {kind}={v!r}", i))
  return f, stats


def _read(text):
  """-> (doc or None, finding or None)"""
  import ttconv.srt.reader as srt_reader
  try:
    doc = srt_reader.to_model(_open_text(text))
  except Exception as e:  # pylint: disable=broad-except
    import traceback
    tb = traceback.extract_tb(e.__traceback__)
    site = next((f"{fr.filename.rsplit('/', 1)[-1]}:{fr.name}" for fr in reversed(tb) if "/ttconv/" in fr.filename), "?")
    return None, (f"reader-raise:{type(e).__name__}", f"srt.reader.to_model raised {type(e).__name__}: {e} at {site}")
  if doc is None:
    return None, ("reader-returns-none", "srt.reader.to_model returned None (file rejected)")
  return doc, None


def check_roundtrip(doc, cues, text_formatting):
  """srt.writer.from_model(doc) -> printed cues (reference parser) -> srt.reader.to_model must return the printed cues."""
  import ttconv.srt.writer as srt_writer
  from ttconv.srt.config import SRTWriterConfiguration
  f, stats = [], {}
  tf = "on" if text_formatting else "off"
  try:
    out = srt_writer.from_model(doc, SRTWriterConfiguration(text_formatting=text_formatting))
  except Exception as e:  # pylint: disable=broad-except
    # the writer failing on the reader's own document: attributable to C10 only through the float times; counted, reported once
    stats["rt:writer-raise"] = 1
    f.append((f"rt-writer-raise:{type(e).__name__}", f"srt.writer.from_model on the reader's document raised {type(e).__name__}: {e}", None))
    return f, stats, None
  try:
    printed = A.parse(out)
  except A.Abstain as e:
    stats["rt:abstain"] = 1
    stats["rt:abstain:" + str(e)[:40]] = 1
    return f, stats, out
  doc2, finding = _read(out)
  stats["chk:rt-read"] = 1
  stats["chk:rt-formatting-" + tf] = 1
  if finding is not None:
    f.append(("rt-" + finding[0], "reading the SRT writer's output: " + finding[1], None))
    return f, stats, out
  f2, st2 = check_doc(doc2, printed, pfx="rt-")
  same = len(printed) == len(cues)   # cue indices of f2 refer to the printed cues
  f.extend((m, msg + f" (writer output, formatting {tf})", ci if same else None) for m, msg, ci in f2)
  for k, v in st2.items():
    stats["rt:" + k] = stats.get("rt:" + k, 0) + v
  # end to end against the source cues (times and line texts; formatting when on): who is responsible?
  if len(printed) != len(cues):
    stats["rt:e2e-cue-count-differs"] = 1
    f.append(("rt-e2e-cue-count", f"{len(cues)} cues read, {len(printed)} cues printed by the writer (formatting {tf})", None))
  else:
    for i, (c, w) in enumerate(zip(cues, printed)):
      if (c["b"], c["e"]) != (w["b"], w["e"]):
        f.append(("rt-e2e-time", f"cue {i + 1}: read from {c['b']}..{c['e']} ms, written back as {w['b']}..{w['e']} ms", i))
      if [A.line_text(l) for l in c["lines"]] != [A.line_text(l) for l in w["lines"]]:
        stats["rt:e2e-text-differs(writer)"] = stats.get("rt:e2e-text-differs(writer)", 0) + 1
      elif text_formatting and c["lines"] != w["lines"]:
        stats["rt:e2e-format-differs(writer)"] = stats.get("rt:e2e-format-differs(writer)", 0) + 1
      elif text_formatting:
        stats["rt:e2e-format-identical"] = stats.get("rt:e2e-format-identical", 0) + 1
  return f, stats, out


def check_file(text, ast, do_frames=True, do_rt=True):
  """Runs every clause on one file. -> (findings [(mech, message, cue index)], stats)"""
  findings, stats = [], {}

  def merge(st):
    for k, v in st.items():
      stats[k] = stats.get(k, 0) + v

  has_empty = any(not c["lines"] for c in ast)
  doc, finding = _read(text)
  if finding is not None:
    mech, msg = finding
    if has_empty:
      mech = "empty-cue-" + mech
    findings.append((mech, msg, None))
    return findings, stats
  f, st = check_doc(doc, ast)
  findings.extend(f)
  merge(st)
  structural = any(m in ("cue-count", "empty-cue-damage") for m, _, _ in f)
  if structural or has_empty:
    return findings, stats
  if do_frames:
    f, st = check_frames(doc, ast)
    findings.extend(f)
    merge(st)
  if do_rt:
    ordered = all(c["b"] < c["e"] for c in ast) and all(ast[i]["e"] <= ast[i + 1]["b"] for i in range(len(ast) - 1))
    if not ordered:
      stats["rt:skipped-overlapping"] = 1
    else:
      for tf in (True, False):
        f, st, _out = check_roundtrip(doc, ast, tf)
        findings.extend(f)
        merge(st)
  return findings, stats


# ----------------------------------------------------------------------------------------------------------------------
# driver
# ----------------------------------------------------------------------------------------------------------------------

def _crosscheck(text, ast):
  ref = A.parse(text.replace("\r\n", "\n"))
  if ref != ast:
    raise RuntimeError("harness defect: generator AST and reference parser disagree on " + repr(text))


def _record(ctx, text, ast, findings):
  """Records the findings of one file; tries to shrink the witness to the single offending cue."""
  seen = set()
  for mech, msg, ci in findings:
    if mech in seen:  # one violation per mechanism per file
      continue
    seen.add(mech)
    payload = {"text": text, "ast": ast}
    what = msg
    if ci is not None and ci < len(ast) and len(ast) > 1 and ctx.violation_counts[mech] < ctx.MAX_STORED_PER_KEY:
      cue = ast[ci]
      small_text = G.render_single(cue)
      try:
        f2, _ = check_file(small_text, [cue])
        hit = [m for m in f2 if m[0] == mech]
        if hit:
          payload = {"text": small_text, "ast": [cue]}
          what = hit[0][1] + " | minimal file: " + repr(small_text)
      except Exception:  # pylint: disable=broad-except
        pass
    elif ci is not None or len(text) < 400:
      what = msg + " | file: " + repr(text[:400])
    ctx.violation(mech, what, payload)


def run(ctx, p):
  rng = ctx.rng("files", p["shard"])
  for k in range(p["files"]):
    profile = {}
    if k % 50 == 7:
      profile["empty_cue"] = True
      profile["ncues"] = rng.choice([1, 2, 3, 5])
    elif k % 50 == 11:
      profile["ncues"] = 0
    text, ast, classes = G.gen_file(rng, profile)
    snapshot = (text, repr(ast))
    if not any(not c["lines"] for c in ast):
      _crosscheck(text, ast)
      ctx.count("harness:ast-crosscheck")
    ctx.ev()
    for c in classes:
      ctx.count("cls:" + c)
    findings, stats = check_file(text, ast)
    assert snapshot == (text, repr(ast))
    for key, v in stats.items():
      ctx.count(key, v)
    if any(len(c["lines"]) >= 2 or any(r[1] or r[2] or r[3] or r[4] is not None for l in c["lines"] for r in l) or
           any(t in c["src"] for t in ("<", "{")) for c in ast):
      ctx.nontriv(text)
      if len(ctx.samples) < 2 and 2 <= len(ast) <= 3 and len(text) < 500:
        ctx.sample({"file": text, "cues": len(ast), "classes": sorted(classes)})
    _record(ctx, text, ast, findings)


def replay(ctx, rp):
  findings, _ = check_file(rp["text"], rp["ast"])
  for mech, msg, _ci in findings:
    ctx.violation(mech, msg, rp)


def finalize(tier, counters):
  return {"files": counters.get("harness:ast-crosscheck", 0),
          "paragraph_times_checked": counters.get("chk:time", 0),
          "characters_with_tags_checked": counters.get("chk:attrs-tagged-chars", 0),
          "frame_attributes_checked": counters.get("chk:frames", 0),
          "frame_attributes_on_exact_boundary": counters.get("chk:frames-boundary", 0),
          "round_trips": counters.get("chk:rt-read", 0)}
