"""C12 - time-code arithmetic is exact, monotone and invertible.
Driver + monitors (vt/mon/timecode.py). Thorough: every frame count 0..24h for 8 rates (exhaustive), ClockTime on a
dense grid; quick: dense around the drop-frame / minute / hour boundaries, strided elsewhere."""
from fractions import Fraction
import copy
import math

from vt.mon import timecode as mon
from vt.ref import timecode as R

ID = "C12"
RULE = ("frame counts enumerated per rate (thorough: every count in [0, 24h); quick: all counts of the first 11 minutes, "
        "+-3 s around every 10-minute and hour boundary, stride 997 elsewhere); each count drives from_frames, to_frames, "
        "to_temporal_offset, str/parse, from_seconds(exact boundary as Fraction and, when dyadic, float), add_frames; ClockTime: "
        "grid k/8000 s, ms ties, random Fractions/floats in [0,100h). Non-trivial: count >= 1 s of frames / time >= 1 ms; "
        "distinct = distinct (rate, count) resp. distinct arguments (disjoint enumeration, counted)")
ASSUMPTIONS = [
  "reference: integer-only SMPTE ST 12-1 arithmetic in vt/ref/timecode.py",
  "24000/1001: identity, monotonicity, field ranges and rational offset only (SMPTE defines no drop-frame labels for it)",
  "floats that are not exactly on a frame boundary: only |error| < 1 frame is demanded",
  "exact .5 ms ties may round either way",
]
REQUIRED = ["mon:from_frames", "mon:to_frames", "mon:to_temporal_offset", "mon:from_seconds", "mon:from_seconds:boundary",
            "mon:add_frames", "mon:clock_from_seconds", "drv:parse", "drv:monotone-steps", "drv:clock-monotone-steps",
            "drv:float-boundary", "drv:imsc-frames-attr", "drv:observe-after-add"]
SHARD_TIMEOUT = {"quick": 900, "thorough": 3600}

RATES = [str(r) for r in R.ALL_RATES]
DAY = 24 * 3600


def plan(tier, seed):
  shards = []
  if tier == "thorough":
    for rate in RATES:
      for hour in range(24):
        shards.append({"kind": "frames", "rate": rate, "lo_s": hour * 3600, "hi_s": (hour + 1) * 3600, "mode": "all"})
    for i in range(16):
      shards.append({"kind": "clock", "part": i, "parts": 16, "n_random": 150000, "grid_stride": 97})
  else:
    for rate in RATES:
      shards.append({"kind": "frames", "rate": rate, "lo_s": 0, "hi_s": DAY, "mode": "quick"})
    for i in range(4):
      shards.append({"kind": "clock", "part": i, "parts": 4, "n_random": 20000, "grid_stride": 997})
  return shards


def frame_ranges(rate: Fraction, lo_s: int, hi_s: int, mode: str):
  """Yields contiguous (start, stop) ranges of frame counts plus, in quick mode, strided singles."""
  lo = math.ceil(lo_s * rate)
  hi = math.ceil(hi_s * rate)
  if mode == "all":
    yield (lo, hi, 1)
    return
  spans = [(0, math.ceil(660 * rate))]
  for t in range(600, DAY + 1, 600):
    spans.append((max(0, math.floor((t - 3) * rate)), min(hi, math.ceil((t + 3) * rate))))
  # minute boundaries that are not multiples of ten minutes (where drop-frame labels skip), in every hour of the day
  for h in range(24):
    for m in (1, 9, 11, 41, 59):
      t = h * 3600 + m * 60
      spans.append((max(0, math.floor((t - 1) * rate)), min(hi, math.ceil((t + 1) * rate))))
  # merge + strided filler between the spans
  spans.sort()
  pos = lo
  for a, b in spans:
    if a > pos:
      yield (pos, a, 997)
    if b > pos:
      yield (max(a, pos), b, 1)
      pos = b
  if pos < hi:
    yield (pos, hi, 997)


def run_frames(ctx, p):
  from ttconv.time_code import SmpteTimeCode
  from ttconv.imsc import attributes as imsc_attr
  rate = Fraction(p["rate"])
  is2398 = rate == R.R2398
  nominal = R.nominal(rate)
  rng = ctx.rng("frames", p["rate"], p["lo_s"])
  wctx_f = imsc_attr.TemporalAttributeWritingContext(frame_rate=rate, time_expression_syntax=imsc_attr.TimeExpressionSyntaxEnum.frames)
  wctx_c = imsc_attr.TemporalAttributeWritingContext(frame_rate=rate, time_expression_syntax=imsc_attr.TimeExpressionSyntaxEnum.clock_time_with_frames)
  prev_n = None
  prev_lab = None
  prev_tc = None

  def viol(mech, what, n):
    ctx.violation(f"{mech}:{rate}", what, {"kind": "frame", "n": n, "rate": str(rate)})

  for lo, hi, step in frame_ranges(rate, p["lo_s"], p["hi_s"], p["mode"]):
    for n in range(lo, hi, step):
      ctx.ev()
      if n >= nominal:
        ctx.distinct_extra += 1
      try:
        tc = SmpteTimeCode.from_frames(n, rate)
        l = mon.lab(tc)
        back = tc.to_frames()
      except Exception as e:  # pylint: disable=broad-except
        viol("frames-raise", f"frame {n} at {rate}: {type(e).__name__}: {e}", n)
        continue
      if back != n:
        viol("identity", f"from_frames({n}, {rate}) = {l}; to_frames() gives {back}", n)
      if not R.label_valid(l, rate):
        viol("invalid-label", f"from_frames({n}, {rate}) = {l}: field out of range or a label SMPTE 12M skips", n)
      if prev_lab is not None:
        ctx.count("drv:monotone-steps")
        if not l > prev_lab:
          viol("monotone", f"labels not strictly increasing: frame {prev_n} -> {prev_lab}, frame {n} -> {l}", n)
      # str / parse round trip
      try:
        s = str(tc)
        back_tc = SmpteTimeCode.parse(s, rate)
        ctx.count("drv:parse")
        if mon.lab(back_tc) != l or back_tc.get_frame_rate() != rate or not back_tc == tc:
          viol("parse", f"parse(str(tc)) of {s!r} at {rate} gives {mon.lab(back_tc)} at {back_tc.get_frame_rate()}", n)
      except Exception as e:  # pylint: disable=broad-except
        viol("parse-raise", f"parse(str(from_frames({n}))) raised {type(e).__name__}: {e}", n)
      # rational offset
      try:
        off = tc.to_temporal_offset()
        if not isinstance(off, Fraction) or off != Fraction(n) / rate:
          viol("offset", f"frame {n} at {rate}: to_temporal_offset() = {off!r}, expected {Fraction(n) / rate}", n)
      except Exception as e:  # pylint: disable=broad-except
        viol("offset-raise", f"to_temporal_offset raised {type(e).__name__}: {e}", n)
      # exact boundary through from_seconds
      x = Fraction(n) / rate
      try:
        tcs = SmpteTimeCode.from_seconds(x, rate)
        if mon.lab(tcs) != l:
          viol("from_seconds-boundary:Fraction", f"from_seconds({x}, {rate}) = {mon.lab(tcs)} but the time is exactly frame {n} = {l}", n)
        xf = float(x)
        if Fraction(xf) == x:
          ctx.count("drv:float-boundary")
          tcf = SmpteTimeCode.from_seconds(xf, rate)
          if mon.lab(tcf) != l:
            viol("from_seconds-boundary:float", f"from_seconds({xf!r}, {rate}) = {mon.lab(tcf)} but the time is exactly frame {n} = {l}", n)
      except Exception as e:  # pylint: disable=broad-except
        viol("from_seconds-raise", f"from_seconds({x}, {rate}) raised {type(e).__name__}: {e}", n)
      # single-step addition from the previous visited count
      if prev_tc is not None and prev_n == n - 1:
        try:
          prev_tc.add_frames()
          if mon.lab(prev_tc) != l:
            viol("add-one", f"frame {n - 1} add_frames() -> {mon.lab(prev_tc)}, expected {l}", n)
          # a time code that has been observed and then advanced answers like a fresh one (no stale derived state), and so does its copy
          ctx.count("drv:observe-after-add")
          for who, o in (("the advanced object", prev_tc), ("a copy of the advanced object", copy.copy(prev_tc))):
            got = (o.to_frames(), o.to_temporal_offset(), str(o), o == tc)
            want = (n, Fraction(n) / rate, s, True)
            if got != want:
              viol("stale-after-add", f"frame {n - 1} observed, then add_frames(): {who} answers (to_frames, offset, str, == fresh) = {got}, "
                                      f"a fresh time code for frame {n} answers {want}", n)
        except Exception as e:  # pylint: disable=broad-except
          viol("add-raise", f"add_frames raised {type(e).__name__}: {e}", n)
      # n-step addition equals n single additions (sampled)
      if n % 1009 == 0:
        k = rng.choice([2, 3, 10, 29, 30, 59, 60, 1798, 1800, 17982, rng.randrange(2, 200000)])
        try:
          a = SmpteTimeCode.from_frames(n, rate)
          a.to_temporal_offset(); a.to_frames(); str(a)      # observed before it is advanced
          a.add_frames(k)
          if a.to_temporal_offset() != Fraction(n + k) / rate or str(a) != str(SmpteTimeCode.from_frames(n + k, rate)):
            viol("stale-after-add", f"frame {n} observed, then add_frames({k}): offset {a.to_temporal_offset()} / str {a}, expected "
                                    f"{Fraction(n + k) / rate} / {SmpteTimeCode.from_frames(n + k, rate)}", n)
          b = SmpteTimeCode.from_frames(n, rate)
          for _ in range(min(k, 64)):
            b.add_frames()
          if k > 64:
            b.add_frames(k - 64)
          if mon.lab(a) != mon.lab(b) or a.to_frames() != n + k:
            viol("add-k", f"frame {n} add_frames({k}) -> {mon.lab(a)}; {min(k, 64)} single steps (+rest) -> {mon.lab(b)}", n)
          ctx.count("drv:add-k")
        except Exception as e:  # pylint: disable=broad-except
          viol("add-raise", f"add_frames({k}) raised {type(e).__name__}: {e}", n)
      # IMSC writer attribute values in frame syntaxes
      if n % 13 == 0 and not is2398:
        ctx.count("drv:imsc-frames-attr")
        try:
          vf = imsc_attr.to_time_format(wctx_f, x)
          vc = imsc_attr.to_time_format(wctx_c, x)
          if vf != f"{n}f":
            viol("imsc-frames", f"to_time_format(frames, {x}) = {vf!r}, expected '{n}f'", n)
          exp = "%02d:%02d:%02d" % l[:3]
          if not (vc.startswith(exp) and vc[len(exp) + 1:] == "%02d" % l[3] and vc[len(exp)] in ":;"):
            viol("imsc-clock-frames", f"to_time_format(clock_time_with_frames, {x}) = {vc!r}, expected {exp}:{l[3]:02d}", n)
        except Exception as e:  # pylint: disable=broad-except
          viol("imsc-attr-raise", f"to_time_format raised {type(e).__name__}: {e}", n)
      if len(ctx.samples) < 2 and n > 0 and n % 107892 == 1800:
        ctx.sample({"rate": str(rate), "frame": n, "label": list(l), "str": str(tc)})
      prev_n, prev_lab, prev_tc = n, l, tc


def clock_total(ct):
  return ((ct.get_hours() * 60 + ct.get_minutes()) * 60 + ct.get_seconds()) * 1000 + ct.get_milliseconds()


def run_clock(ctx, p):
  from ttconv.time_code import ClockTime
  rng = ctx.rng("clock", p["part"])
  H100 = 100 * 3600
  lo = Fraction(H100 * p["part"], p["parts"])
  hi = Fraction(H100 * (p["part"] + 1), p["parts"])
  xs = []
  # grid k/8000
  k0, k1 = int(lo * 8000), int(hi * 8000)
  for k in range(k0 + p["part"] % p["grid_stride"], k1, p["grid_stride"]):
    xs.append(Fraction(k, 8000))
  # dense neighbourhoods of field boundaries and .5 ms ties
  for base in [0, 1, 59, 60, 3599, 3600, 86399, 86400, 359999] + [rng.randrange(int(lo), int(hi)) for _ in range(200)]:
    if lo <= base < hi or base < 2:
      for j in range(-20, 21):
        for den in (2000, 8000, 1000000):
          x = Fraction(base) + Fraction(j, den)
          if x >= 0:
            xs.append(x)
            xs.append(x + Fraction(9995, 10000))
  for _ in range(p["n_random"]):
    sel = rng.random()
    if sel < 0.4:
      xs.append(Fraction(rng.randrange(int(lo * 10**7), int(hi * 10**7)), 10**7))
    elif sel < 0.6:
      xs.append(Fraction(rng.randrange(int(lo * 1001), int(hi * 1001)), rng.choice([24000, 30000, 60000])) % H100)
    elif sel < 0.8:
      xs.append(rng.uniform(float(lo), float(hi)))
    else:
      xs.append(round(rng.uniform(float(lo), float(hi)), rng.choice([1, 2, 3, 4])))
  xs.sort(key=Fraction)
  prev = None
  for x in xs:
    ctx.ev()
    try:
      ct = ClockTime.from_seconds(x)
    except Exception:  # pylint: disable=broad-except
      continue  # recorded by the monitor
    total = clock_total(ct)
    if Fraction(x) >= Fraction(1, 1000):
      ctx.nontriv(("clk", str(Fraction(x))))
    if prev is not None:
      ctx.count("drv:clock-monotone-steps")
      if total < prev[1] and Fraction(x) > Fraction(prev[0]):
        ctx.violation("clock-monotone", f"ClockTime.from_seconds decreasing: {prev[0]!r} -> {prev[1]} ms, {x!r} -> {total} ms",
                      {"kind": "clock2", "a": [str(Fraction(prev[0])), type(prev[0]).__name__], "b": [str(Fraction(x)), type(x).__name__]})
    # printed form parses back to itself
    try:
      s = str(ct)
      if not ClockTime.parse(s) == ct:
        ctx.violation("clock-parse", f"ClockTime.parse({s!r}) != original", {"kind": "clock", "x": [str(Fraction(x)), type(x).__name__]})
    except Exception as e:  # pylint: disable=broad-except
      ctx.violation("clock-parse-raise", f"ClockTime.parse(str(ct)) raised {type(e).__name__}: {e}",
                    {"kind": "clock", "x": [str(Fraction(x)), type(x).__name__]})
    if len(ctx.samples) < 2 and isinstance(x, Fraction) and x.denominator > 1000:
      ctx.sample({"seconds": str(x), "clock_time": str(ct)})
    prev = (x, total)


def run(ctx, p):
  mon.install(ctx)
  if p["kind"] == "frames":
    run_frames(ctx, p)
  else:
    run_clock(ctx, p)


def _num(pair):
  f = Fraction(pair[0])
  return float(f) if pair[1] == "float" else (int(f) if pair[1] == "int" else f)


def replay(ctx, rp):
  from ttconv.time_code import SmpteTimeCode, ClockTime
  mon.install(ctx)
  k = rp["kind"]
  if k == "frame":
    rate = Fraction(rp["rate"])
    n = rp["n"]
    secs = Fraction(n) / rate
    run_frames_single(ctx, n, rate)
    del secs
  elif k == "label":
    tc = SmpteTimeCode(*rp["label"], Fraction(rp["rate"]))
    tc.to_frames()
    tc.to_temporal_offset()
  elif k == "seconds":
    SmpteTimeCode.from_seconds(_num(rp["x"]), Fraction(rp["rate"]))
  elif k == "add":
    tc = SmpteTimeCode(*rp["label"], Fraction(rp["rate"]))
    tc.add_frames(rp["k"])
  elif k == "clock":
    try:
      ClockTime.from_seconds(_num(rp["x"]))
    except Exception:  # pylint: disable=broad-except
      pass
  elif k == "clock2":
    a, b = _num(rp["a"]), _num(rp["b"])
    ta, tb = clock_total(ClockTime.from_seconds(a)), clock_total(ClockTime.from_seconds(b))
    if Fraction(b) > Fraction(a) and tb < ta:
      ctx.violation("clock-monotone", f"{a!r} -> {ta} ms, {b!r} -> {tb} ms", rp)


def run_frames_single(ctx, n, rate):
  lo_s = int(Fraction(max(n - 1, 0)) / rate)
  p = {"rate": str(rate), "lo_s": lo_s, "hi_s": lo_s + 1, "mode": "all"}
  # re-run the 1-second window containing n (cheap, keeps the step checks)
  run_frames(ctx, p)
  if n >= math.ceil((lo_s + 1) * rate):
    run_frames(ctx, {"rate": str(rate), "lo_s": lo_s + 1, "hi_s": lo_s + 2, "mode": "all"})


def finalize(tier, counters):
  return {"exhaustive": tier == "thorough",
          "explanation": "thorough enumerates every frame count in [0, 24 h) for 24, 25, 30, 50, 60, 30000/1001, 60000/1001 and 24000/1001"}
