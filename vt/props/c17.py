"""C17 - every 16-bit CEA-608 word is decoded totally, unambiguously and per the standard.
Exhaustive monitor: all 65,536 values through SccWord.from_value / from_bytes / from_str are compared with
vt.ref.c608_table (bit-layout reference); plus line disassembly (all 1-word lines, class x class pairs, random
2-4 word lines)."""
import itertools

from vt.ref import c608_table as T

ID = "C17"
RULE = ("all 65,536 word values enumerated (exhaustive); a value is non-trivial when its parity-stripped form is not "
        "padding; distinct = distinct (parity-stripped value, observed description) pairs; disassembly: every 1-word line, "
        "all pairs of class representatives, random 2-4 word lines; consumer probe: three channel-1 streams (pop-on, roll-up, paint-on) re-read "
        "with channel-2 / field-2 code words inserted on lines of their own (every such control code at 5 positions, representatives of the other "
        "classes, random combinations) - the returned document must not change")
ASSUMPTIONS = [
  "reference table written from the CEA-608 bit layout (vt/ref/c608_table.py)",
  "glyph-ambiguous extended-character cells (em dash, caret, bars, box corners, bullet) accept several code points",
  "second byte 01h-1Fh after a printable first byte: rendering not judged (only the first character)",
  "indent PAC may report colour None or white; colour PAC may report indent None or 0",
  "consumer probe: every line of the base streams starts with a channel-1 control code, so no text follows a foreign code without an intervening "
  "channel-1 code; documents compared by deep fingerprint (absdoc.fingerprint)",
]
REQUIRED = ["cls:padding", "cls:chars", "cls:pac", "cls:midrow", "cls:control", "cls:attribute", "cls:special",
            "cls:extended", "cls:unknown", "channel:1", "channel:2", "channel:None-field2", "disasm:lines", "consume:probes", "consume:class:control:chNone:field2", "consume:class:control:ch2", "consume:class:unknown-low:chNone", "consume:probes-with-trailing-text", "consume:class:unknown-code:chNone"]
SHARD_TIMEOUT = {"quick": 600, "thorough": 1800}


def plan(tier, seed):
  shards = [{"kind": "words", "lo": lo, "hi": lo + 0x1000} for lo in range(0, 0x10000, 0x1000)]
  shards.append({"kind": "disasm", "random": 2000 if tier == "quick" else 200000})
  shards.append({"kind": "consume", "random": 150 if tier == "quick" else 4000})
  return shards


def describe(word):
  """Observed description of a ttconv SccWord through its public API."""
  from ttconv.scc.codes.attribute_codes import SccAttributeCode
  from ttconv.scc.codes.control_codes import SccControlCode
  from ttconv.scc.codes.extended_characters import SccExtendedCharacter
  from ttconv.scc.codes.mid_row_codes import SccMidRowCode
  from ttconv.scc.codes.preambles_address_codes import SccPreambleAddressCode
  from ttconv.scc.codes.special_characters import SccSpecialCharacter
  from ttconv.scc.codes import SccChannel
  from ttconv.style_properties import FontStyleType

  code = word.get_code()
  ch = word.get_channel()
  chn = {None: None, SccChannel.CHANNEL_1: 1, SccChannel.CHANNEL_2: 2}[ch]
  if code is None:
    if word.value == 0:
      return {"cls": "padding", "channel": chn}
    if word.byte_1 >= 0x20:
      return {"cls": "chars", "channel": chn, "text": word.to_text()}
    return {"cls": "unknown", "channel": chn}
  if isinstance(code, SccPreambleAddressCode):
    td = code.get_text_decoration()
    return {"cls": "pac", "channel": chn, "row": code.get_row(), "indent": code.get_indent(),
            "color": None if code.get_color() is None else tuple(code.get_color().components),
            "italic": code.get_font_style() is FontStyleType.italic,
            "underline": bool(td is not None and td.underline)}
  if isinstance(code, SccMidRowCode):
    td = code.get_text_decoration()
    return {"cls": "midrow", "channel": chn, "italic": code.get_font_style() is FontStyleType.italic,
            "color": None if code.get_color() is None else tuple(code.get_color().components),
            "underline": bool(td is not None and td.underline)}
  if isinstance(code, SccControlCode):
    return {"cls": "control", "channel": chn, "name": code.get_name()}
  if isinstance(code, SccAttributeCode):
    td = code.get_text_decoration()
    return {"cls": "attribute", "channel": chn, "background": code.is_background(),
            "color": tuple(code.get_color().components), "underline": bool(td is not None and td.underline)}
  if isinstance(code, SccSpecialCharacter):
    return {"cls": "special", "channel": chn, "char": code.get_unicode_value()}
  if isinstance(code, SccExtendedCharacter):
    return {"cls": "extended", "channel": chn, "char": code.get_unicode_value()}
  return {"cls": "??" + type(code).__name__, "channel": chn}


def compare(ref, obs):
  """Returns a list of differences (strings) between reference and observed descriptions."""
  diffs = []
  if ref["cls"] != obs["cls"]:
    return [f"class: expected {ref['cls']} observed {obs['cls']}"]
  if ref["channel"] != obs["channel"]:
    diffs.append(f"channel: expected {ref['channel']} observed {obs['channel']}")
  c = ref["cls"]
  if c == "chars":
    if ref["text_sure"]:
      if obs["text"] != ref["text"]:
        diffs.append(f"text: expected {ref['text']!r} observed {obs['text']!r}")
    elif not obs["text"].startswith(ref["text"]):
      diffs.append(f"text: expected to start with {ref['text']!r} observed {obs['text']!r}")
  elif c == "pac":
    if obs["row"] != ref["row"]:
      diffs.append(f"row: expected {ref['row']} observed {obs['row']}")
    if ref["is_indent"]:
      if obs["indent"] != ref["indent"]:
        diffs.append(f"indent: expected {ref['indent']} observed {obs['indent']}")
      if obs["color"] is not None and not T.color_matches("white", obs["color"]):
        diffs.append(f"color: indent PAC must be white, observed {obs['color']}")
    else:
      if obs["indent"] not in (None, 0):
        diffs.append(f"indent: expected none/0 observed {obs['indent']}")
      if not T.color_matches(ref["color"], obs["color"]):
        diffs.append(f"color: expected {ref['color']} observed {obs['color']}")
    for k in ("italic", "underline"):
      if obs[k] != ref[k]:
        diffs.append(f"{k}: expected {ref[k]} observed {obs[k]}")
  elif c == "midrow":
    for k in ("italic", "underline"):
      if obs[k] != ref[k]:
        diffs.append(f"{k}: expected {ref[k]} observed {obs[k]}")
    if ref["color"] is None:
      if obs["color"] is not None and not T.color_matches("white", obs["color"]):
        diffs.append(f"color: italics mid-row code must not change colour (or white), observed {obs['color']}")
    elif not T.color_matches(ref["color"], obs["color"]):
      diffs.append(f"color: expected {ref['color']} observed {obs['color']}")
  elif c == "control":
    if obs["name"] != ref["name"]:
      diffs.append(f"name: expected {ref['name']} observed {obs['name']}")
  elif c == "attribute":
    if obs["background"] != ref["background"]:
      diffs.append(f"background flag: expected {ref['background']} observed {obs['background']}")
    if obs["underline"] != ref["underline"]:
      diffs.append(f"underline: expected {ref['underline']} observed {obs['underline']}")
    comps = obs["color"]
    if ref["transparent"]:
      if comps[3] != 0:
        diffs.append(f"alpha: expected transparent observed {comps}")
    else:
      if not T.color_matches(ref["color"], comps):
        diffs.append(f"color: expected {ref['color']} observed {comps}")
      if ref["semi"] and not 0 < comps[3] < 255:
        diffs.append(f"alpha: expected semi-transparent observed {comps}")
      if not ref["semi"] and comps[3] != 255:
        diffs.append(f"alpha: expected opaque observed {comps}")
  elif c == "special":
    if obs["char"] != ref["char"]:
      diffs.append(f"char: expected {ref['char']!r} observed {obs['char']!r}")
  elif c == "extended":
    if obs["char"] not in ref["chars"]:
      diffs.append(f"char: expected one of {ref['chars']!r} observed {obs['char']!r}")
  return diffs


def claimants(value7):
  """Which of ttconv's code families claim the (parity-stripped) value."""
  from ttconv.scc.codes.attribute_codes import SccAttributeCode
  from ttconv.scc.codes.control_codes import SccControlCode
  from ttconv.scc.codes.extended_characters import SccExtendedCharacter
  from ttconv.scc.codes.mid_row_codes import SccMidRowCode
  from ttconv.scc.codes.preambles_address_codes import SccPreambleAddressCode
  from ttconv.scc.codes.special_characters import SccSpecialCharacter
  b1, b2 = value7 >> 8, value7 & 0xFF
  out = []
  if SccControlCode.find(value7) is not None: out.append("control")
  if SccAttributeCode.find(value7) is not None: out.append("attribute")
  if SccMidRowCode.find(value7) is not None: out.append("midrow")
  if SccPreambleAddressCode.find(b1, b2) is not None: out.append("pac")
  if SccSpecialCharacter.find(value7) is not None: out.append("special")
  if SccExtendedCharacter.find(value7) is not None: out.append("extended")
  return out


def check_word(ctx, v):
  from ttconv.scc.word import SccWord
  ctx.ev()
  ref = T.classify(v)
  try:
    w = SccWord.from_value(v)
    obs = describe(w)
    w2 = SccWord.from_bytes(v >> 8, v & 0xFF)
    w3 = SccWord.from_str("%04x" % v)
    w4 = SccWord.from_str("%04X" % v)
  except Exception as e:  # pylint: disable=broad-except
    ctx.violation("word-raises", f"word {v:#06x}: {type(e).__name__}: {e}", {"kind": "word", "value": v})
    return
  ctx.count("cls:" + ref["cls"])
  if ref["cls"] == "control" and ref["field"] == 2:
    ctx.count("channel:None-field2")
  elif ref["channel"] is not None:
    ctx.count("channel:%d" % ref["channel"])
  diffs = compare(ref, obs)
  for other in (w2, w3, w4):
    if describe(other) != obs or other.value != w.value:
      diffs.append("from_value / from_bytes / from_str disagree")
  if w.value != (v & 0x7F7F):
    diffs.append(f"parity bits not stripped: value {w.value:#06x}")
  # parity independence: the same description for all four parity variants is implied by comparing
  # each raw value with the reference of its stripped form; check directly too
  base = describe(SccWord.from_value(v & 0x7F7F))
  if base != obs:
    diffs.append(f"classification depends on parity bits: {obs} vs {base}")
  if v == (v & 0x7F7F) and 0x10 <= (v >> 8) <= 0x1F:
    cl = claimants(v)
    ctx.count("claimants:%d" % len(cl))
    if len(cl) > 1:
      diffs.append(f"claimed by several code families: {cl}")
    if len(cl) == 1 and cl[0] != obs["cls"]:
      diffs.append(f"family {cl[0]} claims the word but it decodes as {obs['cls']}")
  if ref["cls"] != "padding":
    ctx.nontriv(("w", v & 0x7F7F, repr(sorted(obs.items(), key=lambda kv: kv[0]))))
  if v in (0x9420, 0x1C2F, 0x1140, 0x91AE) or (len(ctx.samples) < 2 and ref["cls"] == "pac"):
    ctx.sample({"word": "%04x" % v, "reference": {k: (list(x) if isinstance(x, tuple) else x) for k, x in ref.items()},
                "observed": {k: (list(x) if isinstance(x, tuple) else x) for k, x in obs.items()}})
  if diffs:
    ctx.violation("word:" + ref["cls"] + ":" + diffs[0].split(":")[0],
                  f"word {v:#06x} (stripped {v & 0x7F7F:#06x}): " + "; ".join(diffs), {"kind": "word", "value": v})


def expected_disasm_shape(ref, text, show_channel):
  """Structural expectations on the disassembly token of one word; returns list of problems."""
  probs = []
  if not text:
    return ["empty rendering"]
  c = ref["cls"]
  if c == "padding":
    if text != "{}":
      probs.append(f"padding rendered as {text!r}")
  elif c == "chars":
    if ref["text_sure"] and text != ref["text"]:
      probs.append(f"characters {ref['text']!r} rendered as {text!r}")
  elif c in ("pac", "midrow", "control", "attribute"):
    if not (text.startswith("{") and text.endswith("}")) or text in ("{}", "{??}"):
      probs.append(f"{c} code rendered as {text!r}")
    if c == "pac" and ("%02d" % ref["row"]) not in text:
      probs.append(f"PAC row {ref['row']} missing from {text!r}")
    if c == "pac" and ref["is_indent"] and ref["indent"] > 0 and ("%02d" % ref["indent"]) not in text[3:]:
      probs.append(f"PAC indent {ref['indent']} missing from {text!r}")
    if c == "control" and ref["name"] not in text:
      probs.append(f"control code {ref['name']} missing from {text!r}")
    if show_channel and ref["channel"] is not None and ("CC%d" % ref["channel"]) not in text:
      probs.append(f"channel marker CC{ref['channel']} missing from {text!r}")
  elif c == "special":
    if not text.endswith(ref["char"]):
      probs.append(f"special char {ref['char']!r} rendered as {text!r}")
  elif c == "extended":
    if not any(text.endswith(x) for x in ref["chars"]):
      probs.append(f"extended char {ref['chars']!r} rendered as {text!r}")
  return probs


def check_line(ctx, words, tc="01:02:03:04", sep=" "):
  from ttconv.scc.line import SccLine
  from ttconv.scc.word import SccWord
  from ttconv.scc.disassembly import get_scc_word_disassembly
  ctx.ev()
  ctx.count("disasm:lines")
  text = tc + "\t" + sep.join("%04x" % w for w in words)
  replay = {"kind": "line", "words": list(words), "tc": tc}
  try:
    line = SccLine.from_str(text)
    if line is None:
      ctx.violation("disasm-noparse", f"line {text!r} not recognised", replay)
      return
    probs = []
    if [w.value for w in line.scc_words] != [w & 0x7F7F for w in words]:
      probs.append(f"line words {[hex(w.value) for w in line.scc_words]} differ from input")
    for show in (False, True):
      out = line.to_disassembly(show)
      if not out.startswith(tc + "\t"):
        probs.append(f"time code prefix missing in {out!r}")
        continue
      body = out[len(tc) + 1:]
      tokens = [get_scc_word_disassembly(SccWord.from_value(w), show) for w in words]
      for w, tok in zip(words, tokens):
        probs.extend(f"word {w:#06x}: " + p for p in expected_disasm_shape(T.classify(w), tok, show))
      if body != "".join(tokens):
        probs.append(f"line disassembly {body!r} is not the concatenation of its words' renderings {tokens!r}")
  except Exception as e:  # pylint: disable=broad-except
    ctx.violation("disasm-raises", f"line {text!r}: {type(e).__name__}: {e}", replay)
    return
  ctx.nontriv(("l", tuple(w & 0x7F7F for w in words)))
  if probs:
    ctx.violation("disasm:" + "+".join(sorted({T.classify(w)["cls"] for w in words}))[:60],
                  f"line {text!r}: " + "; ".join(probs[:4]), replay)


def representatives():
  """One or more channel-1 and channel-2 representatives per class."""
  reps = {}
  for v in range(0x10000):
    if v != (v & 0x7F7F):
      continue
    r = T.classify(v)
    key = (r["cls"], r["channel"], r.get("field"), r.get("is_indent"), r.get("background"))
    reps.setdefault(key, []).append(v)
  out = []
  for _, vs in sorted(reps.items(), key=lambda kv: repr(kv[0])):
    out.extend([vs[0], vs[len(vs) // 2], vs[-1]])
  return sorted(set(out))


# --- "so that only channel-1 field-1 data is ever decoded": consumer-side probe ------------------------------------------------
# Channel-1 base streams in the three caption modes; every line starts with a channel-1 control code, so a code of another
# channel (or of field 2) transmitted on a line of its own in between cannot legitimately change what channel 1 shows.
def _p(v):
  from vt.gen import scc as G
  return "%04x" % G.apply_parity(v, "odd")


def _txt(sx):
  sx = sx if len(sx) % 2 == 0 else sx + " "
  return [(ord(sx[i]) << 8) | ord(sx[i + 1]) for i in range(0, len(sx), 2)]


BASES = {
  "pop": [(30, [0x1420, 0x1420, 0x1470, 0x1470] + _txt("HELLO YOU") + [0x142F, 0x142F]),
          (120, [0x1420, 0x1420, 0x1350, 0x1350] + _txt("SECOND") + [0x112E, 0x112E] + _txt("ONE") + [0x142F, 0x142F]),
          (210, [0x142C, 0x142C])],
  "roll": [(30, [0x1425, 0x1425, 0x142D, 0x142D, 0x1470, 0x1470] + _txt("ROW ONE")),
           (120, [0x142D, 0x142D, 0x1470, 0x1470] + _txt("ROW TWO")),
           (210, [0x142D, 0x142D, 0x1470, 0x1470] + _txt("ROW THREE")),
           (300, [0x142C, 0x142C])],
  "paint": [(30, [0x1429, 0x1429, 0x1370, 0x1370] + _txt("PAINTED")),
            (120, [0x1429, 0x1429, 0x1470, 0x1470] + _txt("MORE TEXT")),
            (210, [0x142C, 0x142C])],
}


def _render(lines):
  out = ["Scenarist_SCC V1.0", ""]
  for f, ws in sorted(lines, key=lambda x: x[0]):
    out += ["00:00:%02d:%02d\t%s" % (f // 30, f % 30, " ".join(_p(w) for w in ws)), ""]
  return "\n".join(out) + "\n"


def _read_fp(text):
  import ttconv.scc.reader as scc_reader
  from vt.ref import absdoc
  return absdoc.fingerprint(scc_reader.to_model(text))


def check_consume(ctx, mode, inserts, trail=False):
  """inserts: list of (frame, word) - each transmitted doubled on a line of its own.  trail: each is followed, four frames
  later, by a line of printable characters only - they continue the other channel's data (the channel of a character pair
  is the one of the last control code, whichever line it came on) and are not channel-1 text either."""
  base = BASES[mode]
  ctx.ev()
  ctx.count("consume:probes-with-trailing-text" if trail else "consume:probes")
  rp = {"kind": "consume", "mode": mode, "inserts": [list(x) for x in inserts], "trail": trail}
  extra = [(f, [w, w]) for f, w in inserts]
  if trail:
    extra += [(f + 4, _txt("ZZ TOP")) for f, _ in inserts]
  try:
    want = _read_fp(_render(base))
    got = _read_fp(_render(base + extra))
  except Exception as e:  # pylint: disable=broad-except
    ctx.violation("consume-raises", f"{mode} stream with foreign words {[hex(w) for _, w in inserts]}: {type(e).__name__}: {e}", rp)
    return
  if want[3] is not None and want[3][-1]:
    ctx.nontriv(("consume", mode, tuple(inserts)))
  if got != want:
    ws = sorted({w for _, w in inserts})
    r = T.classify(ws[0])
    tag = f"{r['cls']}:ch{r['channel']}" + (":field2" if r.get("field") == 2 else "")
    ctx.violation(f"foreign-word-decoded:{tag}:{mode}", f"{mode} channel-1 stream: inserting {[hex(w) for w in ws]} ({tag}) on lines of their own at frames "
                  f"{[f for f, _ in inserts]} changes the document the reader returns", rp)


def foreign_words():
  """Parity-stripped code words that the reference attributes to channel 2 or to neither channel (field 2)."""
  out = {}
  for v in range(0x1000, 0x2000):
    if v != (v & 0x7F7F):
      continue
    r = T.classify(v)
    if r["cls"] in ("pac", "midrow", "control", "attribute", "special", "extended") and r["channel"] != 1:
      out.setdefault((r["cls"], r["channel"], r.get("field")), []).append(v)
  # words the reference classifies as unknown (no code, no channel, not printable): the first byte below 10h (with any second
  # byte) and the undefined words of the code range - nothing of them may reach the captions either
  for v in range(0x0001, 0x2000):
    if v == (v & 0x7F7F) and T.classify(v)["cls"] == "unknown":
      out.setdefault(("unknown-low" if v < 0x1000 else "unknown-code", None, None), []).append(v)
  return out


def run_consume(ctx, params):
  fw = foreign_words()
  for key, vs in sorted(fw.items(), key=lambda kv: repr(kv[0])):
    ctx.count(f"consume:class:{key[0]}:ch{key[1]}" + (":field2" if key[2] == 2 else ""), len(vs))
  rng = ctx.rng("consume")
  slots = [15, 75, 100, 165, 190, 255, 330]
  for mode in BASES:
    # every foreign control code (they act on memories) at every slot; three representatives of the other classes
    for key, vs in sorted(fw.items(), key=lambda kv: repr(kv[0])):
      pick = vs if key[0] == "control" else [vs[0], vs[len(vs) // 2], vs[-1]]
      if key[0].startswith("unknown"):
        pick = vs[::max(1, len(vs) // 24)]
      for w in pick:
        for f in slots[:5]:
          check_consume(ctx, mode, [(f, w)])
    # channel-2 / field-2 codes followed by a line of bare text (the text continues the other channel's / field's data)
    for key, vs in sorted(fw.items(), key=lambda kv: repr(kv[0])):
      if key[1] == 2 or key[2] == 2:          # ... and field-2 codes: what follows them is field-2 data
        for w in (vs if key[0] == "control" else [vs[0], vs[len(vs) // 2], vs[-1]]):
          for f in slots[:5]:
            check_consume(ctx, mode, [(f, w)], trail=True)
    allv = [v for vs in fw.values() for v in vs]
    for _ in range(params["random"]):
      k = rng.choice([1, 2, 3, 5])
      check_consume(ctx, mode, sorted({(rng.choice(slots), rng.choice(allv)) for _ in range(k)}))


def run(ctx, params):
  if params["kind"] == "consume":
    run_consume(ctx, params)
    return
  if params["kind"] == "words":
    for v in range(params["lo"], params["hi"]):
      check_word(ctx, v)
    return
  # disassembly
  for v in range(0x10000):
    if v == (v & 0x7F7F) or v % 257 == 0:
      check_line(ctx, [v])
  reps = representatives()
  ctx.count("disasm:representatives", len(reps))
  for a, b in itertools.product(reps, reps):
    check_line(ctx, [a, b])
  rng = ctx.rng("disasm")
  tcs = ["00:00:00:00", "01:02:03:04", "10:59:59;29", "23:00:00:15"]
  for i in range(params["random"]):
    n = rng.choice([2, 3, 4])
    ws = [rng.choice(reps) if rng.random() < 0.5 else rng.randrange(0x10000) for _ in range(n)]
    check_line(ctx, ws, tc=tcs[i % len(tcs)])
    if i < 2:
      ctx.sample({"line": tcs[i % len(tcs)] + "\t" + " ".join("%04x" % w for w in ws)})


def replay(ctx, payload):
  if payload["kind"] == "consume":
    check_consume(ctx, payload["mode"], [tuple(x) for x in payload["inserts"]], trail=payload.get("trail", False))
  elif payload["kind"] == "word":
    check_word(ctx, payload["value"])
  else:
    check_line(ctx, payload["words"], payload.get("tc", "01:02:03:04"))


def finalize(tier, counters):
  return {"exhaustive": True, "words_enumerated": sum(v for k, v in counters.items() if k.startswith("cls:"))}
