"""Runs one shard of one property in a fresh interpreter: python -m vt.shard PROP TIER SEED IDX N PARAMS OUT"""
import faulthandler
import json
import sys
import traceback

from vt import core


def main(argv):
  prop, tier, seed, idx, n, params, out = argv[0], argv[1], int(argv[2]), int(argv[3]), int(argv[4]), json.loads(argv[5]), argv[6]
  faulthandler.enable()
  core.bootstrap()
  mod = core.load_prop(prop)
  ctx = core.Ctx(prop, tier, seed, idx, n)
  rc = 0
  try:
    mod.run(ctx, params)
  except BaseException:  # pylint: disable=broad-except
    traceback.print_exc()
    ctx.notes.append("shard %d crashed: %s" % (idx, traceback.format_exc()[-1500:]))
    rc = 3
  ctx.dump(out)
  return rc


if __name__ == "__main__":
  sys.exit(main(sys.argv[1:]))
