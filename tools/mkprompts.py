#!/usr/bin/env python3
"""usage: tools/mkprompts.py <prev_round> <new_round>   derives /tmp/seedprompts/<PID>_r<new>.txt from the previous round's prompt,
adding the previous round's ideas (column 2 of the s-<PID>-<prev> row of DESIGN.md 10.5) to the list of used ideas."""
import re, sys
prev, new = sys.argv[1], sys.argv[2]
design = open("/verif/DESIGN.md").read()
for k in range(1, 20):
  pid = "C%02d" % k
  src = open(f"/tmp/seedprompts/{pid}_r{prev}.txt").read()
  m = re.search(r"^\| s-%s-%s \| (.*?) \|" % (pid, prev), design, re.M)
  idea = m.group(1).replace("`", "").replace('"', "'")
  marker = '. Also avoid changes that merely'
  assert src.count(marker) >= 1, pid
  src = src.replace(marker, '; "%s"' % idea + marker)
  src = src.replace(f"/tmp/seed{prev}-{pid}", f"/tmp/seed{new}-{pid}")
  open(f"/tmp/seedprompts/{pid}_r{new}.txt", "w").write(src)
  print(pid, idea[:100])
