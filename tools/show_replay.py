#!/venv/bin/python
"""Pretty-prints the document of a replay file (C01/C03/C13-style payloads)."""
import json,sys
sys.path.insert(0,'/verif')
from vt import core; core.bootstrap()
from vt.ref import build
from vt.mon.isdcheck import show
v=json.load(open(sys.argv[1]))
print(v['what']); print('t=',v['replay'].get('t'), v['replay'].get('mode'))
adoc=build.loads(v['replay']['doc'])
only=set(sys.argv[2:])
def dump(e,ind=0):
    st={k:show(x) for k,x in e.styles.items() if not only or k in only}
    an=[(a[0],str(a[1]),str(a[2]),show(a[3])) for a in e.anims if not only or a[0] in only]
    print(' '*ind, e.kind, e.id, f'[{e.begin},{e.end})' if (e.begin is not None or e.end is not None) else '', ('reg='+e.region_id) if e.region_id else '', st or '', an or '', repr(e.text) if e.text is not None else '', e.space if e.space!='default' else '')
    for c in e.children: dump(c,ind+2)
print('cell',adoc.cell,'px',adoc.px,'initials',{k:show(x) for k,x in adoc.initials.items()})
for r in adoc.regions: dump(r)
if adoc.body: dump(adoc.body)
