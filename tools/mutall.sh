#!/bin/bash
# usage: tools/mutall.sh [glob]   runs every mutants/<glob>.diff through tools/mut.sh (quick tier), 4 at a time; summary on stdout
cd /verif
G=${1:-*}
ls mutants/$G.diff | xargs -P 4 -I{} bash -c 'f={}; b=$(basename $f .diff); p=$(echo ${b%%_*} | tr a-z A-Z); out=$(tools/mut.sh $f $p quick 2>&1 | tail -3 | tr "\n" " "); rc=$(echo "$out" | grep -o "rc=[0-9]*" | tail -1); if echo "$out" | grep -q "does not apply"; then rc="NOAPPLY"; fi; echo "$b $rc"'
