#!/bin/bash
# usage: tools/evseed.sh <round> <PROP>...   evaluates /tmp/seed<round>-<PROP>/{patch.diff,demo.py} with tools/seeded.py and removes the worktree
cd /verif
R=$1; shift
for p in "$@"; do
  mkdir -p /tmp/sc/$R-$p; cp /tmp/seed$R-$p/patch.diff /tmp/sc/$R-$p/p.diff; cp /tmp/seed$R-$p/demo.py /tmp/sc/$R-$p/d.py
  echo "== $p"; tools/seeded.py s-$p-$R $p /tmp/sc/$R-$p/p.diff /tmp/sc/$R-$p/d.py --tiers ${TIERS:-quick,thorough} 2>&1 | tail -3 | cut -c1-400
  git -C /repo worktree remove --force /tmp/seed$R-$p
done
