#!/bin/bash
# usage: tools/seedall.sh   re-runs the quick check of every seeded change (seeded/<name>/patch.diff) against a scratch worktree, 4 at a time
cd /verif
ls -d seeded/s-* | xargs -P 4 -I{} bash -c 'd={}; n=$(basename $d); p=$(echo $n | cut -d- -f2); out=$(tools/mut.sh $d/patch.diff $p quick 2>&1 | tail -3 | tr "\n" " "); rc=$(echo "$out" | grep -o "rc=[0-9]*" | tail -1); if echo "$out" | grep -q "does not apply"; then rc="NOAPPLY"; fi; echo "$n $rc"'
