#!/venv/bin/python
"""Runs claimed checks over several seeds: tools/sweep.py [--tier quick] [--seeds 0,1,2] [--props C01,C02]
Prints one line per run and a summary of non-zero exits."""
import argparse, json, os, subprocess, sys, time
HERE = os.path.dirname(os.path.dirname(os.path.abspath(__file__)))
ap = argparse.ArgumentParser()
ap.add_argument("--tier", default="quick")
ap.add_argument("--seeds", default="0,1,2,3,4")
ap.add_argument("--props", default=None)
a = ap.parse_args()
m = json.load(open(os.path.join(HERE, "MANIFEST.json")))
props = a.props.split(",") if a.props else [c["property_id"] for c in m["checks"]]
bad = []
for p in props:
  for s in a.seeds.split(","):
    env = dict(os.environ, VERIF_SEED=s, PYTHONHASHSEED="0")
    t0 = time.time()
    r = subprocess.run(["/venv/bin/python", "-B", "-m", "vt.run", p, "--tier", a.tier], cwd=HERE, env=env,
                       stdout=subprocess.PIPE, stderr=subprocess.STDOUT, text=True)
    last = [l for l in r.stdout.splitlines() if l.startswith(p)][-1:] or [r.stdout[-300:]]
    print(f"rc={r.returncode} {time.time()-t0:6.1f}s {last[0][:200]}", flush=True)
    if r.returncode != 0:
      bad.append((p, s, r.returncode))
      for l in r.stdout.splitlines():
        if l.startswith("#") or l.startswith("INCONCLUSIVE"):
          print("    " + l[:400], flush=True)
print("NON-ZERO:", bad)
sys.exit(1 if bad else 0)
