#!/venv/bin/python
"""Regenerates /verif/MANIFEST.json from the table below. Properties without an entry in CHECKS are listed under
not_applicable with the reason in NOT_CLAIMED (default: monitor not built yet)."""
import json, os
HERE = os.path.dirname(os.path.dirname(os.path.abspath(__file__)))
PY = "/venv/bin/python -B -m vt.run"

CHECKS = {
  "C17": dict(
    technique="runtime monitoring: exhaustive differential oracle (bit-layout reference table) over SccWord.from_value/from_bytes/from_str and line disassembly",
    text="Every one of the 65,536 word values is executed through the real decoder and compared with an independent reference "
         "classification written from the CEA-608 bit layout (class, channel, row/indent/colour/italics/underline, characters, parity "
         "independence, single claimant family); disassembly checked on all 1-word lines, class-representative pairs and random lines. "
         "Exhaustive over the finite input space, so for the word decoder this is as strong as observation gets.",
    note="Trusts vt/ref/c608_table.py as the statement of CEA-608; glyph-ambiguous extended cells accept several code points.",
    design="DESIGN.md section 4, C17"),
}
CHECKS.update({
  "C12": dict(
    technique="runtime monitoring: postcondition monitors re-bound onto SmpteTimeCode/ClockTime (reference: integer-only SMPTE 12M arithmetic) + exhaustive frame-count driver",
    text="Monitors on from_frames/to_frames/to_temporal_offset/from_seconds/add_frames/ClockTime.from_seconds compare every call with "
         "integer-only SMPTE ST 12-1 arithmetic; the driver enumerates every frame count of 24 h for 8 rates in the thorough tier (exhaustive) "
         "and the drop-frame/minute/hour neighbourhoods plus strides in the quick tier, plus str/parse, exact-boundary from_seconds (Fraction and "
         "dyadic floats), k-step addition, IMSC frame attributes and a dense ClockTime grid with monotonicity.",
    note="Trusts vt/ref/timecode.py; 24000/1001 judged for identity/monotonicity/ranges/offset only; non-boundary floats only within one frame.",
    design="DESIGN.md section 4, C12"),
  "C01": dict(
    technique="runtime monitoring: reference-model oracle (TTML2 ISD construction over a plain snapshot of the document) on every ISD.from_model execution, cached and uncached",
    text="An independent ISD constructor written from TTML2 11.3.1.3/12.4 predicts, for generated documents (timed regions, nested content, "
         "ruby, region references at any level, display styles/animations/initial values) and every boundary instant +- delta, which elements, "
         "text tokens and line breaks each region shows; each real snapshot (plain and SignificantTimes-accelerated) is compared node by node.",
    note="Trusts vt/ref/isd.py; childless Rb/Rbc and content-less regions not judged; white space compared as tokens (exact white space in C13).",
    design="DESIGN.md section 4, C01"),
  "C03": dict(
    technique="runtime monitoring: reference style-resolution oracle compared with get_style() on every element of every generated snapshot",
    text="Reference style resolution (animation > specified > inherited > initial > default, per-component textDecoration, ruby half size, "
         "writing-mode implied direction, all length conversions, position/origin/extent/padding axis rules) written from TTML2/IMSC is compared "
         "with every applicable property of every snapshot element; evidence lists the compared (kind, property, source) triples.",
    note="Abstains where TTML2 is ambiguous (listed in evidence assumptions); tolerance 1e-9.",
    design="DESIGN.md section 4, C03"),
  "C13": dict(
    technique="runtime monitoring: invariant walker over every node/style of every snapshot + white-space reference",
    text="Every snapshot produced by the workload is walked: no timing/animation/region refs, ownership by the ISD, content model, applicable "
         "styles only and all of them, all lengths in rh/rw, origin == position, no display none, no empty text / childless span, white space per "
         "xml:space against a reference, document parameters, content-less regions only with showBackground always.",
    note="Applicability tables from TTML2/IMSC 'Applies to'; ruby containers may carry the reduced or the span set; mixed xml:space paragraphs not judged for white space.",
    design="DESIGN.md section 4, C13"),
  "C10": dict(
    technique="runtime monitoring: grammar-generated SubRip files with the generator's AST (cross-checked by an independent strict parser) as oracle over srt.reader.to_model, plus writer->reader and IMSC frames composition",
    text="Generated SRT files (counters, blank runs, 2-3 digit hours, 1-5 lines, nested/adjacent tags in both syntaxes, LF/CRLF) are read by the real "
         "reader; paragraph times must be the printed rationals (never floats), lines/br in order, per-character bold/italic/underline/color equal to "
         "the AST, frame-based IMSC output lands on the intended frame, and the writer's own output reads back.",
    note="Abstains on unknown/unbalanced tags, markup-significant characters in text, missing counters (de-facto grammar).",
    design="DESIGN.md section 4, C10"),
  "C19": dict(
    technique="runtime monitoring: differential oracle (tt.main bytes vs harness composition of reader/filters/writer), documented-values table from README, hash-seed subprocess sweep and in-process conversion histories",
    text="tt convert is executed in-process for all 5x3 format pairs and option sets; the written bytes must equal the harness's own composition; type "
         "inference, config precedence, document_lang, error exits without output file, acceptance/rejection of documented configuration values, "
         "independence from PYTHONHASHSEED, progress/log settings and conversion order are observed.",
    note="Trusts the real readers/writers (the property is about the CLI layer); abstentions listed in evidence assumptions; histories sampled.",
    design="DESIGN.md section 4, C19"),
})
CHECKS.update({
  "C02": dict(
    technique="runtime monitoring: metamorphic probes on the real code (snapshot at t vs snapshot at the floor significant time), reference change-point oracle, and sequence-vs-snapshots comparison",
    text="For generated documents with timed animation on offset elements/regions, every reference boundary instant, every midpoint between "
         "reported entries and instants before/after the list are probed: the real snapshot must equal the snapshot at the greatest reported time not "
         "after it (empty before the first); every instant at which the reference presentation changes must be reported; the list is strictly "
         "increasing; generate_isd_sequence equals the snapshots at the entries in order.",
    note="Known finding D-SIG-ANIM is attributed by an exact mechanism classifier (see known_findings.json); content-less regions that paint nothing are ignored.",
    design="DESIGN.md section 4, C02"),
  "C14": dict(
    technique="runtime monitoring: call-history monitor (fingerprint of the document argument before/after every monitored call, nested calls included) + differential cached/uncached and repeat/fresh comparisons over random operation interleavings",
    text="Wrappers re-bound on significant_times, from_model, generate_isd_sequence and the three writers fingerprint the source document (structure, "
         "timing, styles, regions, initial values, object identity) around every call, including the calls writers make internally; random histories of "
         "4-11 operations run on one document object; repeated calls must return equal results, results must equal those on a fresh copy, and cached "
         "snapshots must equal uncached ones at every boundary instant modulo content-less regions that paint nothing.",
    note="Interleavings are sampled (one history per document), not enumerated.",
    design="DESIGN.md section 4, C14"),
})
CHECKS.update({
  "C06": dict(
    technique="runtime monitoring: reference-model oracle (expected cues computed from the reference ISD at every observed significant time) over SRT/VTT writer executions, outputs parsed by independent strict cue parsers",
    text="For generated documents with unique text tokens (several simultaneously active regions, several div/p per region incl. nested divs, br, "
         "ruby, preserve/default space, sub-millisecond and unbounded intervals) and all 2 SRT + 8 VTT configurations, the written string is parsed "
         "by a strict parser and compared cue by cue with the expected intervals (exact millisecond rounding) and token lines.",
    note="Intervals come from the observed significant times (C02 judges those); ruby annotation text optional; text compared as token lines.",
    design="DESIGN.md section 4, C06"),
  "C07": dict(
    technique="runtime monitoring: strict grammar parsers as online checkers of every writer output + per-character style runs recovered from tags vs reference computed styles; reader-produced corpus documents included",
    text="Every SRT/VTT string produced for generated styled documents (markup-significant characters, nested/reset styles) and for documents read "
         "from the bundled corpus is checked against the file/cue grammar (header, STYLE before cues, numbering, begin<end, order/overlap, no empty "
         "line or '-->' in payloads, escaping, balanced non-crossing tags, CSS class rules); bold/italic/underline/colour/background runs and VTT "
         "line/align settings are compared with the reference ISD's computed values.",
    note="Known findings D-NESTED-STYLE-RESET and D-SRT-ARROW attributed by exact classifiers; oblique, ruby-container backgrounds, merged-cue alignment and vertical writing modes not judged.",
    design="DESIGN.md section 4, C07"),
  "C08": dict(
    technique="runtime monitoring: reference CEA-608 decoder (event log of screen changes per frame) checked offline against the document the SCC reader produced, clause by clause",
    text="Generated pop-on / roll-up / paint-on streams (any row/indent/TO, standard/special/extended characters, PAC and mid-row attributes, doubled or "
         "single control codes, channel-2 groups, padding, parity, DF/NDF time codes) and the bundled files are decoded by an independent 608 decoder; "
         "settled screens, pop-on/roll-up/paint-on timing windows, frame exactness, style runs, channel-2 and parity invariance are compared with the document.",
    note="Known findings F-SCC-DUP-FRAMES and F-SCC-ROLLUP-ROW15 attributed by exact classifiers, F-SCC-PAC-ONTO-WRITTEN-ROW by two fixed inputs; columns, alignment heuristics and blank-cell attributes not judged.",
    design="DESIGN.md section 4, C08"),
})
CHECKS.update({
  "C05": dict(
    technique="runtime monitoring: round-trip monitor (writer bytes observed with an independent time-expression parser; re-read document compared with the source through the reference ISD; log records of the re-read observed)",
    text="For generated documents (every element kind incl. ruby delimiters, every style property and value form, animation, regions, initial "
         "values, xml:space/lang) under all writer time formats and 7 frame rates: the writer must not raise, every xml:id must be in the written "
         "bytes, written begin/end values are exact when representable and otherwise within one unit and order-preserving, frame-rate attributes "
         "match, the reader must not log WARNING/ERROR on the writer's output, document parameters are preserved, and source and re-read documents "
         "have identical reference snapshots (structure, text, white space, language, computed styles to 1e-5) at every boundary instant.",
    note="The IMSC reader does not keep xml:id of content elements, so element preservation is observed in the written bytes; childless/zero-length ruby parts are not generated (reader prunes empty intervals).",
    design="DESIGN.md section 4, C05"),
  "C09": dict(
    technique="runtime monitoring: reference EBU Tech 3264 interpreter (byte-level GSI/TTI generator with AST) compared with the document stl.reader produces, through ISD snapshots and model getters; bundled corpus differentially",
    text="Generated STL files over all DFC/CCT/DSC values, TCP/MNR, SN/EBN/CS/JC/VP/CF variety and text fields mixing characters (incl. ISO 6937 "
         "diacritic pairs), control codes, newlines, space runs and filler, under all reader configurations, plus the ~50 real files: subtitle times "
         "at the declared frame rate minus programme start, dropped subtitles, skipped user-data/comment blocks, decoded text up to the first 8Fh, "
         "line breaks, per-character colours/italics/underline, cumulative sets, alignment and safe-area region anchoring are compared.",
    note="Abstains on uncertain ISO 6937 cells, STL30.01 drop/non-drop reading, irregular cumulative sequences, space cells produced by control codes, exact region numbers.",
    design="DESIGN.md section 4, C09"),
})
CHECKS.update({
  "C16": dict(
    technique="runtime monitoring: post-state invariant walker over the filtered document + reference snapshots of the pre-filter document compared with snapshots of the filtered one + idempotence by structural fingerprint",
    text="LCDDocFilter is run on generated documents (regions with origin/position/extent in every unit, writing modes, timed regions, animation, "
         "with and without body) under safe_area/preserve_text_align/color/bg_color configurations; afterwards no animation step or style outside "
         "the allowed set may remain, every region must occupy the safe area, no reference may dangle, equal regions must be merged with references "
         "redirected to a region of the same timing, the set of visible text tokens per time must be unchanged (documents without hiding styles), "
         "configured colour/background/alignment must be what snapshots compute, and a second application must not change the document.",
    note="Known finding D-LCD-NESTED-REGION-CONFLICT attributed by an exact classifier; the filter erases writing modes, so merging is judged on timing and resulting displayAlign.",
    design="DESIGN.md section 4, C16"),
})
CHECKS.update({
  "C11": dict(
    technique="runtime monitoring: grammar-generated WebVTT files with the generator's AST and an independent cue-settings geometry reference as oracles over vtt.reader.to_model; exhaustive cue-settings product in the thorough tier; writer->reader round trip",
    text="Generated WebVTT files (NOTE/STYLE/REGION blocks, identifiers, optional hours, all cue-setting combinations, nested tags, character "
         "references, inline timestamps, ruby, LF/CRLF/CR) are read by the real reader; paragraph times must be exact rationals, payload lines and "
         "per-character bold/italic/underline/class colours/lang/ruby role must equal the AST, inline timestamps must become the begin of the following "
         "text, regions must lie inside the root container with the WebVTT alignments, cues with equal settings must share a region, and the writer's "
         "output must read back.",
    note="Known finding D-VTT-RUBY-IN-SPAN attributed by an exact classifier; exact region numbers judged for percentage lines only.",
    design="DESIGN.md section 4, C11"),
  "C15": dict(
    technique="runtime monitoring: invariant walker over the live model objects after every API call + abstract tree model predicting post-states; exhaustive enumeration of call histories to depth 2 (quick) / 3 (thorough) and long random walks",
    text="Every history of model API calls (14 operations, valid and invalid arguments) over a universe of two documents, four regions and elements "
         "of every kind is executed on the real classes; after every call, accepted or rejected, the walker checks link/length agreement, acyclicity, "
         "single parent, one document per tree, content model incl. ruby patterns, region identity, validity of stored style/animation/initial "
         "values; rejected single-element calls must leave the public state unchanged; accepted calls are compared with the abstract model. "
         "A validity matrix (36 style properties x 260 systematically built values x set_style / put_initial_value / animation step) checks that "
         "no value the reference calls invalid is ever stored.",
    note="Known finding D-REGION-REF-OFF-BODY attributed by an exact classifier; multi-element operations are not required to be atomic.",
    design="DESIGN.md section 4, C15"),
  "C18": dict(
    technique="runtime monitoring: exception-site observer around every stage (reader, ISD sequence, writers, LCD filter) with a per-case CPU-time watchdog, over valid, corpus, structure-aware mutated and token-soup inputs of the five formats",
    text="Each input (generated valid files, bundled corpus, token-level and byte-level mutations, hostile snippets, STL block surgery) is read under a "
         "sampled reader configuration; only the documented failures are accepted from readers; every returned document goes through ISD generation "
         "(cached and uncached), sampled SRT/VTT/IMSC writer configurations, the LCD filter and the writers again; any other exception, identified by "
         "type and innermost ttconv frame, or a case that does not finish within 120 s of its own CPU time, is a violation.",
    note="Known finding D-VTT-RUBY-IN-SPAN attributed by an exact classifier; configurations sampled per input; termination bounded by the watchdog.",
    design="DESIGN.md section 4, C18"),
})
CHECKS.update({
  "C04": dict(
    technique="runtime monitoring: reference-interpreter oracle (TTML2/IMSC 1.1 reader written independently, vt/ref/ttml.py) compared with imsc.reader.to_model through the reference ISD at every boundary instant, plus single-attribute corruption probes with a log-record monitor",
    text="Schema-generated XML documents (every element kind, begin/dur/end in every combination and time-expression syntax under 7 frame rates and "
         "4 tick rates, par/seq nested to depth 4 with offset containers, set, region timing, inline/nested/referential/chained styles with "
         "diamonds and missing references, initial, xml:space/xml:lang mixes, mixed content, ruby containers) are read by the real reader and by the "
         "reference interpreter; both results are viewed through the same reference ISD at all boundary instants +- delta and must agree; each "
         "document is also read with one attribute corrupted (malformed value or unknown attribute): no exception, same presentation as without "
         "the attribute, and a WARNING/ERROR record from ttconv.imsc.* for malformed known attributes.",
    note="Trusts vt/ref/ttml.py and vt/ref/isd.py; abstentions (ambiguous TTML2 clauses, constructs not generated) listed in evidence assumptions.",
    design="DESIGN.md section 4, C04"),
})
NOT_CLAIMED = {}

def main():
  props = [json.loads(l) for l in open(os.path.join(HERE, "properties.jsonl"))]
  checks = []
  for p in props:
    c = CHECKS.get(p["id"])
    if not c:
      continue
    checks.append({
      "property_id": p["id"],
      "quick_cmd": f"{PY} {p['id']} --tier quick",
      "thorough_cmd": f"{PY} {p['id']} --tier thorough",
      "evidence_file": f"/verif/evidence/{p['id']}.json",
      "replay_cmd_template": f"{PY} {p['id']} --replay {{path}}",
      "engine": "vt",
      "level_claimed": {"category": "exploration", "text": c["text"], "design_ref": c["design"]},
      "level_note": c["note"],
      "technique": c["technique"],
    })
  m = {
    "version": 1,
    "setup_cmd": "/venv/bin/python -B -m vt.setup",
    "hooks": {
      "guard": "TTCONV_VERIF",
      "enable": "no source hooks: monitors are installed from the harness by re-binding public attributes of the ttconv modules imported from /repo/src/main/python (fresh interpreter per shard, python -B); nothing inside /repo is switched on",
      "baseline_off_cmd": "cd /repo && /venv/bin/python -m pytest -ra -q -p no:cacheprovider --timeout=900 --continue-on-collection-errors",
      "source_commits": [],
      "add_only": True,
    },
    "engines": [{"name": "vt", "path": "/verif/vt", "serves_properties": sorted(CHECKS),
                 "kind_free_text": "runtime monitoring harness: generated/enumerated workloads drive the real ttconv code in sharded fresh interpreters while reference-model oracles, invariant walkers and history checkers observe every execution"}],
    "checks": checks,
    "notes": "Runtime monitoring of sandflow/ttconv; see DESIGN.md. Exit 0 held / 1 violation / 2 inconclusive. Known findings: known_findings.json.",
    "not_applicable": [{"property_id": p["id"], "reason": NOT_CLAIMED.get(p["id"], "monitor not built/validated yet (work in progress, DESIGN.md section 9); not claimed rather than claimed with a weak oracle")}
                       for p in props if p["id"] not in CHECKS],
  }
  json.dump(m, open(os.path.join(HERE, "MANIFEST.json"), "w"), indent=1)
  import sys
  sys.path.insert(0, os.path.join(HERE, ".deps"))
  try:
    import jsonschema
    jsonschema.validate(m, json.load(open("/root/.vp/MANIFEST.schema.json")))
    print("MANIFEST.json valid;", len(checks), "checks")
  except ImportError:
    print("written (jsonschema unavailable)")

if __name__ == "__main__":
  main()
