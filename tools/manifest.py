#!/venv/bin/python
"""Regenerates /verif/MANIFEST.json from the table below. Properties without an entry in CHECKS are listed under
not_applicable with the reason in NOT_CLAIMED (default: monitor not built yet)."""
import json, os
HERE = os.path.dirname(os.path.dirname(os.path.abspath(__file__)))
PY = "/venv/bin/python -B -m vt.run"

CHECKS = {
  "C17": dict(
    technique="runtime monitoring: exhaustive differential oracle (bit-layout reference table) over SccWord.from_value/from_bytes/from_str and line disassembly",
    text="Every one of the 65,536 word values is executed through the real decoder and compared with an independent reference "
         "classification written from the CEA-608 bit layout (class, channel, row/indent/colour/italics/underline, characters, parity "
         "independence, single claimant family); disassembly checked on all 1-word lines, class-representative pairs and random lines. "
         "Exhaustive over the finite input space, so for the word decoder this is as strong as observation gets.",
    note="Trusts vt/ref/c608_table.py as the statement of CEA-608; glyph-ambiguous extended cells accept several code points.",
    design="DESIGN.md section 4, C17"),
}
NOT_CLAIMED = {}

def main():
  props = [json.loads(l) for l in open(os.path.join(HERE, "properties.jsonl"))]
  checks = []
  for p in props:
    c = CHECKS.get(p["id"])
    if not c:
      continue
    checks.append({
      "property_id": p["id"],
      "quick_cmd": f"{PY} {p['id']} --tier quick",
      "thorough_cmd": f"{PY} {p['id']} --tier thorough",
      "evidence_file": f"/verif/evidence/{p['id']}.json",
      "replay_cmd_template": f"{PY} {p['id']} --replay {{path}}",
      "engine": "vt",
      "level_claimed": {"category": "exploration", "text": c["text"], "design_ref": c["design"]},
      "level_note": c["note"],
      "technique": c["technique"],
    })
  m = {
    "version": 1,
    "setup_cmd": "/venv/bin/python -B -m vt.setup",
    "hooks": {
      "guard": "TTCONV_VERIF",
      "enable": "no source hooks: monitors are installed from the harness by re-binding public attributes of the ttconv modules imported from /repo/src/main/python (fresh interpreter per shard, python -B); nothing inside /repo is switched on",
      "baseline_off_cmd": "cd /repo && /venv/bin/python -m pytest -ra -q -p no:cacheprovider --timeout=900 --continue-on-collection-errors",
      "source_commits": [],
      "add_only": True,
    },
    "engines": [{"name": "vt", "path": "/verif/vt", "serves_properties": sorted(CHECKS),
                 "kind_free_text": "runtime monitoring harness: generated/enumerated workloads drive the real ttconv code in sharded fresh interpreters while reference-model oracles, invariant walkers and history checkers observe every execution"}],
    "checks": checks,
    "notes": "Runtime monitoring of sandflow/ttconv; see DESIGN.md. Exit 0 held / 1 violation / 2 inconclusive. Known findings: known_findings.json.",
    "not_applicable": [{"property_id": p["id"], "reason": NOT_CLAIMED.get(p["id"], "monitor not built/validated yet (work in progress, DESIGN.md section 9); not claimed rather than claimed with a weak oracle")}
                       for p in props if p["id"] not in CHECKS],
  }
  json.dump(m, open(os.path.join(HERE, "MANIFEST.json"), "w"), indent=1)
  import sys
  sys.path.insert(0, os.path.join(HERE, ".deps"))
  try:
    import jsonschema
    jsonschema.validate(m, json.load(open("/root/.vp/MANIFEST.schema.json")))
    print("MANIFEST.json valid;", len(checks), "checks")
  except ImportError:
    print("written (jsonschema unavailable)")

if __name__ == "__main__":
  main()
