mk () 
{ 
    /venv/bin/python - "$@" <<'EOF'
import sys,subprocess,os,tempfile,shutil
name,rel,old,new=sys.argv[1:5]
src=open('/repo/'+rel).read()
assert src.count(old)>=1,(name,'old not found')
td=tempfile.mkdtemp()
a=os.path.join(td,'a',rel); b=os.path.join(td,'b',rel)
os.makedirs(os.path.dirname(a)); os.makedirs(os.path.dirname(b))
open(a,'w').write(src); open(b,'w').write(src.replace(old,new,1))
r=subprocess.run(['diff','-u',os.path.join('a',rel),os.path.join('b',rel)],cwd=td,capture_output=True,text=True)
open('/verif/mutants/'+name+'.diff','w').write(r.stdout)
shutil.rmtree(td)
print(name,len(r.stdout.splitlines()),'lines')
EOF

}
mk "$@"
