#!/venv/bin/python
"""Confirms a seeded change and runs the property's check against it.
usage: tools/seeded.py <name> <PROP> <patch.diff> <demo.py> [--tiers quick,thorough] [--needs "..."]
Steps (all in a scratch worktree of /repo HEAD under /tmp, removed afterwards):
 1. demo passes on the unmodified tree; 2. patch applies; 3. pinned suite: 446 stable passes still pass;
 4. demo fails with the patch; 5. the property's check(s) with VT_REPO=<worktree>: records exit codes and firing mechs.
Writes /verif/seeded/<name>/{patch.diff,demo.py,meta.json}."""
import argparse, json, os, shutil, subprocess, sys, tempfile, re
HERE = os.path.dirname(os.path.dirname(os.path.abspath(__file__)))
ap = argparse.ArgumentParser()
ap.add_argument("name"); ap.add_argument("prop"); ap.add_argument("patch"); ap.add_argument("demo")
ap.add_argument("--tiers", default="quick")
ap.add_argument("--needs", default="")
ap.add_argument("--also", default="", help="other properties whose quick check to run too (comma separated)")
a = ap.parse_args()
wt = tempfile.mkdtemp(prefix="vtseed.", dir="/tmp")
os.rmdir(wt)
def sh(cmd, **kw):
  return subprocess.run(cmd, shell=True, stdout=subprocess.PIPE, stderr=subprocess.STDOUT, text=True, **kw)
meta = {"name": a.name, "property": a.prop, "needs": a.needs, "ran": []}
try:
  r = sh(f"git -C /repo worktree add --detach -q {wt} HEAD"); assert r.returncode == 0, r.stdout
  meta["repo_head"] = sh("git -C /repo rev-parse --short HEAD").stdout.strip()
  env = f"PYTHONPATH={wt}/src/main/python"
  shutil.copy(a.demo, f"{wt}/demo.py")
  r0 = sh(f"cd {wt} && {env} timeout 600 /venv/bin/python demo.py")
  meta["demo_without_patch_rc"] = r0.returncode
  r = sh(f"git -C {wt} apply {os.path.abspath(a.patch)}")
  meta["patch_applies"] = r.returncode == 0
  if r.returncode != 0:
    print("PATCH DOES NOT APPLY", r.stdout)
  else:
    r1 = sh(f"cd {wt} && {env} timeout 600 /venv/bin/python demo.py")
    meta["demo_with_patch_rc"] = r1.returncode
    meta["demo_with_patch_tail"] = r1.stdout[-400:]
    rb = sh(f"{HERE}/tools/baseline.py {wt}")
    meta["baseline"] = rb.stdout.strip().splitlines()[-3:]
    meta["baseline_ok"] = rb.returncode == 0
    props = [a.prop] + [p for p in a.also.split(",") if p]
    for p in props:
      for tier in a.tiers.split(","):
        if p != a.prop and tier != "quick":
          continue
        rc = sh(f"cd {HERE} && VT_REPO={wt} /venv/bin/python -B -m vt.run {p} --tier {tier}")
        mechs = [l[2:].split(" (x")[0] for l in rc.stdout.splitlines() if l.startswith("# ")]
        last = [l for l in rc.stdout.splitlines() if l.startswith(p + " ")][-1:]
        meta["ran"].append({"check": p, "tier": tier, "rc": rc.returncode, "mechs": mechs[:12], "summary": last[0] if last else rc.stdout[-300:]})
        print(f"{p} {tier}: rc={rc.returncode} mechs={mechs[:6]}")
        if rc.returncode == 1 and p == a.prop:
          break
  caught = any(x["rc"] == 1 and x["check"] == a.prop for x in meta["ran"])
  meta["caught_by_own_check"] = caught
  meta["caught_by"] = sorted({f"{x['check']}:{x['tier']}" for x in meta["ran"] if x["rc"] == 1})
  meta["confirmed"] = bool(meta.get("patch_applies") and meta.get("baseline_ok") and meta.get("demo_without_patch_rc") == 0 and meta.get("demo_with_patch_rc", 0) != 0)
  d = os.path.join(HERE, "seeded", a.name)
  os.makedirs(d, exist_ok=True)
  shutil.copy(a.patch, os.path.join(d, "patch.diff")); shutil.copy(a.demo, os.path.join(d, "demo.py"))
  json.dump(meta, open(os.path.join(d, "meta.json"), "w"), indent=1)
  print(json.dumps({k: meta[k] for k in ("confirmed", "patch_applies", "baseline_ok", "demo_without_patch_rc", "demo_with_patch_rc", "caught_by_own_check", "caught_by") if k in meta}))
finally:
  sh(f"git -C /repo worktree remove --force {wt}")
