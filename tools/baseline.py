#!/venv/bin/python
"""Runs the pinned test-suite of a ttconv tree (default /repo) and compares with /root/.vp/BASELINE.json:
prints missing stable passes (must be none). usage: tools/baseline.py [repo_dir]"""
import json, os, subprocess, sys, tempfile
import xml.etree.ElementTree as ET
repo = sys.argv[1] if len(sys.argv) > 1 else "/repo"
base = json.load(open("/root/.vp/BASELINE.json"))
with tempfile.TemporaryDirectory(dir="/var/tmp") as td:
  out = os.path.join(td, "j.xml")
  env = dict(os.environ)
  env.pop("TTCONV_VERIF", None)
  if repo != "/repo":
    env["PYTHONPATH"] = os.path.join(repo, "src/main/python")
  r = subprocess.run(["/venv/bin/python", "-m", "pytest", "-q", "-p", "no:cacheprovider", "--timeout=900",
                      "--continue-on-collection-errors", "--junitxml=" + out], cwd=repo, env=env,
                     stdout=subprocess.PIPE, stderr=subprocess.STDOUT, text=True)
  passed = set()
  for tc in ET.parse(out).getroot().iter("testcase"):
    if not any(c.tag in ("failure", "error", "skipped") for c in tc):
      passed.add(tc.get("classname") + "::" + tc.get("name"))
missing = sorted(set(base["stable_pass"]) - passed)
print(r.stdout.strip().splitlines()[-1])
print(f"stable_pass={len(base['stable_pass'])} passed_now={len(passed)} missing={len(missing)}")
for m in missing[:30]:
  print("  MISSING", m)
sys.exit(1 if missing else 0)
