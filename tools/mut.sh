#!/bin/bash
# usage: tools/mut.sh <patch.diff> <PROP> [tier] [--tests]
# Applies a patch to a scratch worktree of /repo, runs the property's check against it (VT_REPO), removes the worktree.
# Expect "rc=1" for a mutant that the check catches. With --tests also runs the pinned test-suite in the worktree.
set -u
PATCH=$(realpath "$1"); PROP=$2; TIER=${3:-quick}; TESTS=${4:-}
WT=$(mktemp -d /tmp/vtmut.XXXXXX)
git -C /repo worktree add --detach -q "$WT" HEAD >/dev/null 2>&1 || { echo "worktree failed"; exit 9; }
if ! git -C "$WT" apply "$PATCH"; then echo "patch does not apply"; git -C /repo worktree remove --force "$WT"; exit 9; fi
if [ "$TESTS" = "--tests" ]; then
  (cd "$WT" && PYTHONPATH="$WT/src/main/python" /venv/bin/python -m pytest -q -p no:cacheprovider -x -q --timeout=900 2>&1 | tail -3)
fi
cd /verif
VT_REPO="$WT" /venv/bin/python -B -m vt.run "$PROP" --tier "$TIER" | tail -8
echo "rc=${PIPESTATUS[0]}"
git -C /repo worktree remove --force "$WT"
